#!/usr/bin/env python3
"""Regenerate /verif/MANIFEST.json from the property modules that exist under sa/props."""
import importlib
import json
import os
import subprocess
import sys

VERIF = os.path.dirname(os.path.dirname(os.path.abspath(__file__)))
sys.path.insert(0, VERIF)

NA_REASONS = {
    'C09': 'Every clause (block-diagonal effective channel, per-user power reached/not exceeded, receive filter '
           'inverts the effective channel, interference removed by stream reduction) is a numeric statement about '
           'SVD/null-space/pinv outputs of opaque LAPACK calls whose rank decisions are data dependent; no sound '
           'static argument in reach bounds them, and the only structural facts (metric-name dispatch, same '
           'normalisation on precoder and equivalent channel) are not necessary conditions of a stated clause.',
}
NOT_BUILT = 'no static checker is built for this property (yet); nothing weaker is substituted'


def main():
    checks = []
    na = []
    engines = {}
    fixes = subprocess.run(['git', '-C', '/repo', 'log', '--format=%h %s'], capture_output=True, text=True).stdout
    fix_commits = [l.split()[0] for l in fixes.splitlines() if l.split(' ', 1)[1].startswith('fix:')]
    for i in range(1, 21):
        pid = 'C%02d' % i
        try:
            mod = importlib.import_module('sa.props.%s' % pid.lower())
        except ModuleNotFoundError:
            na.append({'property_id': pid, 'reason': NA_REASONS.get(pid, NOT_BUILT)})
            continue
        if getattr(mod, 'NOT_APPLICABLE', None):
            na.append({'property_id': pid, 'reason': mod.NOT_APPLICABLE})
            continue
        checks.append({
            'property_id': pid,
            'quick_cmd': './check %s --tier quick' % pid,
            'thorough_cmd': './check %s --tier thorough' % pid,
            'evidence_file': '/verif/evidence/%s.json' % pid,
            'replay_cmd_template': './check %s --replay {path}' % pid,
            'engine': getattr(mod, 'ENGINE', 'sa'),
            'level_claimed': {
                'category': 'other',
                'text': getattr(mod, 'LEVEL_TEXT', mod.EXPLANATION),
                'design_ref': 'DESIGN.md section 3, %s' % pid,
            },
            'level_note': getattr(mod, 'LEVEL_NOTE',
                                  'Static analysis of /repo source (stdlib ast; pyphysim/numpy never imported or '
                                  'run). Decides the structural clauses named in level_claimed.text - necessary '
                                  'conditions of the property - not the numeric behaviour. Trusted base: the '
                                  'checker (sa/), CPython ast, the E1 assumptions (no setattr/__dict__ writes by '
                                  'computed name, no monkey-patching), frozen anchor tables of DESIGN.md App. A.'),
            'technique': getattr(mod, 'TECHNIQUE', 'static analysis: custom AST/dataflow rules'),
        })
        for e in getattr(mod, 'ENGINES', []):
            engines.setdefault(e, []).append(pid)
    eng_desc = {
        'model': ('sa/model.py', 'program model: imports, classes, MRO, properties, receiver-sensitive call resolution'),
        'dsf': ('sa/dsf.py', 'derived-state freshness: abstract interpretation over NONE<CLEAN<DIRTY per derived attribute'),
        'paths': ('sa/paths.py', 'path rules: structured forward abstract interpretation with raise-point tracking'),
        'codec': ('sa/codec.py', 'writer/reader agreement, effect and alias-capture rules'),
        'tables': ('sa/tables.py', 'literal tables and idiom rules'),
        'terms': ('sa/terms.py', 'term normal forms of straight-line scalar formulas'),
        'shapes': ('sa/shapes.py', 'symbolic shape conformance interpreter'),
    }
    manifest = {
        'version': 1,
        'setup_cmd': 'true',
        'hooks': {
            'guard': 'PYPHYSIM_VERIF',
            'enable': 'none needed: nothing is executed or instrumented; checks read /repo sources only',
            'baseline_off_cmd': 'cd /repo && /venv/bin/python -m pytest -ra -q -p no:cacheprovider --timeout=900 '
                                '--continue-on-collection-errors',
            'source_commits': fix_commits,
            'add_only': True,
        },
        'engines': [{'name': k, 'path': eng_desc[k][0], 'serves_properties': sorted(v),
                     'kind_free_text': eng_desc[k][1]} for k, v in sorted(engines.items()) if k in eng_desc],
        'checks': checks,
        'not_applicable': na,
        'notes': 'Technique family: static analysis only. Exit codes: 0 holds (KNOWN-FINDING lines for listed '
                 'defects), 1 VIOLATION, 2 ANALYSIS-ERROR (cannot tell). Genuine defects: known_findings.json. '
                 'source_commits lists unguarded "fix:" commits in /repo (no hooks exist).',
    }
    with open(os.path.join(VERIF, 'MANIFEST.json'), 'w') as fh:
        json.dump(manifest, fh, indent=1)
    print('claimed:', [c['property_id'] for c in checks])
    print('n/a    :', [c['property_id'] for c in na])
    try:
        import jsonschema
        jsonschema.validate(manifest, json.load(open('/root/.vp/MANIFEST.schema.json')))
        print('MANIFEST validates')
    except ImportError:
        pass


if __name__ == '__main__':
    main()
