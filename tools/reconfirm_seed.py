#!/usr/bin/env python3
"""Re-run the stable-pass baseline for kept seeds whose first confirmation run lost only randomly failing tests.

  tools/reconfirm_seed.py <seed-name> ...
The baseline is repeated (up to 3 times) with the patch applied; the seed is confirmed if one run has missing=0.
"""
import json
import os
import subprocess
import sys

VERIF = os.path.dirname(os.path.dirname(os.path.abspath(__file__)))


def sh(cmd, **kw):
    return subprocess.run(cmd, shell=True, capture_output=True, text=True, **kw)


for name in sys.argv[1:]:
    d = os.path.join(VERIF, 'seeded', name)
    mp = os.path.join(d, 'meta.json')
    meta = json.load(open(mp))
    if sh('git -C /repo status --porcelain').stdout.strip():
        sys.exit('refusing: /repo not clean')
    if sh('git -C /repo apply --whitespace=nowarn %s' % os.path.join(d, 'patch.diff')).returncode:
        print(name, 'patch does not apply')
        continue
    try:
        runs = meta.setdefault('baseline_reruns', [])
        ok = False
        for _ in range(3):
            r = sh('/venv/bin/python %s/tools/baseline_check.py' % VERIF)
            lines = r.stdout.strip().splitlines()
            runs.append(lines)
            if any('missing=0' in l for l in lines):
                ok = True
                break
    finally:
        sh('git -C /repo checkout -- .')
    if ok:
        meta['baseline_with_patch'] = runs[-1]
        meta['confirmed'] = bool(meta['demo_without_patch']['exit'] == 0 and meta.get('demo_with_patch', {}).get('exit') not in (0, None))
        meta['ran'].append('tools/reconfirm_seed.py: baseline repeated because the first run lost only randomly failing tests: %s'
                           % [l for run in runs[:-1] for l in run if 'NOT' in l])
    json.dump(meta, open(mp, 'w'), indent=1)
    print(name, 'confirmed=%s' % meta['confirmed'], runs[-1][:2])
