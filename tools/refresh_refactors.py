#!/usr/bin/env python3
"""Re-run every check on every kept behaviour-preserving refactoring (seeded/refactor/*) and update its meta.json.

  tools/refresh_refactors.py [name-prefix ...]
A VIOLATION (exit 1) on one of these is a false alarm of the machinery; exit 2 is a recorded refusal.
"""
import json
import os
import re
import subprocess
import sys
from concurrent.futures import ThreadPoolExecutor

VERIF = os.path.dirname(os.path.dirname(os.path.abspath(__file__)))
ALL = ['C%02d' % i for i in range(1, 21)]


def sh(cmd, **kw):
    return subprocess.run(cmd, shell=True, capture_output=True, text=True, **kw)


def one(p):
    r = sh('./check %s --no-evidence' % p, cwd=VERIF)
    keys = re.findall(r'^pyphysim/\S+ \[([^\]]+)\]', r.stdout, flags=re.M)
    err = [l[:300] for l in r.stdout.splitlines() if l.startswith('ANALYSIS-')]
    return p, r.returncode, keys, err


def main():
    pref = [a for a in sys.argv[1:] if not a.startswith('-')]
    base = os.path.join(VERIF, 'seeded', 'refactor')
    fa = ref = 0
    for name in sorted(os.listdir(base)):
        if pref and not any(name.startswith(x) for x in pref):
            continue
        d = os.path.join(base, name)
        patch = os.path.join(d, 'patch.diff')
        if not os.path.isfile(patch):
            continue
        if sh('git -C /repo status --porcelain').stdout.strip():
            print('refusing: /repo not clean')
            return 2
        if sh('git -C /repo apply --whitespace=nowarn %s' % patch).returncode:
            print(name, 'PATCH DOES NOT APPLY')
            continue
        try:
            with ThreadPoolExecutor(16) as ex:
                res = list(ex.map(one, ALL))
        finally:
            sh('git -C /repo checkout -- .')
        mp = os.path.join(d, 'meta.json')
        meta = json.load(open(mp)) if os.path.exists(mp) else {'refactoring': name}
        meta['checks_not_exit0_with_patch'] = {p: {'exit': rc, 'keys': k, 'analysis_error': e[:1]} for p, rc, k, e in res if rc}
        meta['false_alarms'] = sorted(p for p, rc, k, e in res if rc == 1)
        meta['refused_by'] = sorted(p for p, rc, k, e in res if rc == 2)
        json.dump(meta, open(mp, 'w'), indent=1)
        fa += len(meta['false_alarms'])
        ref += len(meta['refused_by'])
        print('%s FALSE-ALARMS=%s refused=%s' % (name, meta['false_alarms'], meta['refused_by']))
        for p in meta['false_alarms'] + meta['refused_by']:
            v = meta['checks_not_exit0_with_patch'][p]
            print('     ', p, v['keys'][:4], v['analysis_error'])
    print('TOTAL false alarms %d, refusals %d' % (fa, ref))
    return 0


if __name__ == '__main__':
    sys.exit(main())
