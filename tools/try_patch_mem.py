#!/usr/bin/env python3
"""Apply a patch.diff IN MEMORY to the overlay of the current tree (VERIF_REPO or /repo; nothing is written) and run the quick checks of
the given properties on it.   usage: tools/try_patch_mem.py seeded/<x> [C01 C02 ...] [-v]"""
import os, sys
sys.path.insert(0, os.path.dirname(os.path.dirname(os.path.abspath(__file__))))
from sa.overlay import Overlay, AnalysisError
from sa.report import Ctx, split_known
from sa.run import load_prop
from sa.selftest import apply_unified_diff

args = [a for a in sys.argv[1:] if not a.startswith('-')]
verbose = '-v' in sys.argv
d = args[0]
patch = d if d.endswith('.diff') else os.path.join(d, 'patch.diff')
props = args[1:] or ['C%02d' % i for i in range(1, 21)]
base = Overlay.load()
ov = Overlay(apply_unified_diff(base.files, open(patch).read()), base.root, 'patched')
for pid in props:
    mod = load_prop(pid)
    ctx = Ctx(pid, ov, 'quick', 0)
    err = None
    try:
        mod.check(ctx)
        ctx.check_floors()
    except AnalysisError as e:
        err = str(e)
    new = split_known(pid, ctx.violations)[0]
    status = 1 if new else (2 if err else 0)
    print('%s exit %d' % (pid, status))
    if verbose:
        for v in new:
            print('    %s:%s: [%s] %s' % (v.path, v.line, v.key, v.msg[:300]))
        if err:
            print('    ANALYSIS-%s %s' % ('INCOMPLETE' if new else 'ERROR', err[:400]))
