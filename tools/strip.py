#!/usr/bin/env python3
"""Print a python file without docstrings/comments/blank lines but with original line numbers (reading aid)."""
import ast, sys, io, tokenize
def main(path, lo=None, hi=None):
    src = open(path).read()
    tree = ast.parse(src)
    skip = set()
    for n in ast.walk(tree):
        if isinstance(n, (ast.FunctionDef, ast.ClassDef, ast.Module, ast.AsyncFunctionDef)):
            b = n.body
            if b and isinstance(b[0], ast.Expr) and isinstance(b[0].value, ast.Constant) and isinstance(b[0].value.value, str):
                for l in range(b[0].lineno, b[0].end_lineno + 1):
                    skip.add(l)
    lines = src.splitlines()
    for i, l in enumerate(lines, 1):
        if lo and i < lo: continue
        if hi and i > hi: break
        s = l.strip()
        if i in skip or not s or s.startswith('#'): continue
        print(f"{i:5d} {l}")
if __name__ == '__main__':
    a = sys.argv[1:]
    main(a[0], int(a[1]) if len(a) > 1 else None, int(a[2]) if len(a) > 2 else None)
