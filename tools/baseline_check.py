#!/usr/bin/env python3
"""Run the repo's baseline test command and list stable-pass tests that did not pass."""
import json, subprocess, sys, tempfile, os
import xml.etree.ElementTree as ET
b = json.load(open('/root/.vp/BASELINE.json'))
with tempfile.TemporaryDirectory() as d:
    f = os.path.join(d, 'j.xml')
    cmd = b['cmd'].replace('<file>', f)
    # test-suite runs on this machine must not overlap (fixed ZMQ port in the progressbar tests): shared lock
    import shlex
    r = subprocess.run('flock /tmp/pytest.lock sh -c %s' % shlex.quote(cmd), shell=True, capture_output=True, text=True)
    t = ET.parse(f)
    passed = set()
    for tc in t.iter('testcase'):
        if not any(c.tag in ('failure', 'error', 'skipped') for c in tc):
            passed.add('%s::%s' % (tc.get('classname'), tc.get('name')))
missing = [s for s in b['stable_pass'] if s not in passed]
print('passed=%d stable=%d missing=%d' % (len(passed), len(b['stable_pass']), len(missing)))
for m in missing:
    print('  NOT PASSING:', m)
sys.exit(1 if missing else 0)
