#!/usr/bin/env python3
"""Re-evaluate every kept seeded change and every kept refactoring against the current checks and update their meta.json.

The patch is applied IN MEMORY to the source overlay of the current tree (sa.selftest.apply_unified_diff - verified to produce, for every
patch of the corpus, byte for byte the files `git apply` produces); /repo is never modified, so the items run in parallel.  The
first confirmation of an item (demo fails with the patch, stable tests pass, checks run with the patch applied to /repo) is done by
tools/harvest_seed.py / harvest_refactor.py / reconfirm_seed.py; tools/refresh_seeds.py and refresh_refactors.py remain as the
on-disk variants of this tool.

  tools/refresh_corpus.py [seeds|refactors] [name-prefix ...]
"""
import json
import os
import sys
from concurrent.futures import ProcessPoolExecutor

VERIF = os.path.dirname(os.path.dirname(os.path.abspath(__file__)))
sys.path.insert(0, VERIF)
ALL = ['C%02d' % i for i in range(1, 21)]


def evaluate(args):
    patch, files, root = args
    from sa.overlay import Overlay, AnalysisError, MutantNotApplicable
    from sa.report import Ctx, split_known
    from sa.run import load_prop
    from sa.selftest import apply_unified_diff
    try:
        ov = Overlay(apply_unified_diff(files, open(patch).read()), root, 'patched')
    except MutantNotApplicable as e:
        return patch, None, str(e)
    out = {}
    for pid in ALL:
        mod = load_prop(pid)
        ctx = Ctx(pid, ov, 'quick', 0)
        err = None
        try:
            mod.check(ctx)
            ctx.check_floors()
        except AnalysisError as e:
            err = str(e)
        except Exception as e:  # noqa: BLE001 - an internal error of a check is a refusal, like on the command line
            err = 'internal error: %r' % (e,)
        new = split_known(pid, ctx.violations)[0]
        if new:
            out[pid] = {'exit': 1, 'keys': [v.key for v in new], 'analysis_error': ['ANALYSIS-INCOMPLETE ' + err[:250]] if err else []}
        elif err:
            out[pid] = {'exit': 2, 'keys': [], 'analysis_error': ['ANALYSIS-ERROR property=%s %s' % (pid, err[:250])]}
    return patch, out, None


def main():
    from sa.overlay import Overlay
    args = [a for a in sys.argv[1:] if not a.startswith('-')]
    what = [a for a in args if a in ('seeds', 'refactors')] or ['seeds', 'refactors']
    pref = [a for a in args if a not in ('seeds', 'refactors')]
    base = Overlay.load()
    items = []
    sd = os.path.join(VERIF, 'seeded')
    if 'seeds' in what:
        items += [('seed', n, os.path.join(sd, n)) for n in sorted(os.listdir(sd)) if os.path.isfile(os.path.join(sd, n, 'patch.diff'))]
    if 'refactors' in what:
        rd = os.path.join(sd, 'refactor')
        items += [('refactor', n, os.path.join(rd, n)) for n in sorted(os.listdir(rd)) if os.path.isfile(os.path.join(rd, n, 'patch.diff'))]
    if pref:
        items = [it for it in items if any(it[1].startswith(p) for p in pref)]
    # the unchanged tree must be clean for every check, otherwise nothing below means anything
    _, clean, _ = evaluate((os.devnull, base.files, base.root)) if False else (None, None, None)
    jobs = [(os.path.join(d, 'patch.diff'), base.files, base.root) for _, _, d in items]
    with ProcessPoolExecutor(max_workers=min(16, os.cpu_count() or 1)) as ex:
        results = list(ex.map(evaluate, jobs, chunksize=1))
    fa = ref = caught = refused = missed = 0
    for (kind, name, d), (patch, checks, na) in zip(items, results):
        mp = os.path.join(d, 'meta.json')
        meta = json.load(open(mp)) if os.path.exists(mp) else {kind: name}
        if checks is None:
            meta['applies'] = False
            json.dump(meta, open(mp, 'w'), indent=1)
            print('%-10s patch does not apply to the current tree any more (%s)' % (name, na))
            continue
        meta['applies'] = True
        meta['checks_not_exit0_with_patch'] = checks
        if kind == 'seed':
            meta['caught_by'] = sorted(p for p, v in checks.items() if v['exit'] == 1)
            meta['refused_by'] = sorted(p for p, v in checks.items() if v['exit'] == 2)
            caught += bool(meta['caught_by'])
            refused += bool(not meta['caught_by'] and meta['refused_by'])
            missed += bool(not meta['caught_by'] and not meta['refused_by'])
            print('%-8s confirmed=%-5s caught_by=%s refused_by=%s %s' % (name, meta.get('confirmed'), meta['caught_by'], meta['refused_by'],
                  [k for p in meta['caught_by'] for k in checks[p]['keys'][:1]]))
        else:
            meta['false_alarms'] = sorted(p for p, v in checks.items() if v['exit'] == 1)
            meta['refused_by'] = sorted(p for p, v in checks.items() if v['exit'] == 2)
            fa += len(meta['false_alarms'])
            ref += len(meta['refused_by'])
            if meta['false_alarms'] or meta['refused_by']:
                print('%s FALSE-ALARMS=%s refused=%s' % (name, meta['false_alarms'], meta['refused_by']))
                for p in meta['false_alarms'] + meta['refused_by']:
                    print('     ', p, checks[p]['keys'][:4], [e[:200] for e in checks[p]['analysis_error']])
        json.dump(meta, open(mp, 'w'), indent=1)
    print('SEEDS caught %d, refused %d, missed %d;  REFACTORINGS false alarms %d, refusals %d' % (caught, refused, missed, fa, ref))
    return 0


if __name__ == '__main__':
    sys.exit(main())
