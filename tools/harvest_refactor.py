#!/usr/bin/env python3
"""Harvest behaviour-preserving refactorings produced by independent sub-agents and run every check on them.

  tools/harvest_refactor.py <PROP> <worktree> [--no-tests]

A VIOLATION on a confirmed behaviour-preserving refactoring is a FALSE ALARM of the machinery (to be fixed);
exit 2 (cannot tell) is tolerated but recorded.  Kept as /verif/seeded/refactor/<PROP>-<x>/.
"""
import json
import os
import re
import shutil
import subprocess
import sys

VERIF = os.path.dirname(os.path.dirname(os.path.abspath(__file__)))
ALL = ['C%02d' % i for i in range(1, 21)]


def sh(cmd, **kw):
    return subprocess.run(cmd, shell=True, capture_output=True, text=True, **kw)


def main():
    prop, wt = sys.argv[1], sys.argv[2]
    run_tests = '--no-tests' not in sys.argv
    base = os.path.join(wt, '_refactor')
    if not os.path.isdir(base):
        print(prop, 'no _refactor directory')
        return 1
    for x in sorted(os.listdir(base)):
        src = os.path.join(base, x)
        if not os.path.isfile(os.path.join(src, 'patch.diff')):
            continue
        name = '%s-%s' % (prop, x)
        dst = os.path.join(VERIF, 'seeded', 'refactor', name)
        os.makedirs(dst, exist_ok=True)
        for f in ('patch.diff', 'check.py', 'notes.md'):
            if os.path.exists(os.path.join(src, f)):
                shutil.copy(os.path.join(src, f), os.path.join(dst, f))
        # helper modules / expected-value files the agent shared between its refactorings
        for extra_dir in (src, base):
            for f in os.listdir(extra_dir):
                fp = os.path.join(extra_dir, f)
                if os.path.isfile(fp) and f not in ('patch.diff', 'check.py', 'notes.md') and os.path.getsize(fp) < 2_000_000 \
                        and f.rsplit('.', 1)[-1] in ('py', 'txt', 'json', 'npy', 'npz', 'csv'):
                    shutil.copy(fp, os.path.join(dst, f))
        patch, chk = os.path.join(dst, 'patch.diff'), os.path.join(dst, 'check.py')
        # the sub-agent's scripts may pin its own scratch worktree; here they run against /repo, helpers next to check.py
        w = wt.rstrip('/')
        for f in os.listdir(dst):
            if f.endswith('.py'):
                fp = os.path.join(dst, f)
                txt = open(fp).read()
                if w in txt:
                    txt = txt.replace('%s/_refactor/%s' % (w, x), dst).replace('%s/_refactor' % w, dst).replace(w, '/repo')
                    open(fp, 'w').write(txt)
        if sh('git -C /repo status --porcelain').stdout.strip():
            print('refusing: /repo not clean')
            return 2
        meta = {'refactoring': name, 'property': prop, 'kind': 'behaviour-preserving refactoring (independent sub-agent)'}
        if os.path.exists(chk):
            r = sh('cd /repo && PYTHONPATH=/repo:%s /venv/bin/python %s' % (dst, chk))
            meta['check_without_patch'] = {'exit': r.returncode, 'out': (r.stdout + r.stderr).strip()[-300:]}
        a = sh('git -C /repo apply --whitespace=nowarn %s' % patch)
        if a.returncode != 0:
            meta['applies'] = False
            json.dump(meta, open(os.path.join(dst, 'meta.json'), 'w'), indent=1)
            print(name, 'PATCH DOES NOT APPLY', a.stderr[-200:])
            continue
        meta['applies'] = True
        try:
            if os.path.exists(chk):
                r = sh('cd /repo && PYTHONPATH=/repo:%s /venv/bin/python %s' % (dst, chk))
                meta['check_with_patch'] = {'exit': r.returncode, 'out': (r.stdout + r.stderr).strip()[-300:]}
            if run_tests:
                r = sh('/venv/bin/python %s/tools/baseline_check.py' % VERIF)
                meta['baseline_with_patch'] = r.stdout.strip().splitlines()
            checks = {}
            for p in ALL:
                r = sh('./check %s --no-evidence' % p, cwd=VERIF)
                if r.returncode != 0:
                    keys = re.findall(r'^pyphysim/\S+ \[([^\]]+)\]', r.stdout, flags=re.M)
                    err = [l[:300] for l in r.stdout.splitlines() if l.startswith('ANALYSIS-')]
                    checks[p] = {'exit': r.returncode, 'keys': keys, 'analysis_error': err[:1]}
            meta['checks_not_exit0_with_patch'] = checks
        finally:
            sh('git -C /repo checkout -- .')
        same = meta.get('check_with_patch', {}).get('exit') == 0 and meta.get('check_without_patch', {}).get('exit') == 0 and \
            meta['check_with_patch']['out'] == meta['check_without_patch']['out']
        meta['behaviour_check_same'] = same
        meta['false_alarms'] = sorted(p for p, v in meta['checks_not_exit0_with_patch'].items() if v['exit'] == 1)
        meta['refused_by'] = sorted(p for p, v in meta['checks_not_exit0_with_patch'].items() if v['exit'] == 2)
        json.dump(meta, open(os.path.join(dst, 'meta.json'), 'w'), indent=1)
        print('%s same=%s FALSE-ALARMS=%s refused=%s tests=%s' % (name, same, meta['false_alarms'], meta['refused_by'],
                                                                 meta.get('baseline_with_patch', ['-'])[0]))
        for p in meta['false_alarms'] + meta['refused_by']:
            v = meta['checks_not_exit0_with_patch'][p]
            print('     ', p, v['keys'][:3], v['analysis_error'])
    return 0


if __name__ == '__main__':
    sys.exit(main())
