#!/usr/bin/env python3
"""Evaluate a seeded change against the checks.

  tools/eval_seed.py <patch.diff> [--props C05,C07 | --all] [--demo demo.py]

Applies the patch to /repo's working tree (git apply), runs the quick checks, optionally the
demonstration (with PYTHONPATH=/repo) and the baseline test-suite, and ALWAYS restores /repo afterwards
(git checkout -- .).  Prints one line per check: exit code and the VIOLATION keys.
"""
import argparse
import json
import os
import re
import subprocess
import sys

VERIF = os.path.dirname(os.path.dirname(os.path.abspath(__file__)))
ALL = ['C%02d' % i for i in range(1, 21) if i != 9]


def sh(cmd, **kw):
    return subprocess.run(cmd, shell=True, capture_output=True, text=True, **kw)


def main():
    ap = argparse.ArgumentParser()
    ap.add_argument('patch')
    ap.add_argument('--props', default='')
    ap.add_argument('--all', action='store_true')
    ap.add_argument('--demo', default=None)
    ap.add_argument('--tests', action='store_true')
    a = ap.parse_args()
    st = sh('git -C /repo status --porcelain').stdout.strip()
    if st:
        print('refusing: /repo working tree is not clean:\n' + st)
        return 2
    r = sh('git -C /repo apply --whitespace=nowarn %s' % os.path.abspath(a.patch))
    if r.returncode != 0:
        print('patch does not apply:', r.stderr)
        return 2
    out = {}
    try:
        props = ALL if a.all or not a.props else a.props.split(',')
        for p in props:
            r = sh('./check %s --no-evidence' % p, cwd=VERIF)
            keys = re.findall(r'\[([^\]]+)\]', '\n'.join(l for l in r.stdout.splitlines() if l.startswith('pyphysim/')))
            err = [l for l in r.stdout.splitlines() if l.startswith('ANALYSIS-ERROR')]
            out[p] = {'exit': r.returncode, 'keys': keys, 'error': err[:1]}
            if r.returncode != 0:
                print('%s exit=%d %s %s' % (p, r.returncode, keys, err[:1]))
        if a.demo:
            r = sh('cd /repo && PYTHONPATH=/repo /venv/bin/python %s' % os.path.abspath(a.demo))
            out['demo_with_patch'] = {'exit': r.returncode, 'tail': (r.stdout + r.stderr).strip().splitlines()[-1:]}
            print('demo with patch: exit=%d %s' % (r.returncode, out['demo_with_patch']['tail']))
        if a.tests:
            r = sh('/venv/bin/python %s/tools/baseline_check.py' % VERIF)
            out['tests_with_patch'] = r.stdout.strip().splitlines()
            print('tests with patch:', out['tests_with_patch'])
    finally:
        sh('git -C /repo checkout -- .')
    if a.demo:
        r = sh('cd /repo && PYTHONPATH=/repo /venv/bin/python %s' % os.path.abspath(a.demo))
        out['demo_without_patch'] = {'exit': r.returncode, 'tail': (r.stdout + r.stderr).strip().splitlines()[-1:]}
        print('demo without patch: exit=%d %s' % (r.returncode, out['demo_without_patch']['tail']))
    caught = [p for p, v in out.items() if isinstance(v, dict) and v.get('exit') == 1 and p.startswith('C')]
    print('CAUGHT-BY:', caught or 'none')
    print('JSON:', json.dumps(out))
    return 0


if __name__ == '__main__':
    sys.exit(main())
