#!/usr/bin/env python3
"""Re-run every claimed check against every kept seeded change (patch applied to /repo, always restored) and
update the check results in /verif/seeded/<id>/meta.json.  Also confirms the unpatched tree is clean for all checks."""
import json, os, re, subprocess, sys
VERIF = os.path.dirname(os.path.dirname(os.path.abspath(__file__)))
ALL = ['C%02d' % i for i in range(1, 21)]
def sh(cmd, **kw): return subprocess.run(cmd, shell=True, capture_output=True, text=True, **kw)
def main():
    only = sys.argv[1:]
    if sh('git -C /repo status --porcelain').stdout.strip():
        print('refusing: /repo not clean'); return 2
    root = os.path.join(VERIF, 'seeded')
    for name in sorted(os.listdir(root)):
        if only and name not in only: continue
        d = os.path.join(root, name)
        mp = os.path.join(d, 'meta.json')
        if not os.path.exists(mp): continue
        meta = json.load(open(mp))
        if sh('git -C /repo apply --whitespace=nowarn %s' % os.path.join(d, 'patch.diff')).returncode != 0:
            print(name, 'patch does not apply any more'); meta['applies'] = False
            json.dump(meta, open(mp, 'w'), indent=1); continue
        checks = {}
        try:
            from concurrent.futures import ThreadPoolExecutor
            with ThreadPoolExecutor(16) as ex:
                results = list(ex.map(lambda p: (p, sh('./check %s --no-evidence' % p, cwd=VERIF)), ALL))
            for p, r in results:
                if r.returncode != 0:
                    keys = re.findall(r'^pyphysim/\S+ \[([^\]]+)\]', r.stdout, flags=re.M)
                    err = [l[:200] for l in r.stdout.splitlines() if l.startswith('ANALYSIS-')]
                    checks[p] = {'exit': r.returncode, 'keys': keys, 'analysis_error': err[:1]}
        finally:
            sh('git -C /repo checkout -- .')
        meta['checks_not_exit0_with_patch'] = checks
        meta['caught_by'] = sorted(p for p, v in checks.items() if v['exit'] == 1)
        meta['refused_by'] = sorted(p for p, v in checks.items() if v['exit'] == 2)
        json.dump(meta, open(mp, 'w'), indent=1)
        print('%-8s confirmed=%-5s caught_by=%s refused_by=%s %s' % (name, meta.get('confirmed'), meta['caught_by'], meta['refused_by'],
              [k for p in meta['caught_by'] for k in checks[p]['keys'][:1]]))
    return 0
if __name__ == '__main__': sys.exit(main())
