#!/usr/bin/env python3
"""Freeze the reference API: the qualified names of all functions of /repo's pyphysim package at the commit on which the
rule instances were confirmed.  Functions absent from this list are post-reference helpers (sa/inline.py)."""
import json
import os
import subprocess
import sys

VERIF = os.path.dirname(os.path.dirname(os.path.abspath(__file__)))
sys.path.insert(0, VERIF)
from sa.model import Model          # noqa: E402
from sa.overlay import Overlay      # noqa: E402

ROOT = os.environ.get('VERIF_REPO', '/repo')
ov = Overlay.load(ROOT)
m = Model(ov, flatten=False)
out = {}
for f in m.all_functions():
    if f.kind == 'nested':
        continue
    out.setdefault(f.path, []).append(f.qualname)
from sa.inline import attr_signatures   # noqa: E402
attrs = {c.qualname: {a: sorted(sig) for a, sig in attr_signatures(m, c).items()} for c in m.classes.values()}
commit = subprocess.run('git -C %s rev-parse HEAD' % ROOT, shell=True, capture_output=True, text=True).stdout.strip()
dirty = subprocess.run('git -C %s status --porcelain' % ROOT, shell=True, capture_output=True, text=True).stdout.strip()
if dirty:
    sys.exit('refusing: /repo is not clean')
import ast      # noqa: E402


def bound_names(body):
    out_ = set()
    for st in body:
        if isinstance(st, (ast.Assign, ast.AnnAssign, ast.AugAssign)):
            for t in (st.targets if isinstance(st, ast.Assign) else [st.target]):
                for x in ast.walk(t):
                    if isinstance(x, ast.Name):
                        out_.add(x.id)
    return sorted(out_)


module_names = {mod.path: bound_names(mod.tree.body) for mod in m.modules.values()}
class_names = {c.qualname: bound_names(c.node.body) for c in m.classes.values()}
json.dump({'commit': commit, 'functions': {k: sorted(set(v)) for k, v in sorted(out.items())}, 'attrs': attrs,
           'module_names': module_names, 'class_names': class_names, 'tree_digest': ov.digest(),
           'local_shapes': {'%s::%s' % (f.path, f.qualname): list(__import__('sa.inline', fromlist=['local_shape']).local_shape(f.node))
                            for f in m.all_functions() if f.kind != 'nested'}},
          open(os.path.join(VERIF, 'reference_api.json'), 'w'), indent=0)
print('reference', commit, sum(len(v) for v in out.values()), 'functions')
