#!/usr/bin/env python3
"""Freeze the reference API: the qualified names of all functions of /repo's pyphysim package at the commit on which the
rule instances were confirmed.  Functions absent from this list are post-reference helpers (sa/inline.py)."""
import json
import os
import subprocess
import sys

VERIF = os.path.dirname(os.path.dirname(os.path.abspath(__file__)))
sys.path.insert(0, VERIF)
from sa.model import Model          # noqa: E402
from sa.overlay import Overlay      # noqa: E402

ov = Overlay.load('/repo')
m = Model(ov, flatten=False)
out = {}
for f in m.all_functions():
    if f.kind == 'nested':
        continue
    out.setdefault(f.path, []).append(f.qualname)
from sa.inline import attr_signatures   # noqa: E402
attrs = {c.qualname: {a: sorted(sig) for a, sig in attr_signatures(m, c).items()} for c in m.classes.values()}
commit = subprocess.run('git -C /repo rev-parse HEAD', shell=True, capture_output=True, text=True).stdout.strip()
dirty = subprocess.run('git -C /repo status --porcelain', shell=True, capture_output=True, text=True).stdout.strip()
if dirty:
    sys.exit('refusing: /repo is not clean')
json.dump({'commit': commit, 'functions': {k: sorted(set(v)) for k, v in sorted(out.items())}, 'attrs': attrs},
          open(os.path.join(VERIF, 'reference_api.json'), 'w'), indent=0)
print('reference', commit, sum(len(v) for v in out.values()), 'functions')
