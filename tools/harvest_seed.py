#!/usr/bin/env python3
"""Harvest the seeded changes an independent sub-agent left in its scratch worktree.

  tools/harvest_seed.py <PROP> <worktree> [--no-tests]

For each <worktree>/_seed/<x>/ {patch.diff, demo.py, notes.md}: confirm the claims ourselves against /repo
(patch applies; demo fails with it and passes without; baseline suite still passes), run every check, and keep
the change as /verif/seeded/<PROP>-<x>/ {patch.diff, demo.py, notes.md, meta.json}.  /repo is always restored.
"""
import json
import os
import re
import shutil
import subprocess
import sys

VERIF = os.path.dirname(os.path.dirname(os.path.abspath(__file__)))
ALL = ['C%02d' % i for i in range(1, 21)]


def sh(cmd, **kw):
    return subprocess.run(cmd, shell=True, capture_output=True, text=True, **kw)


def main():
    prop, wt = sys.argv[1], sys.argv[2]
    run_tests = '--no-tests' not in sys.argv
    seeds = sorted(d for d in os.listdir(os.path.join(wt, '_seed')) if os.path.isfile(os.path.join(wt, '_seed', d, 'patch.diff')))
    for x in seeds:
        src = os.path.join(wt, '_seed', x)
        name = '%s-%s' % (prop, x)
        dst = os.path.join(VERIF, 'seeded', name)
        os.makedirs(dst, exist_ok=True)
        for f in ('patch.diff', 'demo.py', 'notes.md'):
            if os.path.exists(os.path.join(src, f)):
                shutil.copy(os.path.join(src, f), os.path.join(dst, f))
        patch, demo = os.path.join(dst, 'patch.diff'), os.path.join(dst, 'demo.py')
        if sh('git -C /repo status --porcelain').stdout.strip():
            print('refusing: /repo not clean')
            return 2
        meta = {'seed': name, 'property': prop, 'origin': 'independent sub-agent given only the property text and a scratch worktree',
                'ran': []}
        r = sh('cd /repo && PYTHONPATH=/repo /venv/bin/python %s' % demo)
        meta['demo_without_patch'] = {'exit': r.returncode, 'last_line': (r.stdout + r.stderr).strip().splitlines()[-1:]}
        meta['ran'].append('cd /repo && PYTHONPATH=/repo /venv/bin/python demo.py   (clean tree)')
        a = sh('git -C /repo apply --whitespace=nowarn %s' % patch)
        if a.returncode != 0:
            meta['applies'] = False
            meta['apply_error'] = a.stderr[-300:]
            json.dump(meta, open(os.path.join(dst, 'meta.json'), 'w'), indent=1)
            print(name, 'PATCH DOES NOT APPLY', a.stderr[-200:])
            continue
        meta['applies'] = True
        try:
            r = sh('cd /repo && PYTHONPATH=/repo /venv/bin/python %s' % demo)
            meta['demo_with_patch'] = {'exit': r.returncode, 'last_line': (r.stdout + r.stderr).strip().splitlines()[-1:]}
            meta['ran'].append('git -C /repo apply patch.diff; PYTHONPATH=/repo /venv/bin/python demo.py')
            if run_tests:
                r = sh('/venv/bin/python %s/tools/baseline_check.py' % VERIF)
                meta['baseline_with_patch'] = r.stdout.strip().splitlines()
                meta['ran'].append('tools/baseline_check.py (stable-pass tests of BASELINE.json with the patch applied)')
            checks = {}
            from concurrent.futures import ThreadPoolExecutor
            with ThreadPoolExecutor(16) as ex:
                results = list(ex.map(lambda p: (p, sh('./check %s --no-evidence' % p, cwd=VERIF)), ALL))
            for p, r in results:
                keys = re.findall(r'^pyphysim/\S+ \[([^\]]+)\]', r.stdout, flags=re.M)
                err = [l[:200] for l in r.stdout.splitlines() if l.startswith('ANALYSIS-ERROR')]
                if r.returncode != 0:
                    checks[p] = {'exit': r.returncode, 'keys': keys, 'analysis_error': err[:1]}
            meta['checks_not_exit0_with_patch'] = checks
            meta['ran'].append('./check <every claimed property> --no-evidence   (patch applied)')
        finally:
            sh('git -C /repo checkout -- .')
        meta['caught_by'] = sorted(p for p, v in meta.get('checks_not_exit0_with_patch', {}).items() if v['exit'] == 1)
        meta['refused_by'] = sorted(p for p, v in meta.get('checks_not_exit0_with_patch', {}).items() if v['exit'] == 2)
        meta['confirmed'] = bool(meta['demo_without_patch']['exit'] == 0 and meta.get('demo_with_patch', {}).get('exit') not in (0, None)
                                 and (not run_tests or any('missing=0' in l for l in meta.get('baseline_with_patch', []))))
        notes = os.path.join(dst, 'notes.md')
        meta['needs_to_manifest'] = open(notes).read()[:1500] if os.path.exists(notes) else ''
        json.dump(meta, open(os.path.join(dst, 'meta.json'), 'w'), indent=1)
        print('%s confirmed=%s caught_by=%s refused_by=%s  demo: %s -> %s  tests: %s' % (
            name, meta['confirmed'], meta['caught_by'], meta['refused_by'], meta['demo_without_patch']['exit'],
            meta.get('demo_with_patch', {}).get('exit'), meta.get('baseline_with_patch', ['-'])[0]))
        for p in meta['caught_by']:
            print('    ', p, meta['checks_not_exit0_with_patch'][p]['keys'][:3])
    return 0


if __name__ == '__main__':
    sys.exit(main())
