#!/usr/bin/env python3
"""Regenerate the seeded-change table of DESIGN.md section 10.5 from /verif/seeded/*/meta.json."""
import json, os, re, sys
VERIF = os.path.dirname(os.path.dirname(os.path.abspath(__file__)))
rows = []
root = os.path.join(VERIF, 'seeded')
for name in sorted(os.listdir(root)):
    mp = os.path.join(root, name, 'meta.json')
    if not os.path.exists(mp):
        continue
    m = json.load(open(mp))
    notes = m.get('needs_to_manifest', '')
    first = ''
    for l in notes.splitlines():
        l = l.strip(' #*-')
        if len(l) > 25:
            first = l
            break
    keys = []
    for p in m.get('caught_by', []):
        keys += m['checks_not_exit0_with_patch'][p]['keys'][:1]
    verdict = ', '.join('`%s`' % k for k in keys) if keys else ('refused (exit 2) by ' + ','.join(m.get('refused_by', [])) if m.get('refused_by') else '**not caught** - see below')
    rows.append('| %s | %s | %s | %s |' % (name, 'yes' if m.get('confirmed') else 'NO', first[:150].replace('|', '/'), verdict))
table = ('| seed | confirmed (demo fails with / passes without the patch; stable-pass tests still pass) | what the change is | reported by (first key per check) |\n'
         '|---|---|---|---|\n' + '\n'.join(rows))
n = len(rows)
caught = sum(1 for r in rows if '`' in r.split('|')[4])
table += '\n\n%d of %d confirmed seeded changes are reported as violations by at least one check.\n' % (caught, n)
p = os.path.join(VERIF, 'DESIGN.md')
s = open(p).read()
start = s.index('<!-- SEED_TABLE_START -->') if '<!-- SEED_TABLE_START -->' in s else None
if start is None:
    s = s.replace('SEED_TABLE_PLACEHOLDER', '<!-- SEED_TABLE_START -->\n' + table + '\n<!-- SEED_TABLE_END -->')
else:
    end = s.index('<!-- SEED_TABLE_END -->')
    s = s[:start] + '<!-- SEED_TABLE_START -->\n' + table + '\n' + s[end:]
open(p, 'w').write(s)
print(table)

# ---- behaviour-preserving refactorings ------------------------------------------------------------------------------
rroot = os.path.join(VERIF, 'seeded', 'refactor')
rrows = []
for name in sorted(os.listdir(rroot)):
    mp = os.path.join(rroot, name, 'meta.json')
    if not os.path.exists(mp):
        continue
    m = json.load(open(mp))
    what = ''
    np_ = os.path.join(rroot, name, 'notes.md')
    if os.path.exists(np_):
        for l in open(np_).read().splitlines():
            l = l.strip(' #*-`')
            if len(l) > 25:
                what = l
                break
    fa, rf = m.get('false_alarms', []), m.get('refused_by', [])
    verdict = 'silent (all 20 checks exit 0)' if not fa and not rf else \
        ('**FALSE ALARM** ' + ','.join(fa) if fa else 'cannot tell (exit 2): ' + ','.join(rf))
    rrows.append('| %s | %s | %s | %s |' % (name, 'yes' if m.get('behaviour_check_same') else '?', what[:140].replace('|', '/'), verdict))
rtable = ('| refactoring | agent\'s differential script prints the same on both trees | what it does | all 20 checks on the patched tree |\n'
          '|---|---|---|---|\n' + '\n'.join(rrows))
rtable += '\n\n%d refactorings: %d silent, %d refused (exit 2), %d false alarms.\n' % (
    len(rrows), sum('silent' in r for r in rrows), sum('cannot tell' in r for r in rrows), sum('FALSE ALARM' in r for r in rrows))
s = open(p).read()
if '<!-- REFACTOR_TABLE_START -->' in s:
    a, b = s.index('<!-- REFACTOR_TABLE_START -->'), s.index('<!-- REFACTOR_TABLE_END -->')
    s = s[:a] + '<!-- REFACTOR_TABLE_START -->\n' + rtable + '\n' + s[b:]
    open(p, 'w').write(s)
print(rtable)
