#!/usr/bin/env python3
"""Regenerate the seeded-change table of DESIGN.md section 10.5 from /verif/seeded/*/meta.json."""
import json, os, re, sys
VERIF = os.path.dirname(os.path.dirname(os.path.abspath(__file__)))
rows = []
root = os.path.join(VERIF, 'seeded')
for name in sorted(os.listdir(root)):
    mp = os.path.join(root, name, 'meta.json')
    if not os.path.exists(mp):
        continue
    m = json.load(open(mp))
    notes = m.get('needs_to_manifest', '')
    first = ''
    for l in notes.splitlines():
        l = l.strip(' #*-')
        if len(l) > 25:
            first = l
            break
    keys = []
    for p in m.get('caught_by', []):
        keys += m['checks_not_exit0_with_patch'][p]['keys'][:1]
    verdict = ', '.join('`%s`' % k for k in keys) if keys else ('refused (exit 2) by ' + ','.join(m.get('refused_by', [])) if m.get('refused_by') else '**not caught** - see below')
    rows.append('| %s | %s | %s | %s |' % (name, 'yes' if m.get('confirmed') else 'NO', first[:150].replace('|', '/'), verdict))
table = ('| seed | confirmed (demo fails with / passes without the patch; stable-pass tests still pass) | what the change is | reported by (first key per check) |\n'
         '|---|---|---|---|\n' + '\n'.join(rows))
n = len(rows)
caught = sum(1 for r in rows if '`' in r.split('|')[4])
table += '\n\n%d of %d confirmed seeded changes are reported as violations by at least one check.\n' % (caught, n)
p = os.path.join(VERIF, 'DESIGN.md')
s = open(p).read()
start = s.index('<!-- SEED_TABLE_START -->') if '<!-- SEED_TABLE_START -->' in s else None
if start is None:
    s = s.replace('SEED_TABLE_PLACEHOLDER', '<!-- SEED_TABLE_START -->\n' + table + '\n<!-- SEED_TABLE_END -->')
else:
    end = s.index('<!-- SEED_TABLE_END -->')
    s = s[:start] + '<!-- SEED_TABLE_START -->\n' + table + '\n' + s[end:]
open(p, 'w').write(s)
print(table)
