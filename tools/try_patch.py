#!/usr/bin/env python3
"""Apply one kept patch to /repo, run the named checks (default: all), restore /repo.

  tools/try_patch.py seeded/refactor/C16-r1 [C16 C01 ...] [-v]
"""
import os
import subprocess
import sys

VERIF = os.path.dirname(os.path.dirname(os.path.abspath(__file__)))


def sh(cmd, **kw):
    return subprocess.run(cmd, shell=True, capture_output=True, text=True, **kw)


def main():
    args = [a for a in sys.argv[1:] if not a.startswith('-')]
    verbose = '-v' in sys.argv
    d = args[0]
    patch = os.path.join(VERIF, d, 'patch.diff') if not os.path.isabs(d) else os.path.join(d, 'patch.diff')
    props = args[1:] or ['C%02d' % i for i in range(1, 21)]
    if sh('git -C /repo status --porcelain').stdout.strip():
        print('refusing: /repo not clean')
        return 2
    a = sh('git -C /repo apply --whitespace=nowarn %s' % patch)
    if a.returncode:
        print('patch does not apply', a.stderr)
        return 2
    try:
        for p in props:
            r = sh('./check %s --no-evidence' % p, cwd=VERIF)
            lines = [l for l in r.stdout.splitlines() if l.startswith(('VIOLATION', 'ANALYSIS-', 'pyphysim/', 'KNOWN'))]
            print(p, 'exit', r.returncode)
            if r.returncode or verbose:
                for l in lines[:12]:
                    print('   ', l[:400])
    finally:
        sh('git -C /repo checkout -- .')
    return 0


if __name__ == '__main__':
    sys.exit(main())
