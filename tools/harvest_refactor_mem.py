#!/usr/bin/env python3
"""Harvest behaviour-preserving refactorings from a sub-agent's scratch worktree WITHOUT touching /repo.

  tools/harvest_refactor_mem.py <PROP> <worktree>

The behaviour check (check.py prints the same with and without the patch) is repeated in the scratch worktree itself (patch applied
with git apply there, reverted afterwards); the 20 checks are evaluated on the patch applied IN MEMORY to the current tree
(tools/refresh_corpus.evaluate).  Several properties can be harvested in parallel.  Kept as /verif/seeded/refactor/<PROP>-<x>/ with the
same meta.json fields as tools/harvest_refactor.py (the scripts are rewritten to run against /repo afterwards, like there)."""
import json
import os
import shutil
import subprocess
import sys

VERIF = os.path.dirname(os.path.dirname(os.path.abspath(__file__)))
sys.path.insert(0, VERIF)
sys.path.insert(0, os.path.join(VERIF, 'tools'))


def sh(cmd, **kw):
    return subprocess.run(cmd, shell=True, capture_output=True, text=True, **kw)


def main():
    import refresh_corpus as rc
    from sa.overlay import Overlay
    prop, wt = sys.argv[1], sys.argv[2].rstrip('/')
    base = os.path.join(wt, '_refactor')
    if not os.path.isdir(base):
        print(prop, 'no _refactor directory')
        return 1
    if sh('git -C %s status --porcelain -- pyphysim' % wt).stdout.strip():
        sh('git -C %s checkout -- pyphysim' % wt)
    tree = Overlay.load()
    for x in sorted(os.listdir(base)):
        src = os.path.join(base, x)
        patch_src = os.path.join(src, 'patch.diff')
        if not os.path.isfile(patch_src):
            continue
        name = '%s-%s' % (prop, x)
        meta = {'refactoring': name, 'property': prop, 'kind': 'behaviour-preserving refactoring (independent sub-agent)',
                'confirmed_in': 'the sub-agent\'s scratch worktree (git apply / checkout there); checks on the patch applied in memory'}
        chk = os.path.join(src, 'check.py')
        if os.path.exists(chk):
            r = sh('cd %s && PYTHONPATH=%s:%s timeout 900 /venv/bin/python %s' % (wt, wt, src, chk))
            meta['check_without_patch'] = {'exit': r.returncode, 'out': (r.stdout + r.stderr).strip()[-300:]}
        a = sh('git -C %s apply --whitespace=nowarn %s' % (wt, patch_src))
        if a.returncode != 0:
            meta['applies'] = False
            print(name, 'PATCH DOES NOT APPLY', a.stderr[-200:])
            continue
        meta['applies'] = True
        try:
            if os.path.exists(chk):
                r = sh('cd %s && PYTHONPATH=%s:%s timeout 900 /venv/bin/python %s' % (wt, wt, src, chk))
                meta['check_with_patch'] = {'exit': r.returncode, 'out': (r.stdout + r.stderr).strip()[-300:]}
        finally:
            sh('git -C %s checkout -- pyphysim' % wt)
        _, checks, na = rc.evaluate((patch_src, tree.files, tree.root))
        if checks is None:
            meta['applies'] = False
            print(name, 'patch does not apply to the current tree in memory', na)
            continue
        meta['checks_not_exit0_with_patch'] = checks
        same = meta.get('check_with_patch', {}).get('exit') == 0 and meta.get('check_without_patch', {}).get('exit') == 0 and \
            meta['check_with_patch']['out'] == meta['check_without_patch']['out']
        meta['behaviour_check_same'] = same
        meta['false_alarms'] = sorted(p for p, v in checks.items() if v['exit'] == 1)
        meta['refused_by'] = sorted(p for p, v in checks.items() if v['exit'] == 2)
        dst = os.path.join(VERIF, 'seeded', 'refactor', name)
        os.makedirs(dst, exist_ok=True)
        for f in ('patch.diff', 'check.py', 'notes.md'):
            if os.path.exists(os.path.join(src, f)):
                shutil.copy(os.path.join(src, f), os.path.join(dst, f))
        for extra_dir in (src, base):
            for f in os.listdir(extra_dir):
                fp = os.path.join(extra_dir, f)
                if os.path.isfile(fp) and f not in ('patch.diff', 'check.py', 'notes.md') and os.path.getsize(fp) < 2_000_000 \
                        and f.rsplit('.', 1)[-1] in ('py', 'txt', 'json', 'npy', 'npz', 'csv'):
                    shutil.copy(fp, os.path.join(dst, f))
        for f in os.listdir(dst):
            if f.endswith('.py'):
                fp = os.path.join(dst, f)
                txt = open(fp).read()
                if wt in txt:
                    txt = txt.replace('%s/_refactor/%s' % (wt, x), dst).replace('%s/_refactor' % wt, dst).replace(wt, '/repo')
                    open(fp, 'w').write(txt)
        json.dump(meta, open(os.path.join(dst, 'meta.json'), 'w'), indent=1)
        print('%s same=%s FALSE-ALARMS=%s refused=%s' % (name, same, meta['false_alarms'], meta['refused_by']))
        for p in meta['false_alarms'] + meta['refused_by']:
            v = checks[p]
            print('     ', p, v['keys'][:3], [e[:250] for e in v['analysis_error']])
    return 0


if __name__ == '__main__':
    sys.exit(main())
