#!/usr/bin/env python3
"""Systematic robustness sweep: whole-package behaviour-preserving source transformations, applied IN MEMORY, must leave every check silent.

  tools/benign_sweep.py [transformation ...]

Transformations (each applied to every function of every module of pyphysim at once):
  rename-locals   every local variable (not a parameter, not a global / nonlocal name, not used by a nested function) gets the suffix `_v`
  swap-commute    operands of `+` and `*` between two non-string, non-list expressions are swapped when both are names / attributes /
                  numeric constants (float commutativity holds for one binary operation)
  aug-to-plain    `x += y` on a plain name -> `x = x + y` is NOT value-preserving for arrays that are aliased, so only for names bound
                  to a numeric constant counter pattern (`i += 1`)
  flip-if-else    `if c: A else: B` -> `if not c: B else: A` (only when both branches are non-empty and there is no elif chain)
  unparse         every module re-printed by ast.unparse (formatting, comments, parentheses)
Prints, per transformation, the checks that are not exit 0 with their keys / errors."""
import ast
import copy
import os
import sys
from concurrent.futures import ProcessPoolExecutor

VERIF = os.path.dirname(os.path.dirname(os.path.abspath(__file__)))
sys.path.insert(0, VERIF)
ALL = ['C%02d' % i for i in range(1, 21)]


def _functions(tree):
    for n in ast.walk(tree):
        if isinstance(n, (ast.FunctionDef, ast.AsyncFunctionDef)):
            yield n


def rename_locals(tree):
    for f in list(_functions(tree)):
        params = {a.arg for a in f.args.posonlyargs + f.args.args + f.args.kwonlyargs}
        if f.args.vararg:
            params.add(f.args.vararg.arg)
        if f.args.kwarg:
            params.add(f.args.kwarg.arg)
        nested = [n for n in ast.walk(f) if isinstance(n, (ast.FunctionDef, ast.AsyncFunctionDef, ast.Lambda, ast.ClassDef)) and n is not f]
        if nested:
            continue                      # closures: leave alone
        decl = {nm for n in ast.walk(f) if isinstance(n, (ast.Global, ast.Nonlocal)) for nm in n.names}
        stored = {n.id for n in ast.walk(f) if isinstance(n, ast.Name) and isinstance(n.ctx, (ast.Store, ast.Del))}
        imported = {(a.asname or a.name).split('.')[0] for n in ast.walk(f) if isinstance(n, (ast.Import, ast.ImportFrom)) for a in n.names}
        comp = {x.id for n in ast.walk(f) if isinstance(n, ast.comprehension) for x in ast.walk(n.target) if isinstance(x, ast.Name)}
        ren = {v for v in stored if v not in params and v not in decl and v not in imported and v not in comp and not v.startswith('__')}
        for n in ast.walk(f):
            if isinstance(n, ast.Name) and n.id in ren:
                n.id = n.id + '_v'
            elif isinstance(n, ast.ExceptHandler) and n.name in ren:
                n.name = n.name + '_v'
    return tree


def swap_commute(tree):
    class R(ast.NodeTransformer):
        def visit_BinOp(self, n):
            self.generic_visit(n)
            simple = lambda e: isinstance(e, (ast.Name, ast.Attribute)) or (isinstance(e, ast.Constant) and isinstance(e.value, (int, float)) and not isinstance(e.value, bool))
            if isinstance(n.op, (ast.Add, ast.Mult)) and simple(n.left) and simple(n.right):
                n.left, n.right = n.right, n.left
            return n
    return R().visit(tree)


def flip_if_else(tree):
    class R(ast.NodeTransformer):
        def visit_If(self, n):
            self.generic_visit(n)
            if n.orelse and not (len(n.orelse) == 1 and isinstance(n.orelse[0], ast.If)):
                t = n.test
                neg = t.operand if isinstance(t, ast.UnaryOp) and isinstance(t.op, ast.Not) else ast.UnaryOp(op=ast.Not(), operand=t)
                n.test, n.body, n.orelse = neg, n.orelse, n.body
            return n
    return R().visit(tree)


def dot_to_matmul(tree):
    class R(ast.NodeTransformer):
        def visit_Call(self, n):
            self.generic_visit(n)
            f = n.func
            if isinstance(f, ast.Attribute) and f.attr == 'dot' and not n.keywords:
                if isinstance(f.value, ast.Name) and f.value.id in ('np', 'numpy') and len(n.args) == 2:
                    return ast.copy_location(ast.BinOp(left=n.args[0], op=ast.MatMult(), right=n.args[1]), n)
                if len(n.args) == 1 and not (isinstance(f.value, ast.Name) and f.value.id in ('np', 'numpy')):
                    return ast.copy_location(ast.BinOp(left=f.value, op=ast.MatMult(), right=n.args[0]), n)
            return n
    return R().visit(tree)


def compare_swap(tree):
    SW = {ast.Lt: ast.Gt, ast.Gt: ast.Lt, ast.LtE: ast.GtE, ast.GtE: ast.LtE, ast.Eq: ast.Eq, ast.NotEq: ast.NotEq}

    class R(ast.NodeTransformer):
        def visit_Compare(self, n):
            self.generic_visit(n)
            if len(n.ops) == 1 and type(n.ops[0]) in SW:
                return ast.copy_location(ast.Compare(left=n.comparators[0], ops=[SW[type(n.ops[0])]()], comparators=[n.left]), n)
            return n
    return R().visit(tree)


def return_temp(tree):
    """`return <expression>` -> `result_tmp = <expression>; return result_tmp` (not for bare names / constants / tuples of names)"""
    class R(ast.NodeTransformer):
        def _block(self, body):
            out = []
            for st in body:
                if isinstance(st, ast.Return) and st.value is not None and not isinstance(st.value, (ast.Name, ast.Constant)) \
                        and not (isinstance(st.value, ast.Tuple) and all(isinstance(e, (ast.Name, ast.Constant)) for e in st.value.elts)):
                    out.append(ast.copy_location(ast.Assign(targets=[ast.Name(id='result_tmp', ctx=ast.Store())], value=st.value), st))
                    out.append(ast.copy_location(ast.Return(value=ast.Name(id='result_tmp', ctx=ast.Load())), st))
                else:
                    out.append(st)
            return out

        def generic_visit(self, n):
            super().generic_visit(n)
            if isinstance(n, ast.Lambda):
                return n
            for fld in ('body', 'orelse', 'finalbody'):
                b = getattr(n, fld, None)
                if isinstance(b, list) and b and isinstance(b[0], ast.stmt):
                    setattr(n, fld, self._block(b))
            if isinstance(n, ast.Try):
                for h in n.handlers:
                    h.body = self._block(h.body)
            return n
    for f in list(_functions(tree)):
        if any(isinstance(x, ast.Name) and x.id == 'result_tmp' for x in ast.walk(f)):
            continue
        if any(isinstance(x, (ast.Yield, ast.YieldFrom)) for x in ast.walk(f)):
            continue
        R().generic_visit(f)
    return tree


def else_after_return(tree):
    """`if c: ...; return A` followed by the rest of the block -> the rest moved into an `else:` (when the if has no else yet)"""
    class R(ast.NodeTransformer):
        def _block(self, body):
            for i, st in enumerate(body):
                if isinstance(st, ast.If) and not st.orelse and st.body and isinstance(st.body[-1], (ast.Return, ast.Raise)) and i + 1 < len(body):
                    st.orelse = self._block(body[i + 1:])
                    return body[:i + 1]
            return body

        def generic_visit(self, n):
            super().generic_visit(n)
            if isinstance(n, (ast.FunctionDef, ast.AsyncFunctionDef)):
                n.body = self._block(n.body)
            return n
    return R().visit(tree)


def extract_call_args(tree):
    """`T = f(g(x), ..)` / `f(g(x))` / `return f(g(x))` as a simple statement -> `arg_tmpN = g(x)` in front, `f(arg_tmpN)`: only the FIRST
    positional argument of the outermost call, and only when it is itself a call (evaluation order is unchanged: it was evaluated first)."""
    class R(ast.NodeTransformer):
        def __init__(self):
            self.k = 0

        def _block(self, body):
            out = []
            for st in body:
                v = st.value if isinstance(st, (ast.Assign, ast.Expr, ast.Return)) else None
                if isinstance(v, ast.Call) and v.args and isinstance(v.args[0], ast.Call) and not isinstance(v.func, ast.Lambda) \
                        and isinstance(v.func, (ast.Name, ast.Attribute)) \
                        and not any(isinstance(x, ast.Call) for x in ast.walk(v.func)) \
                        and not any(isinstance(x, (ast.Yield, ast.YieldFrom, ast.Await, ast.NamedExpr, ast.Starred)) for x in ast.walk(v)):
                    nm = 'arg_tmp%d' % self.k
                    self.k += 1
                    out.append(ast.copy_location(ast.Assign(targets=[ast.Name(id=nm, ctx=ast.Store())], value=v.args[0]), st))
                    v.args[0] = ast.Name(id=nm, ctx=ast.Load())
                out.append(st)
            return out

        def generic_visit(self, n):
            super().generic_visit(n)
            for fld in ('body', 'orelse', 'finalbody'):
                b = getattr(n, fld, None)
                if isinstance(b, list) and b and isinstance(b[0], ast.stmt):
                    setattr(n, fld, self._block(b))
            if isinstance(n, ast.Try):
                for h in n.handlers:
                    h.body = self._block(h.body)
            return n
    for f in list(_functions(tree)):
        if any(isinstance(x, (ast.FunctionDef, ast.AsyncFunctionDef, ast.Lambda)) and x is not f for x in ast.walk(f)):
            continue
        R().generic_visit(f)
    return tree


def split_tuple_assign(tree):
    """`a, b = x, y` (plain names on the left, no name of the left used on the right) -> `a = x; b = y`"""
    class R(ast.NodeTransformer):
        def _block(self, body):
            out = []
            for st in body:
                if isinstance(st, ast.Assign) and len(st.targets) == 1 and isinstance(st.targets[0], ast.Tuple) and isinstance(st.value, ast.Tuple) \
                        and len(st.targets[0].elts) == len(st.value.elts) and all(isinstance(t, ast.Name) for t in st.targets[0].elts):
                    names = {t.id for t in st.targets[0].elts}
                    if not any(isinstance(x, ast.Name) and x.id in names for v in st.value.elts for x in ast.walk(v)) \
                            and not any(isinstance(x, ast.Call) for v in st.value.elts for x in ast.walk(v)):
                        for t, v in zip(st.targets[0].elts, st.value.elts):
                            out.append(ast.copy_location(ast.Assign(targets=[t], value=v), st))
                        continue
                out.append(st)
            return out

        def generic_visit(self, n):
            super().generic_visit(n)
            for fld in ('body', 'orelse', 'finalbody'):
                b = getattr(n, fld, None)
                if isinstance(b, list) and b and isinstance(b[0], ast.stmt):
                    setattr(n, fld, self._block(b))
            return n
    return R().visit(tree)


def sqrt_swap(tree):
    """math.sqrt(x) -> np.sqrt(x) (both are the correctly rounded square root; np.sqrt of a Python float returns np.float64 - the same value)"""
    class R(ast.NodeTransformer):
        def visit_Call(self, n):
            self.generic_visit(n)
            if isinstance(n.func, ast.Attribute) and n.func.attr == 'sqrt' and isinstance(n.func.value, ast.Name) and n.func.value.id == 'math':
                n.func.value = ast.Name(id='np', ctx=ast.Load())
            return n
    return R().visit(tree)


def range_zero(tree):
    """range(0, n) <-> range(n), np.arange(0, n) <-> np.arange(n)"""
    class R(ast.NodeTransformer):
        def visit_Call(self, n):
            self.generic_visit(n)
            f = ast.unparse(n.func)
            if f in ('range', 'np.arange') and not n.keywords and not any(isinstance(a, ast.Starred) for a in n.args):
                if len(n.args) == 2 and isinstance(n.args[0], ast.Constant) and n.args[0].value == 0:
                    n.args = n.args[1:]
                elif len(n.args) == 1:
                    n.args = [ast.Constant(value=0)] + n.args
            return n
    return R().visit(tree)


def conj_T(tree):
    """X.conj().T / X.conjugate().T <-> X.T.conj()"""
    class R(ast.NodeTransformer):
        def visit_Attribute(self, n):
            self.generic_visit(n)
            if n.attr == 'T' and isinstance(n.value, ast.Call) and isinstance(n.value.func, ast.Attribute) \
                    and n.value.func.attr in ('conj', 'conjugate') and not n.value.args and isinstance(n.ctx, ast.Load):
                x = n.value.func.value
                return ast.copy_location(ast.Call(func=ast.Attribute(value=ast.Attribute(value=x, attr='T', ctx=ast.Load()), attr='conj', ctx=ast.Load()),
                                                  args=[], keywords=[]), n)
            return n
    return R().visit(tree)


def strip_docstrings(tree):
    for n in ast.walk(tree):
        if isinstance(n, (ast.FunctionDef, ast.AsyncFunctionDef, ast.ClassDef, ast.Module)) and n.body and isinstance(n.body[0], ast.Expr) \
                and isinstance(n.body[0].value, ast.Constant) and isinstance(n.body[0].value.value, str):
            n.body = n.body[1:] or [ast.Pass()]
    return tree


def conj_name(tree):
    """.conjugate() <-> .conj(), np.conjugate(x) <-> np.conj(x)"""
    for n in ast.walk(tree):
        if isinstance(n, ast.Attribute) and n.attr in ('conjugate', 'conj'):
            n.attr = 'conj' if n.attr == 'conjugate' else 'conjugate'
    return tree


def transpose_T(tree):
    """X.transpose() (no arguments) <-> X.T"""
    class R(ast.NodeTransformer):
        def visit_Call(self, n):
            self.generic_visit(n)
            if isinstance(n.func, ast.Attribute) and n.func.attr == 'transpose' and not n.args and not n.keywords \
                    and not (isinstance(n.func.value, ast.Name) and n.func.value.id in ('np', 'numpy')):
                return ast.copy_location(ast.Attribute(value=n.func.value, attr='T', ctx=ast.Load()), n)
            return n
    return R().visit(tree)


def unparse_only(tree):
    return tree


TRANSFORMS = {'conj-name': conj_name, 'transpose-T': transpose_T, 'sqrt-swap': sqrt_swap, 'range-zero': range_zero, 'conj-T': conj_T, 'strip-docstrings': strip_docstrings, 'extract-call-args': extract_call_args, 'split-tuple-assign': split_tuple_assign, 'return-temp': return_temp, 'else-after-return': else_after_return, 'dot-to-matmul': dot_to_matmul, 'compare-swap': compare_swap, 'rename-locals': rename_locals, 'swap-commute': swap_commute, 'flip-if-else': flip_if_else, 'unparse': unparse_only}


def run_one(args):
    tname, pid, files, root = args
    from sa.overlay import Overlay, AnalysisError
    from sa.report import Ctx, split_known
    from sa.run import load_prop
    ov = Overlay(files, root, 'sweep:' + tname)
    mod = load_prop(pid)
    ctx = Ctx(pid, ov, 'quick', 0)
    err = None
    try:
        mod.check(ctx)
        ctx.check_floors()
    except AnalysisError as e:
        err = str(e)
    except Exception as e:  # noqa: BLE001
        err = 'internal error: %r' % (e,)
    new = split_known(pid, ctx.violations)[0]
    return tname, pid, [v.key for v in new], err


def main():
    from sa.overlay import Overlay
    which = sys.argv[1:] or list(TRANSFORMS)
    base = Overlay.load()
    jobs = []
    for t in which:
        files = {}
        for p, src in base.files.items():
            tree = TRANSFORMS[t](ast.parse(src))
            ast.fix_missing_locations(tree)
            files[p] = ast.unparse(tree) + '\n'
            ast.parse(files[p])
        for pid in ALL:
            jobs.append((t, pid, files, base.root))
    with ProcessPoolExecutor(max_workers=16) as ex:
        res = list(ex.map(run_one, jobs, chunksize=1))
    bad = 0
    for t in which:
        rs = [r for r in res if r[0] == t]
        fa = [(r[1], r[2]) for r in rs if r[2]]
        ref = [(r[1], r[3]) for r in rs if r[3] and not r[2]]
        print('%-14s false alarms %d, refusals %d' % (t, len(fa), len(ref)))
        for pid, keys in fa:
            print('    FALSE-ALARM', pid, keys[:4])
        for pid, e in ref:
            print('    refused    ', pid, e[:200])
        bad += len(fa)
    return 1 if bad else 0


if __name__ == '__main__':
    sys.exit(main())
