"""Validate-before-commit: a public mutator that can reject its argument must reject it BEFORE it changes the object.

Path rule (FlagInterp): along every path of a method, once a store to the receiver's state has happened (attribute /
element / augmented store, in-place mutator call on an attribute, a property setter, or a call of a method of the
class - own or inherited, `self.m()` / `super().m()` - that transitively stores), no `raise` statement may be
reached.  A rejected call that has already stored leaves the object half-updated: the caller catches the exception and
goes on with an object whose views disagree.  Constructors are exempt (a failed construction leaves no object behind),
as are raises inside `except` handlers (re-raise after the operation already failed) and `assert` (not input validation).
"""
from __future__ import annotations

import ast
from typing import Dict, List, Optional, Set, Tuple

from .model import MUTATORS, ClassInfo, FuncInfo, Model, is_self_attr, norm, walk_no_nested
from .paths import ExcHierarchy, FlagInterp


def storing_methods(model: Model, cls: ClassInfo) -> Set[str]:
    """Names of methods (resolved on cls) that store to self, directly or through self/super calls."""
    # by NAME over the whole MRO (an override that only delegates to super() still reaches the storing base method)
    direct: Set[str] = set()
    calls: Dict[str, Set[str]] = {}
    for k in model.mro(cls):
        items = list(k.methods.items()) + [('@set:' + n, f) for n, f in k.setters.items()]
        for name, fn in items:
            sn = fn.self_name
            cs = calls.setdefault(name, set())
            if not sn:
                continue
            for n in walk_no_nested(fn.node):
                if _is_direct_store(n, sn):
                    direct.add(name)
                if isinstance(n, ast.Call) and isinstance(n.func, ast.Attribute):
                    a = is_self_attr(n.func, sn)
                    if a:
                        cs.add(a)
                    elif isinstance(n.func.value, ast.Call) and norm(n.func.value.func) == 'super' and n.func.attr != name:
                        cs.add(n.func.attr)
    out = set(direct)
    changed = True
    while changed:
        changed = False
        for name, cs in calls.items():
            if name not in out and cs & out:
                out.add(name)
                changed = True
    return out


def _is_direct_store(n: ast.AST, sn: str) -> bool:
    if isinstance(n, ast.Attribute) and isinstance(n.ctx, (ast.Store, ast.Del)) and is_self_attr(n, sn):
        return True
    if isinstance(n, ast.Subscript) and isinstance(n.ctx, (ast.Store, ast.Del)):
        r = n
        while isinstance(r, ast.Subscript):
            r = r.value
        return bool(is_self_attr(r, sn))
    if isinstance(n, ast.Call) and isinstance(n.func, ast.Attribute) and n.func.attr in MUTATORS and is_self_attr(n.func.value, sn):
        return True
    return False


def commit_then_raise(model: Model, fn: FuncInfo, cls: Optional[ClassInfo] = None,
                      reset_attrs: Optional[Set[str]] = None) -> List[Tuple[ast.Raise, List[str]]]:
    """[(raise statement, stores that precede it on some path)] for fn analysed with receiver class cls.
    reset_attrs: lazily recomputed (derived) attributes; `self.X = None` on them is an invalidation, not a commit."""
    reset_attrs = reset_attrs or set()
    cls = cls or fn.cls
    sn = fn.self_name
    if cls is None or sn is None:
        return []
    storing = storing_methods(model, cls)
    in_handler: Set[int] = set()
    for n in walk_no_nested(fn.node):
        if isinstance(n, ast.ExceptHandler):
            for x in ast.walk(n):
                in_handler.add(id(x))

    def store_stmt(s: ast.stmt) -> bool:
        if isinstance(s, (ast.If, ast.For, ast.While, ast.Try, ast.With, ast.FunctionDef, ast.AsyncFunctionDef, ast.ClassDef)):
            return False
        if isinstance(s, ast.Assign) and isinstance(s.value, ast.Constant) and s.value.value is None \
                and all(is_self_attr(t, sn) in reset_attrs for t in s.targets):
            return False
        for n in ast.walk(s):
            if isinstance(n, (ast.Lambda,)):
                continue
            if _is_direct_store(n, sn):
                return True
            if isinstance(n, ast.Attribute) and isinstance(n.ctx, ast.Store) and isinstance(n.value, ast.Name) and n.value.id == sn \
                    and model.lookup_property(cls, n.attr) is not None:
                return True
        return False

    def store_call(c: ast.Call) -> bool:
        if not isinstance(c.func, ast.Attribute):
            return False
        a = is_self_attr(c.func, sn)
        if a and a in storing:
            return True
        if isinstance(c.func.value, ast.Call) and norm(c.func.value.func) == 'super' and c.func.attr in storing:
            return True
        return False

    stored_attrs: Dict[str, Set[str]] = {}

    class It(FlagInterp):
        def on_stmt(self, s, st):
            if store_stmt(s):
                key = norm(s)[:60]
                stored_attrs[key] = {n.attr for n in ast.walk(s) if isinstance(n, ast.Attribute) and isinstance(n.ctx, ast.Store)
                                     and isinstance(n.value, ast.Name) and n.value.id == sn}
                st = self.add(st, ['stored@%s' % key])
            return st

        def on_call(self, c, st):
            if store_call(c):
                st = self.add(st, ['stored@%s' % norm(c)[:60]])
            return st
    it = It(fn, ExcHierarchy(model))
    it.run(FlagInterp.start())
    # transactional form: `snapshot = (self.a, self.b); self.a = ..; self.b = ..; try: <checks that raise> except BaseException:
    # (self.a, self.b) = snapshot; raise` - a raise inside such a try leaves the object as it was
    rolled_back: Dict[int, Set[str]] = {}
    snapshots: Dict[str, Tuple[int, List[str]]] = {}
    for n in walk_no_nested(fn.node):
        if isinstance(n, ast.Assign) and len(n.targets) == 1 and isinstance(n.targets[0], ast.Name):
            elts = n.value.elts if isinstance(n.value, (ast.Tuple, ast.List)) else [n.value]
            attrs = [is_self_attr(e, sn) for e in elts]
            if attrs and all(attrs):
                snapshots[n.targets[0].id] = (n.lineno, attrs)
    for t in walk_no_nested(fn.node):
        if not isinstance(t, ast.Try):
            continue
        for h in t.handlers:
            catches_all = h.type is None or norm(h.type).split('.')[-1] in ('BaseException', 'Exception')
            if not catches_all or not h.body or not (isinstance(h.body[-1], ast.Raise) and h.body[-1].exc is None):
                continue
            restored: Set[str] = set()
            for b in h.body[:-1]:
                if isinstance(b, ast.Assign) and len(b.targets) == 1 and isinstance(b.value, ast.Name) and b.value.id in snapshots:
                    tg = b.targets[0].elts if isinstance(b.targets[0], (ast.Tuple, ast.List)) else [b.targets[0]]
                    names = [is_self_attr(x, sn) for x in tg]
                    if names == snapshots[b.value.id][1] and snapshots[b.value.id][0] < t.lineno:
                        restored |= set(names)
                else:
                    restored = set()
                    break
            if restored:
                for x in t.body:
                    for r in ast.walk(x):
                        if isinstance(r, ast.Raise):
                            rolled_back[id(r)] = restored
    out = []
    for s, st in it.raises:
        if id(s) in in_handler:
            continue
        keys = {f.split('@', 1)[1] for el in st for f in el if f.startswith('stored@')}
        if id(s) in rolled_back:
            keys = {k for k in keys if not (stored_attrs.get(k) and stored_attrs[k] <= rolled_back[id(s)])}
        stores = sorted(keys)
        if stores:
            out.append((s, stores))
    return out


RULE_TEXT = ('validate before commit: in every public mutator that can reject its arguments no `raise` is reachable after the '
             'object was already changed (invalidating a lazily recomputed attribute with None does not count)')


def check_family(ctx, rule: str, root_classes: List[str], floor: int, extra_resets: Optional[Set[str]] = None) -> int:
    """Declare `rule` and check the root classes and all their subclasses; lazily filled memos are discovered per class."""
    from .dsf import discover_memos_auto
    M = ctx.model
    ctx.rule(rule, RULE_TEXT, floor=floor)
    names: List[str] = []
    resets: Set[str] = set(extra_resets or ())
    for r in root_classes:
        c = M.cls(r)
        for k in [c] + M.subclasses(c):
            if k.name not in names:
                names.append(k.name)
                resets |= set(discover_memos_auto(M, k))
    return check_commit_discipline(ctx, rule, names, reset_attrs=resets)


def check_commit_discipline(ctx, rule: str, class_names: List[str], skip: Optional[Dict[str, str]] = None,
                            reset_attrs: Optional[Set[str]] = None) -> int:
    """One instance per PUBLIC mutator (method or setter; constructors and private helpers excluded) of the classes that
    contains a `raise`."""
    M = ctx.model
    n = 0
    skip = skip or {}
    seen: Set[int] = set()
    for cname in class_names:
        cls = M.cls(cname)
        fns = list(cls.methods.values()) + list(cls.setters.values())
        for fn in fns:
            if id(fn.node) in seen or fn.name.startswith('_') or fn.self_name is None:
                continue
            seen.add(id(fn.node))
            if not any(isinstance(x, ast.Raise) for x in walk_no_nested(fn.node)):
                continue
            construct = fn.qualname
            ctx.instance(rule, construct)
            n += 1
            found = commit_then_raise(M, fn, cls, reset_attrs)
            if construct in skip:
                ctx.note('%s: commit-before-raise accepted: %s' % (construct, skip[construct]))
                found = []
            ctx.obligation(rule, construct, not found, {'raise_after_store': [(norm(s)[:60], st) for s, st in found]} if found else None)
            for s, stores in found[:1]:
                ctx.violation(rule, construct, 'the rejection `%s` is reached after the object was already changed (%s): a caller that '
                              'catches the exception goes on with a half-updated object' % (norm(s)[:70], '; '.join(stores[:3])),
                              fn.path, s.lineno, operand='commit-before-raise')
    return n
