"""Path rules over SimulationRunner._simulate_for_current_params_common shared by C05 and C07.

Abstract values (forward, exception edges included, helper methods of the class analysed by SUMMARY - the same
interpreter runs on the callee with its parameters bound to the abstract values of the arguments):
  ('r', base, k)   a results object containing  base + k  repetitions  (base '' = 0, 'L' = the loaded count)
  ('c', base, k)   an integer equal to base + k
  ('none',)        None
  UNK              anything else / widened
Element of a state (states are finite sets of elements = disjunctive domain):
  (res, rep, saved, pend, extra)   res/rep = values of the two loop-carried variables R (merged results) and N (counter)
                                   saved   = the unconditional end-of-variation save has been passed
                                   pend    = value of the most recently evaluated call
                                   extra   = frozenset of (local name, value) for the other locals
D = res - rep must be 0 at the loop head, every back edge, the loop exit, every save call and every return.
"""
from __future__ import annotations

import ast
from typing import Any, Dict, List, Optional, Set, Tuple

from .model import FuncInfo, Model, is_self_attr, norm, walk_no_nested
from .overlay import AnalysisError
from .paths import ExcHierarchy, PathInterp, conjuncts, implied_compares

RUNNER = 'pyphysim/simulations/runner.py'
TOP = ('?', 0)
UNK = ('unk',)
NONE = ('none',)
PRIMITIVE_RUN = '_run_simulation'


def reaching_methods(model: Model, cname: str, targets: Set[str]) -> Set[str]:
    """Names of methods of class cname that (transitively, through self calls) make a call named in targets."""
    cls = model.cls(cname)
    methods: Dict[str, FuncInfo] = {}
    for k in reversed(model.mro(cls)):
        methods.update(k.methods)
    calls: Dict[str, Set[str]] = {}
    direct: Set[str] = set()
    for name, fn in methods.items():
        sn = fn.self_name
        s: Set[str] = set()
        for n in ast.walk(fn.node):
            if isinstance(n, ast.Call) and isinstance(n.func, ast.Attribute):
                if n.func.attr in targets:
                    direct.add(name)
                if sn and is_self_attr(n.func, sn):
                    s.add(n.func.attr)
        calls[name] = s
    reach = set(direct)
    changed = True
    while changed:
        changed = False
        for name, s in calls.items():
            if name not in reach and s & reach:
                reach.add(name)
                changed = True
    return reach


def _rk(v) -> Optional[Tuple[str, int]]:
    """(base, k) of a kinded value or None."""
    if isinstance(v, tuple) and len(v) == 3 and v[0] in ('r', 'c'):
        return (v[1], v[2])
    return None


class RunnerLoop(PathInterp):
    def __init__(self, model: Model, fn: FuncInfo, root: Optional['RunnerLoop'] = None, depth: int = 0):
        super().__init__(fn, ExcHierarchy(model) if root is None else root.h)
        self.M = model
        self.sn = fn.self_name or 'self'
        self.root = root or self
        self.depth = depth
        self.loop: Optional[ast.While] = None
        self.R: Optional[str] = None
        self.N: Optional[str] = None
        if root is None:
            cls = fn.cls.name if fn.cls else 'SimulationRunner'
            self.interesting = reaching_methods(model, cls, {PRIMITIVE_RUN, 'load_partial_results', 'merge_all_results',
                                                             'save_partial_results', 'save_partial_results_maybe'})
            self.interesting -= {PRIMITIVE_RUN, fn.name}
            # anchors by role, never by position
            whiles = [n for n in walk_no_nested(fn.node) if isinstance(n, ast.While)]
            loops = [w for w in whiles if any(isinstance(c, ast.Call) and self._is_merge(c) for c in ast.walk(w))]
            if len(loops) != 1:
                raise AnalysisError('runner: expected one repetition loop containing merge_all_results, found %d' % len(loops))
            self.loop = loops[0]
            merges = [c for c in ast.walk(self.loop) if isinstance(c, ast.Call) and self._is_merge(c)]
            recv = {norm(c.func.value) for c in merges}
            if len(recv) != 1 or not isinstance(merges[0].func.value, ast.Name):
                raise AnalysisError('runner: merge receivers %s (idiom unknown)' % sorted(recv))
            self.R = merges[0].func.value.id
            incs = [n for n in ast.walk(self.loop) if isinstance(n, ast.AugAssign) and isinstance(n.target, ast.Name)
                    and isinstance(n.op, ast.Add)]
            names = {n.target.id for n in incs}
            if len(names) != 1:
                raise AnalysisError('runner: expected one counter incremented in the loop, found %s' % sorted(names))
            self.N = names.pop()
            self.problems: List[Tuple[str, str, ast.AST, Any, Any]] = []
            self.run_sites: List[ast.Call] = []
            self.skip_sites: Dict[Tuple[str, int], Tuple[FuncInfo, ast.AST, bool]] = {}
            self.save_sites: List[Tuple[ast.Call, Any, FuncInfo, List[Any]]] = []
            self.head_states: List[Any] = []
            self.n_merge = self.n_inc = 0
            self.summaries: Dict[Any, Any] = {}
            self.stack: List[str] = [fn.name]
            self.analysed: Set[str] = {fn.qualname}
        self.max_iter = 16

    # ---- recognisers
    def _is_merge(self, c: ast.Call) -> bool:
        return isinstance(c.func, ast.Attribute) and c.func.attr == 'merge_all_results'

    def _is_run(self, c: ast.Call) -> bool:
        return isinstance(c.func, ast.Attribute) and is_self_attr(c.func, self.sn) == PRIMITIVE_RUN

    def _is_load(self, c: ast.Call) -> bool:
        return isinstance(c.func, ast.Attribute) and c.func.attr == 'load_partial_results'

    def _is_save(self, c: ast.Call) -> Optional[str]:
        if isinstance(c.func, ast.Attribute) and c.func.attr in ('save_partial_results', 'save_partial_results_maybe'):
            return c.func.attr
        return None

    def _helper(self, c: ast.Call) -> Optional[FuncInfo]:
        if not isinstance(c.func, ast.Attribute):
            return None
        name = is_self_attr(c.func, self.sn)
        if name is None or name not in self.root.interesting or self.fn.cls is None:
            return None
        return self.M.lookup_method(self.fn.cls, name)

    # ---- values
    def get(self, el, name: str):
        if name == self.R:
            return UNK if el[0] == TOP else (NONE if el[0] is None else ('r',) + el[0])
        if name == self.N:
            return UNK if (el[1] == TOP or el[1] is None) else ('c',) + el[1]
        for k, v in el[4]:
            if k == name:
                return v
        return UNK

    def put(self, el, name: str, v):
        res, rep, saved, pend, extra = el
        if name == self.R:
            res = _rk(v) if (isinstance(v, tuple) and v and v[0] == 'r') else (None if v == NONE else TOP)
            if any(k == '__nn_' + name for k, _ in extra):
                extra = frozenset((k, w) for k, w in extra if k != '__nn_' + name)      # a new object: the "known not None" mark goes
        elif name == self.N:
            rep = _rk(v) if (isinstance(v, tuple) and v and v[0] == 'c') else TOP
        else:
            d = dict(extra)
            if v == UNK or isinstance(v, list):
                d.pop(name, None)
            else:
                d[name] = v
            extra = frozenset(d.items())
        return (res, rep, saved, pend, extra)

    def val(self, el, e: Optional[ast.AST]):
        """Abstract value of expression e in element el (calls: the pending value of the call just evaluated)."""
        if e is None:
            return NONE
        if isinstance(e, ast.Name):
            return self.get(el, e.id)
        if isinstance(e, ast.Constant):
            if e.value is None:
                return NONE
            if isinstance(e.value, int) and not isinstance(e.value, bool):
                return ('c', '', e.value)
            return UNK
        if isinstance(e, ast.Attribute) and e.attr == 'current_rep':
            v = self.val(el, e.value)
            # the loaded object carries its own repetition count in this field (C07.b store-before-save)
            if isinstance(v, tuple) and v[0] == 'r' and v[1] == 'L' and v[2] == 0:
                return ('c', 'L', 0)
            return UNK
        if isinstance(e, ast.Call):
            return el[3] if el[3] is not None else UNK
        if isinstance(e, ast.BinOp) and isinstance(e.op, (ast.Add, ast.Sub)):
            l, r = self.val(el, e.left), self.val(el, e.right)
            if isinstance(l, tuple) and isinstance(r, tuple) and l[0] == 'c' and r[0] == 'c':
                if isinstance(e.op, ast.Add) and (l[1] == '' or r[1] == ''):
                    return ('c', l[1] or r[1], l[2] + r[2])
                if isinstance(e.op, ast.Sub) and r[1] == '':
                    return ('c', l[1], l[2] - r[2])
            return UNK
        if isinstance(e, ast.Tuple):
            if len([x for x in e.elts if isinstance(x, ast.Call)]) > 1:
                return UNK
            return [self.val(el, x) for x in e.elts]
        return UNK

    # ---- element-wise helpers: a state is a frozenset of elements
    @staticmethod
    def Dof(el) -> Any:
        """0 / non-zero int: definite; 'mismatch': definite disagreement of kind; 'unknown': not decided."""
        r, n = el[0], el[1]
        if r == TOP or n == TOP:
            return 'unknown'
        if r is None or n is None or r[0] != n[0]:
            return 'mismatch'
        return r[1] - n[1]

    def _normal(self, el):
        r, n, saved, pend, extra = el
        if r is not None and n is not None and r != TOP and n != TOP and r[0] == n[0]:
            d = r[1] - n[1]
            if abs(d) > 3:
                r, n = TOP, TOP
            # keep only the difference (finite domain): loaded-base pairs are shifted to rep offset 0
            elif r[0] == 'L' or n[1] > 1:
                r, n = (r[0], d), (n[0], 0)
        elif r is not None and r != TOP and abs(r[1]) > 4:
            r = TOP
        if n is not None and n != TOP and abs(n[1]) > 6:
            n = TOP
        # widening of the other locals
        if extra:
            d2 = {}
            for k, v in extra:
                if isinstance(v, tuple) and len(v) == 3 and abs(v[2]) > 3:
                    continue
                d2[k] = v
            extra = frozenset(d2.items())
        return (r, n, saved, pend, extra)

    def _map(self, st, f):
        return frozenset(self._normal(f(el)) for el in st)

    # ---- summaries of helper methods
    def _summary(self, h: FuncInfo, c: ast.Call, el):
        """[(returned value, saved, {param: final value})], {exception class names}  for helper h called at c in el."""
        root = self.root
        a = h.node.args
        params = [x.arg for x in a.posonlyargs + a.args][1:]
        bind: Dict[str, Any] = {}
        for p, arg in zip(params, c.args):
            bind[p] = self.val(el, arg)
        for k in c.keywords:
            if k.arg:
                bind[k.arg] = self.val(el, k.value)
        entry = (None, None, el[2], None, frozenset((k, v) for k, v in bind.items() if v != UNK and not isinstance(v, list)))
        key = (h.qualname, entry)
        if key in root.summaries:
            return root.summaries[key]
        if h.name in root.stack or self.depth >= 5:
            out = ([(UNK, el[2], {})], {'SkipThisOne'} if h.name in root.interesting else set())
            root.summaries[key] = out
            return out
        root.stack.append(h.name)
        root.analysed.add(h.qualname)
        sub = RunnerLoop(self.M, h, root, self.depth + 1)
        rebinds = {n.id for n in ast.walk(h.node) if isinstance(n, ast.Name) and isinstance(n.ctx, ast.Store)}
        sub.run(frozenset([entry]))
        root.stack.pop()
        rets = []
        for st, node in sub.exits:
            for x in st:
                rv = sub.val((x[0], x[1], x[2], x[3], x[4]), node.value) if isinstance(node, ast.Return) else NONE
                finals = {p: (UNK if p in rebinds else sub.get(x, p)) for p in params}
                rets.append((tuple(rv) if isinstance(rv, list) else rv, x[2], tuple(sorted(finals.items(), key=repr))))
        out = (sorted(set(rets), key=repr), {exc for (_, exc, _) in sub.exc_exits})
        root.summaries[key] = out
        return out

    # ---- hooks
    def join(self, a, b):
        return a | b

    def may_raise(self, c, st):
        if self._is_run(c):
            return ['SkipThisOne']
        h = self._helper(c)
        if h is not None:
            out: Set[str] = set()
            for el in st:
                out |= self._summary(h, c, el)[1]
            return sorted(out)
        return []

    def _route(self, exc, st, node):
        before = len(self.exc_exits)
        super()._route(exc, st, node)
        if exc == 'SkipThisOne':
            handled = len(self.exc_exits) == before
            key = (self.fn.qualname, getattr(node, 'lineno', 0))
            old = self.root.skip_sites.get(key)
            self.root.skip_sites[key] = (self.fn, node, handled and (old[2] if old else True))
            if self is self.root and isinstance(node, ast.Call):
                self.run_sites.append(node)

    def on_call(self, c, st):
        root = self.root
        if self._is_run(c):
            return self._map(st, lambda e: (e[0], e[1], e[2], ('r', '', 1), e[4]))     # fresh results holding one repetition
        if self._is_load(c):
            return self._map(st, lambda e: (e[0], e[1], e[2], ('r', 'L', 0), e[4]))
        if self._is_merge(c):
            root.n_merge += 1
            recv = c.func.value

            def mg(e):
                add = self.val(e, c.args[0]) if c.args else UNK
                if not isinstance(recv, ast.Name):
                    return (e[0], e[1], e[2], None, e[4])
                cur = self.get(e, recv.id)
                if isinstance(cur, tuple) and cur[0] == 'r' and isinstance(add, tuple) and add[0] == 'r' and add[1] == '':
                    new = ('r', cur[1], cur[2] + add[2])
                else:
                    new = UNK
                e = self.put(e, recv.id, new)
                return (e[0], e[1], e[2], None, e[4])
            return self._map(st, mg)
        kind = self._is_save(c)
        if kind:
            ds = []
            for e in st:
                cnt = self.val(e, c.args[0]) if len(c.args) >= 1 else UNK
                res = self.val(e, c.args[2]) if len(c.args) >= 3 else UNK
                if not (isinstance(cnt, tuple) and cnt[0] == 'c') or not (isinstance(res, tuple) and res[0] == 'r'):
                    ds.append('mismatch' if (cnt == NONE or res == NONE) else 'unknown')
                elif cnt[1] != res[1]:
                    ds.append('mismatch')
                else:
                    ds.append(res[2] - cnt[2])
            root.save_sites.append((c, st, self.fn, ds))
            if kind == 'save_partial_results':
                return self._map(st, lambda e: (e[0], e[1], True, None, e[4]))
            return self._map(st, lambda e: (e[0], e[1], e[2], None, e[4]))
        h = self._helper(c)
        if h is not None:
            out = set()
            for e in st:
                rets, _ = self._summary(h, c, e)
                a = h.node.args
                params = [x.arg for x in a.posonlyargs + a.args][1:]
                for rv, saved, finals in rets:
                    ne = (e[0], e[1], saved, list(rv) if isinstance(rv, tuple) and rv and not isinstance(rv[0], str) else rv, e[4])
                    fin = dict(finals)
                    for p, arg in zip(params, c.args):
                        # results objects are passed by reference: what the helper merged into them is visible here
                        if isinstance(arg, ast.Name) and isinstance(self.get(e, arg.id), tuple) and self.get(e, arg.id)[0] == 'r':
                            pe = self.put(ne, arg.id, fin.get(p, UNK))
                            ne = (pe[0], pe[1], ne[2], ne[3], pe[4])
                    # the pending value must be hashable inside the frozenset
                    ne = (ne[0], ne[1], ne[2], tuple(ne[3]) if isinstance(ne[3], list) else ne[3], ne[4])
                    out.add(self._normal(ne))
            return frozenset(out) if out else None
        # any other call: its value is not tracked
        return self._map(st, lambda e: (e[0], e[1], e[2], None, e[4]))

    def _pend_value(self, e, v: Optional[ast.AST]):
        """Value of the right-hand side v in element e (a tuple value for helper calls returning tuples)."""
        if isinstance(v, ast.Call):
            p = e[3]
            if p is None:
                return UNK
            if isinstance(p, tuple) and p and not isinstance(p[0], str):
                return list(p)
            return p
        return self.val(e, v)

    def on_assign(self, s, st):
        root = self.root
        tg = s.targets if isinstance(s, ast.Assign) else [s.target]
        if isinstance(s, ast.AugAssign):
            if isinstance(s.target, ast.Name):
                name = s.target.id
                if self is root and name == self.N:
                    root.n_inc += 1
                const = s.value.value if isinstance(s.value, ast.Constant) and isinstance(s.value.value, int) else None

                def inc(e):
                    cur = self.get(e, name)
                    if isinstance(cur, tuple) and cur[0] == 'c' and const is not None and isinstance(s.op, (ast.Add, ast.Sub)):
                        new = ('c', cur[1], cur[2] + (const if isinstance(s.op, ast.Add) else -const))
                    else:
                        new = UNK
                    e = self.put(e, name, new)
                    return (e[0], e[1], e[2], None, e[4])
                st = self._map(st, inc)
            return st
        v = getattr(s, 'value', None)
        if v is None:
            return st
        # a named test: `flag = X is None` / `flag = X is not None` / `flag = not ...` - the state is split as the test would
        # split it and the flag remembers the side (later `if flag:` selects exactly those elements)
        if len(tg) == 1 and isinstance(tg[0], ast.Name) and tg[0].id not in (self.R, self.N) and \
                (isinstance(v, ast.Compare) or (isinstance(v, ast.UnaryOp) and isinstance(v.op, ast.Not))):
            t_side, f_side = self.on_test(v, st)
            if not (t_side is st and f_side is st):
                out = set()
                for side, flag in ((t_side, True), (f_side, False)):
                    for e in (side or ()):
                        e2 = self.put(e, tg[0].id, ('b', flag))
                        out.add(self._normal((e2[0], e2[1], e2[2], None, e2[4])))
                return frozenset(out)

        def asg(e):
            val = self._pend_value(e, v)
            for t in tg:
                if isinstance(t, ast.Name):
                    e = self.put(e, t.id, UNK if isinstance(val, list) else val)
                elif isinstance(t, (ast.Tuple, ast.List)):
                    vals = val if isinstance(val, list) and len(val) == len(t.elts) else [UNK] * len(t.elts)
                    for x, xv in zip(t.elts, vals):
                        if isinstance(x, ast.Name):
                            e = self.put(e, x.id, UNK if isinstance(xv, list) else xv)
            return (e[0], e[1], e[2], None, e[4])
        return self._map(st, asg)

    def on_test(self, test, st):
        # `X is None` : only a loaded object can be None; on the true edge there is no results object
        if isinstance(test, ast.Compare) and len(test.ops) == 1 and isinstance(test.left, ast.Name) \
                and isinstance(test.comparators[0], ast.Constant) \
                and test.comparators[0].value is None and isinstance(test.ops[0], (ast.Is, ast.IsNot)):
            x = test.left.id
            none_side, some_side = set(), set()
            for e in st:
                v = self.get(e, x)
                if v == NONE:
                    none_side.add(e)
                elif isinstance(v, tuple) and v[0] == 'r' and v[1] == 'L':
                    # a loaded object may be None (nothing to resume) - unless an earlier test already found it not None
                    if self.get(e, '__nn_' + x) == ('b', True):
                        some_side.add(e)
                    else:
                        none_side.add(self._normal(self.put(e, x, NONE)))
                        r_, n_, sv_, pd_, ex_ = e
                        some_side.add((r_, n_, sv_, pd_, frozenset(dict(ex_, **{'__nn_' + x: ('b', True)}).items())))
                elif isinstance(v, tuple) and v[0] == 'r':
                    some_side.add(e)            # a results object produced by a run is never None
                else:
                    none_side.add(e)
                    some_side.add(e)
            ns = frozenset(none_side) or None
            ss = frozenset(some_side) or None
            if isinstance(test.ops[0], ast.Is):
                return ns, ss
            return ss, ns
        if isinstance(test, ast.Name) and test.id not in (self.R, self.N):
            ts, fs = set(), set()
            for e in st:
                v = self.get(e, test.id)
                if v == ('b', True):
                    ts.add(e)
                elif v == ('b', False):
                    fs.add(e)
                else:
                    ts.add(e)
                    fs.add(e)
            return (frozenset(ts) or None), (frozenset(fs) or None)
        if isinstance(test, ast.Constant) and test.value is True:
            return st, None
        if isinstance(test, ast.UnaryOp) and isinstance(test.op, ast.Not):
            t, f = self.on_test(test.operand, st)
            return f, t
        return st, st

    def _chk(self, where: str, node: ast.AST, st) -> None:
        for el in sorted(st, key=repr):
            d = self.Dof(el)
            if d != 0:
                self.root.problems.append((where, 'results hold %s repetitions but the counter is %s (difference %s)'
                                           % (el[0], el[1], d), node, el, d))

    def on_loop_head(self, s, st, first):
        if s is self.loop:
            if first:
                self.head_states.append(st)
            self._chk('loop-head', s, st)

    def on_back_edge(self, s, st):
        if s is self.loop:
            self._chk('back-edge', s, st)

    def on_loop_exit(self, s, st):
        if s is self.loop:
            self._chk('loop-exit', s, st)


def analyse_runner(model: Model):
    fn = model.func(RUNNER, 'SimulationRunner._simulate_for_current_params_common')
    it = RunnerLoop(model, fn)
    it.run(frozenset([(None, None, False, None, frozenset())]))
    return fn, it


def definite(d) -> bool:
    """A difference that is a decided disagreement (as opposed to 'unknown' = the analysis lost track)."""
    return d == 'mismatch' or (isinstance(d, int) and d != 0)
