"""Path rules over SimulationRunner._simulate_for_current_params_common shared by C05 and C07.

Abstract state (forward, exception edges included):
  res : None | (base, k)   number of repetitions contained in the results object  (base '' = 0, 'L' = loaded count)
  rep : None | (base, k)   value of the repetition counter
  saved : the unconditional end-of-variation save has been passed on every path reaching here
D = res - rep must be 0 at the loop head, every back edge, the loop exit, every save call and every return.
"""
from __future__ import annotations

import ast
from typing import Any, Dict, List, Optional, Set, Tuple

from .model import FuncInfo, Model, is_self_attr, norm, walk_no_nested
from .overlay import AnalysisError
from .paths import ExcHierarchy, PathInterp, conjuncts, implied_compares

RUNNER = 'pyphysim/simulations/runner.py'
TOP = ('?', 0)


def reaching_methods(model: Model, cname: str, target: str) -> Set[str]:
    """Names of methods of class cname that (transitively, through self calls) call self.<target>()."""
    cls = model.cls(cname)
    methods: Dict[str, FuncInfo] = {}
    for k in reversed(model.mro(cls)):
        methods.update(k.methods)
    calls: Dict[str, Set[str]] = {}
    for name, fn in methods.items():
        sn = fn.self_name
        s: Set[str] = set()
        if sn:
            for n in ast.walk(fn.node):
                if isinstance(n, ast.Call) and is_self_attr(n.func, sn):
                    s.add(n.func.attr)
        calls[name] = s
    reach = {target}
    changed = True
    while changed:
        changed = False
        for name, s in calls.items():
            if name not in reach and s & reach:
                reach.add(name)
                changed = True
    return reach


class RunnerLoop(PathInterp):
    def __init__(self, model: Model, fn: FuncInfo):
        super().__init__(fn, ExcHierarchy(model))
        self.M = model
        self.sn = fn.self_name or 'self'
        self.may = reaching_methods(model, 'SimulationRunner', '_run_simulation') - {'_run_simulation'} | {'_run_simulation'}
        self.may -= {fn.name}
        # anchors by role, never by position
        whiles = [n for n in walk_no_nested(fn.node) if isinstance(n, ast.While)]
        loops = [w for w in whiles if any(isinstance(c, ast.Call) and self._is_merge(c) for c in ast.walk(w))]
        if len(loops) != 1:
            raise AnalysisError('runner: expected one repetition loop containing merge_all_results, found %d' % len(loops))
        self.loop = loops[0]
        merges = [c for c in ast.walk(self.loop) if isinstance(c, ast.Call) and self._is_merge(c)]
        recv = {norm(c.func.value) for c in merges}
        if len(recv) != 1 or not isinstance(merges[0].func.value, ast.Name):
            raise AnalysisError('runner: merge receivers %s (idiom unknown)' % sorted(recv))
        self.R = merges[0].func.value.id
        incs = [n for n in ast.walk(self.loop) if isinstance(n, ast.AugAssign) and isinstance(n.target, ast.Name)
                and isinstance(n.op, ast.Add)]
        names = {n.target.id for n in incs}
        if len(names) != 1:
            raise AnalysisError('runner: expected one counter incremented in the loop, found %s' % sorted(names))
        self.N = names.pop()
        self.problems: List[Tuple[str, str, ast.AST, Any]] = []
        self.run_sites: List[ast.Call] = []
        self.save_sites: List[Tuple[ast.Call, Any]] = []
        self.n_merge = self.n_inc = 0

    # ---- recognisers
    def _is_merge(self, c: ast.Call) -> bool:
        return isinstance(c.func, ast.Attribute) and c.func.attr == 'merge_all_results'

    def _is_run(self, c: ast.Call) -> bool:
        return is_self_attr(c.func, self.sn) in self.may if isinstance(c.func, ast.Attribute) else False

    def _is_load(self, c: ast.Call) -> bool:
        return isinstance(c.func, ast.Attribute) and c.func.attr == 'load_partial_results'

    def _is_save(self, c: ast.Call) -> Optional[str]:
        if isinstance(c.func, ast.Attribute) and c.func.attr in ('save_partial_results', 'save_partial_results_maybe'):
            return c.func.attr
        return None

    # ---- element-wise helpers: a state is a frozenset of (res, rep, saved, pending) elements
    @staticmethod
    def Dof(el) -> Any:
        r, n = el[0], el[1]
        if r is None or n is None or r == TOP or n == TOP or r[0] != n[0]:
            return '?'
        return r[1] - n[1]

    @staticmethod
    def _normal(el):
        r, n, saved, pend = el
        if r is not None and n is not None and r != TOP and n != TOP and r[0] == n[0]:
            d = r[1] - n[1]
            if abs(d) > 3:
                return (TOP, TOP, saved, pend)
            # keep only the difference (finite domain): loaded-base pairs are shifted to rep offset 0
            if r[0] == 'L' or n[1] > 1:
                return ((r[0], d), (n[0], 0), saved, pend)
        return el

    def _map(self, st, f):
        return frozenset(self._normal(f(el)) for el in st)

    # ---- hooks
    def join(self, a, b):
        return a | b

    def may_raise(self, c, st):
        if self._is_run(c):
            self.run_sites.append(c)
            return ['SkipThisOne']
        return []

    def on_call(self, c, st):
        if self._is_run(c):
            st = self._map(st, lambda e: (e[0], e[1], e[2], ('', 1)))     # fresh results holding one repetition
        elif self._is_load(c):
            st = self._map(st, lambda e: (e[0], e[1], e[2], ('L', 0)))
        elif self._is_merge(c) and isinstance(c.func.value, ast.Name) and c.func.value.id == self.R:
            self.n_merge += 1

            def mg(e):
                r = e[0]
                return (TOP if (r is None or r == TOP) else (r[0], r[1] + 1), e[1], e[2], e[3])
            st = self._map(st, mg)
        kind = self._is_save(c)
        if kind:
            self.save_sites.append((c, st))
            if kind == 'save_partial_results':
                st = self._map(st, lambda e: (e[0], e[1], True, e[3]))
        return st

    def on_assign(self, s, st):
        tg = s.targets if isinstance(s, ast.Assign) else [s.target]
        names = [t.id for t in tg if isinstance(t, ast.Name)]
        if isinstance(s, ast.AugAssign):
            if self.N in names:
                self.n_inc += 1
                one = isinstance(s.op, ast.Add) and isinstance(s.value, ast.Constant) and s.value.value == 1

                def inc(e):
                    n = e[1]
                    return (e[0], (n[0], n[1] + 1) if (one and n is not None and n != TOP) else TOP, e[2], e[3])
                st = self._map(st, inc)
            return st
        v = getattr(s, 'value', None)

        def asg(e):
            r, n, saved, pend = e
            if self.R in names:
                if isinstance(v, ast.Call) and (self._is_run(v) or self._is_load(v)) and pend:
                    r = pend
                else:
                    r = TOP
            if self.N in names:
                if isinstance(v, ast.Constant) and isinstance(v.value, int):
                    n = ('', v.value)
                elif isinstance(v, ast.Attribute) and isinstance(v.value, ast.Name) and v.value.id == self.R \
                        and v.attr == 'current_rep':
                    n = ('L', 0) if (r is not None and r != TOP and r[0] == 'L') else TOP
                else:
                    n = TOP
            return (r, n, saved, None)
        return self._map(st, asg)

    def on_test(self, test, st):
        # `R is None` : only a loaded object can be None; on the true edge there is no results object
        if isinstance(test, ast.Compare) and len(test.ops) == 1 and isinstance(test.left, ast.Name) \
                and test.left.id == self.R and isinstance(test.comparators[0], ast.Constant) \
                and test.comparators[0].value is None and isinstance(test.ops[0], (ast.Is, ast.IsNot)):
            none_side = self._map(st, lambda e: (None, e[1], e[2], e[3]))
            # a results object produced by a run is never None
            maybe_none = frozenset(e for e in st if e[0] is None or e[0] == TOP or e[0][0] == 'L')
            none_side = self._map(maybe_none, lambda e: (None, e[1], e[2], e[3])) if maybe_none else None
            some_side = frozenset(e for e in st if e[0] is not None) or None
            if isinstance(test.ops[0], ast.Is):
                return none_side, some_side
            return some_side, none_side
        return st, st

    def _chk(self, where: str, node: ast.AST, st) -> None:
        for el in sorted(st, key=repr):
            d = self.Dof(el)
            if d != 0:
                self.problems.append((where, 'results hold %s repetitions but the counter is %s (difference %s)'
                                      % (el[0], el[1], d), node, el))

    def on_loop_head(self, s, st, first):
        if s is self.loop:
            self._chk('loop-head', s, st)

    def on_back_edge(self, s, st):
        if s is self.loop:
            self._chk('back-edge', s, st)

    def on_loop_exit(self, s, st):
        if s is self.loop:
            self._chk('loop-exit', s, st)


def analyse_runner(model: Model):
    fn = model.func(RUNNER, 'SimulationRunner._simulate_for_current_params_common')
    it = RunnerLoop(model, fn)
    it.run(frozenset([(None, None, False, None)]))
    return fn, it
