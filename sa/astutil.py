"""Small syntactic recognisers shared by the property rules (normalised, never positional)."""
from __future__ import annotations

import ast
from typing import Iterator, List, Optional, Tuple

from .model import FuncInfo, is_self_attr, norm, walk_no_nested


def np_call(e: ast.AST, *names: str) -> Optional[ast.Call]:
    """e is a call of np.<name>/numpy.<name>/math.<name>/<name> for one of names."""
    if isinstance(e, ast.Call):
        f = e.func
        n = f.attr if isinstance(f, ast.Attribute) else (f.id if isinstance(f, ast.Name) else None)
        if n in names:
            return e
    return None


def matmul_operands(e: ast.AST) -> Optional[Tuple[ast.AST, ast.AST]]:
    """(A, B) if e is np.dot(A, B) / A.dot(B) / A @ B / np.matmul(A, B)."""
    if isinstance(e, ast.BinOp) and isinstance(e.op, ast.MatMult):
        return e.left, e.right
    if isinstance(e, ast.Call):
        f = e.func
        if isinstance(f, ast.Attribute) and f.attr in ('dot', 'matmul') and len(e.args) == 2 \
                and isinstance(f.value, ast.Name) and f.value.id in ('np', 'numpy'):
            return e.args[0], e.args[1]
        if isinstance(f, ast.Attribute) and f.attr == 'dot' and len(e.args) == 1:
            return f.value, e.args[0]
    return None


def adjoint_of(e: ast.AST) -> Optional[ast.AST]:
    """X if e is the conjugate transpose of X in any of the repo's spellings."""
    # X.conj().T / X.conjugate().T / X.T.conj() / X.transpose().conjugate() / X.conjugate().transpose() / X.conj().transpose()
    def strip(e, kinds):
        if isinstance(e, ast.Attribute) and e.attr == 'T' and 'T' in kinds:
            return e.value, 'T'
        if isinstance(e, ast.Call) and isinstance(e.func, ast.Attribute) and not e.args:
            if e.func.attr == 'transpose' and 'T' in kinds:
                return e.func.value, 'T'
            if e.func.attr in ('conj', 'conjugate') and 'C' in kinds:
                return e.func.value, 'C'
        return None
    a = strip(e, 'TC')
    if a is None:
        return None
    inner, k1 = a
    b = strip(inner, 'C' if k1 == 'T' else 'T')
    if b is None:
        return None
    return b[0]


def assignments_to(fn: FuncInfo, name: str) -> List[ast.AST]:
    out = []
    for n in walk_no_nested(fn.node):
        if isinstance(n, ast.Assign):
            for t in n.targets:
                if isinstance(t, ast.Name) and t.id == name:
                    out.append(n)
        elif isinstance(n, (ast.AnnAssign, ast.AugAssign)) and isinstance(n.target, ast.Name) and n.target.id == name:
            out.append(n)
    return out


def stmts_in_order(fn: FuncInfo) -> List[ast.stmt]:
    """All statements of fn (not nested defs) in source order."""
    out: List[ast.stmt] = []

    def rec(body):
        for s in body:
            out.append(s)
            if isinstance(s, (ast.FunctionDef, ast.AsyncFunctionDef, ast.ClassDef)):
                continue
            for fld in ('body', 'orelse', 'finalbody'):
                b = getattr(s, fld, None)
                if b:
                    rec(b)
            if isinstance(s, ast.Try):
                for h in s.handlers:
                    rec(h.body)
    rec(fn.node.body)
    return out


def self_attr_loads(node: ast.AST, selfname: str = 'self') -> Iterator[ast.Attribute]:
    for n in ast.walk(node):
        if isinstance(n, ast.Attribute) and isinstance(n.ctx, ast.Load) and is_self_attr(n, selfname):
            yield n


def self_attr_stores(node: ast.AST, selfname: str = 'self') -> Iterator[ast.Attribute]:
    for n in ast.walk(node):
        if isinstance(n, ast.Attribute) and isinstance(n.ctx, (ast.Store, ast.Del)) and is_self_attr(n, selfname):
            yield n


def names_in(e: ast.AST) -> set:
    return {n.id for n in ast.walk(e) if isinstance(n, ast.Name)}


def const_value(e: ast.AST):
    if isinstance(e, ast.Constant):
        return e.value
    if isinstance(e, ast.UnaryOp) and isinstance(e.op, ast.USub) and isinstance(e.operand, ast.Constant):
        return -e.operand.value
    return None


def cumulative_vectors(fn: FuncInfo):
    """locals defined as np.hstack([0, np.cumsum(X)]) -> {name: norm(X)}"""
    out = {}
    for n in walk_no_nested(fn.node):
        if isinstance(n, ast.Assign) and len(n.targets) == 1 and isinstance(n.targets[0], ast.Name) and isinstance(n.value, ast.Call) \
                and norm(n.value.func) in ('np.hstack', 'np.concatenate', 'np.r_') and n.value.args \
                and isinstance(n.value.args[0], (ast.List, ast.Tuple)) and len(n.value.args[0].elts) == 2:
            z, c = n.value.args[0].elts
            if isinstance(z, ast.Constant) and z.value == 0 and isinstance(c, ast.Call) and norm(c.func) == 'np.cumsum' and c.args:
                out[n.targets[0].id] = norm(c.args[0])
    return out


def cumulative_slices(fn: FuncInfo, cums):
    """(slice_node, cum_name, index_src, ok) for every slice whose bounds index a cumulative vector."""
    for n in ast.walk(fn.node):
        if not isinstance(n, ast.Slice) or n.lower is None or n.upper is None:
            continue
        lo, up = n.lower, n.upper
        if isinstance(lo, ast.Subscript) and isinstance(lo.value, ast.Name) and lo.value.id in cums:
            cname = lo.value.id
            i = norm(lo.slice)
            ok = isinstance(up, ast.Subscript) and isinstance(up.value, ast.Name) and up.value.id == cname \
                and norm(up.slice).replace(' ', '') in (i + '+1', '1+' + i)
            yield n, cname, i, ok


# ---------------------------------------------------------------------------------------------------------------
# look through naming refactorings: single-assignment locals are substituted by their defining expression
def single_locals(fn: FuncInfo) -> dict:
    """name -> defining expression for the locals of fn bound exactly once by a plain `name = expr` / `name: T = expr`
    (parameters, loop/with/except/comprehension targets, augmented and tuple targets are excluded)."""
    counts: dict = {p: 2 for p in fn.params}
    defs: dict = {}
    for n in walk_no_nested(fn.node):
        if isinstance(n, ast.Assign):
            for t in n.targets:
                if isinstance(t, ast.Name) and len(n.targets) == 1:
                    counts[t.id] = counts.get(t.id, 0) + 1
                    defs[t.id] = n.value
                else:
                    for x in ast.walk(t):
                        if isinstance(x, ast.Name) and isinstance(x.ctx, ast.Store):
                            counts[x.id] = counts.get(x.id, 0) + 2
        elif isinstance(n, ast.AnnAssign) and isinstance(n.target, ast.Name):
            if n.value is not None:
                counts[n.target.id] = counts.get(n.target.id, 0) + 1
                defs[n.target.id] = n.value
        elif isinstance(n, (ast.AugAssign, ast.NamedExpr)):
            for x in ast.walk(n.target):
                if isinstance(x, ast.Name):
                    counts[x.id] = counts.get(x.id, 0) + 2
        elif isinstance(n, (ast.For, ast.AsyncFor, ast.comprehension)):
            for x in ast.walk(n.target):
                if isinstance(x, ast.Name):
                    counts[x.id] = counts.get(x.id, 0) + 2
        elif isinstance(n, (ast.With, ast.AsyncWith)):
            for it in n.items:
                if it.optional_vars is not None:
                    for x in ast.walk(it.optional_vars):
                        if isinstance(x, ast.Name):
                            counts[x.id] = counts.get(x.id, 0) + 2
        elif isinstance(n, ast.ExceptHandler) and n.name:
            counts[n.name] = counts.get(n.name, 0) + 2
        elif isinstance(n, (ast.Global, ast.Nonlocal)):
            for g in n.names:
                counts[g] = counts.get(g, 0) + 2
    return {k: v for k, v in defs.items() if counts.get(k) == 1}


def same_def_locals(fn: FuncInfo) -> dict:
    """name -> expression for locals bound SEVERAL times by plain assignments that all have the same right-hand side (before a
    loop and again inside it, once per branch ...) and by nothing else: symbolically they have one definition."""
    plain: dict = {}
    other: set = set(fn.params)
    for n in walk_no_nested(fn.node):
        if isinstance(n, ast.Assign) and len(n.targets) == 1 and isinstance(n.targets[0], ast.Name):
            plain.setdefault(n.targets[0].id, []).append(n.value)
        elif isinstance(n, (ast.Assign, ast.AugAssign, ast.AnnAssign, ast.For, ast.comprehension, ast.NamedExpr)):
            tg = n.targets if isinstance(n, ast.Assign) else [n.target]
            for t in tg:
                for x in ast.walk(t):
                    if isinstance(x, ast.Name) and isinstance(x.ctx, ast.Store):
                        other.add(x.id)
    return {k: v[0] for k, v in plain.items() if len(v) > 1 and k not in other and len({ast.dump(x) for x in v}) == 1}


def mutated_names(fn: FuncInfo) -> set:
    """Locals whose OBJECT is mutated after binding (subscript/attribute stores, in-place operators, mutator calls):
    substituting their defining expression would lose the mutation."""
    from .model import MUTATORS
    out = set()
    for n in walk_no_nested(fn.node):
        if isinstance(n, (ast.Subscript, ast.Attribute)) and isinstance(n.ctx, (ast.Store, ast.Del)):
            r = n
            while isinstance(r, (ast.Subscript, ast.Attribute)):
                r = r.value
            if isinstance(r, ast.Name):
                out.add(r.id)
        elif isinstance(n, ast.AugAssign) and isinstance(n.target, ast.Name):
            out.add(n.target.id)
        elif isinstance(n, ast.Call) and isinstance(n.func, ast.Attribute) and n.func.attr in MUTATORS \
                and isinstance(n.func.value, ast.Name):
            out.add(n.func.value.id)
    return out


class _Expand(ast.NodeTransformer):
    def __init__(self, defs: dict, skip: set, depth: int = 12):
        self.defs, self.skip, self.depth = defs, skip, depth

    def visit_Name(self, n: ast.Name):
        if isinstance(n.ctx, ast.Load) and n.id in self.defs and n.id not in self.skip and self.depth > 0:
            import copy
            sub = _Expand(self.defs, self.skip | {n.id}, self.depth - 1)
            return sub.visit(copy.deepcopy(self.defs[n.id]))
        return n


def expand(e: ast.AST, defs: dict, skip: Optional[set] = None) -> ast.AST:
    """Copy of expression e with every single-assignment local replaced (recursively) by its defining expression."""
    import copy
    return ast.fix_missing_locations(_Expand(defs, set(skip or ())).visit(copy.deepcopy(e)))


def expander(fn: FuncInfo, keep_mutated: bool = True):
    """f(expr) -> expanded copy, for fn's single-assignment locals (locals mutated in place are kept by name)."""
    defs = single_locals(fn)
    skip = mutated_names(fn) if keep_mutated else set()
    return lambda e: expand(e, defs, skip)


def always_exits(body: List[ast.stmt]) -> bool:
    """Every path through the statement list leaves the enclosing block (return / raise / continue / break)."""
    if not body:
        return False
    last = body[-1]
    if isinstance(last, (ast.Return, ast.Raise, ast.Continue, ast.Break)):
        return True
    if isinstance(last, ast.If):
        return bool(last.orelse) and always_exits(last.body) and always_exits(last.orelse)
    return False


def early_exit_tests(fn: FuncInfo, node: ast.AST) -> List[ast.expr]:
    """Tests T of earlier sibling statements `if T: <always exits>` (no else) that dominate node: on reaching node,
    every such T was false."""
    out: List[ast.expr] = []

    def rec(body: List[ast.stmt], acc: List[ast.expr]) -> bool:
        acc = list(acc)
        for s in body:
            if s is node or any(x is node for x in ast.walk(s)):
                # descend into the statement's own blocks
                for fld in ('body', 'orelse', 'finalbody'):
                    sub = getattr(s, fld, None)
                    if isinstance(sub, list) and sub and isinstance(sub[0], ast.stmt) and \
                            any(x is node for b in sub for x in ast.walk(b)):
                        return rec(sub, acc)
                if isinstance(s, ast.Try):
                    for h in s.handlers:
                        if any(x is node for b in h.body for x in ast.walk(b)):
                            return rec(h.body, acc)
                out.extend(acc)
                return True
            if isinstance(s, ast.If) and not s.orelse and always_exits(s.body):
                acc.append(s.test)
        return False

    rec(fn.node.body, [])
    return out


# ---------------------------------------------------------------------------------------------------------------
class _SubstEnv(ast.NodeTransformer):
    def __init__(self, env: dict):
        self.env = env

    def visit_Name(self, n: ast.Name):
        if isinstance(n.ctx, ast.Load) and n.id in self.env:
            import copy
            return copy.deepcopy(self.env[n.id])
        return n

    def visit_Lambda(self, n):
        return n


def _subst_env(e: ast.AST, env: dict) -> ast.AST:
    import copy
    return ast.fix_missing_locations(_SubstEnv(env).visit(copy.deepcopy(e)))


def cond_values(fn: FuncInfo, stop_at: Optional[ast.AST] = None, limit: int = 64):
    """Symbolic values of fn's locals along every path through its straight-line / if-else code, up to (excluding) the
    statement that contains stop_at (or to the end).  -> [(conditions, {name: fully substituted expression})].

    Conditions are the normalised (substituted) tests, prefixed 'not ' on else edges.  Names bound inside loops / try /
    with blocks are forgotten (their value there is not a single expression).  Paths that return or raise before the
    stop point are dropped.
    """
    class Stop(Exception):
        pass

    def contains(s: ast.AST) -> bool:
        return stop_at is not None and any(x is stop_at for x in ast.walk(s))

    def run(body, paths):
        """-> (paths continuing after body, paths that reached the stop point)"""
        reached = []
        for s in body:
            if not paths:
                break
            if s is stop_at:
                reached.extend(paths)
                return [], reached
            if contains(s) and not isinstance(s, ast.If):
                if isinstance(s, (ast.For, ast.While, ast.Try, ast.With)):
                    killed = {n.id for n in ast.walk(s) if isinstance(n, ast.Name) and isinstance(n.ctx, ast.Store)}
                    paths = [(c, {k: v for k, v in e.items() if k not in killed}) for c, e in paths]
                reached.extend(paths)
                return [], reached
            if isinstance(s, (ast.Assign, ast.AnnAssign)):
                if s.value is None:
                    continue
                tgts = s.targets if isinstance(s, ast.Assign) else [s.target]
                new = []
                for c, e in paths:
                    e = dict(e)
                    v = _subst_env(s.value, e)
                    for t in tgts:
                        if isinstance(t, ast.Name):
                            e[t.id] = v
                        elif isinstance(t, (ast.Tuple, ast.List)):
                            if isinstance(v, (ast.Tuple, ast.List)) and len(v.elts) == len(t.elts):
                                for x, xv in zip(t.elts, v.elts):
                                    if isinstance(x, ast.Name):
                                        e[x.id] = xv
                            elif not any(isinstance(x, ast.Starred) for x in t.elts) and not isinstance(v, ast.Call):
                                # unpacking a sequence-valued expression: component i is <expr>[i]
                                for i_, x in enumerate(t.elts):
                                    if isinstance(x, ast.Name):
                                        e[x.id] = ast.fix_missing_locations(ast.Subscript(value=v, slice=ast.Constant(value=i_), ctx=ast.Load()))
                            else:
                                for x in ast.walk(t):
                                    if isinstance(x, ast.Name):
                                        e.pop(x.id, None)
                        else:
                            r = t
                            while isinstance(r, (ast.Subscript, ast.Attribute)):
                                r = r.value
                            if isinstance(r, ast.Name):
                                e.pop(r.id, None)       # the object changed in place
                    new.append((c, e))
                paths = new
            elif isinstance(s, ast.AugAssign):
                new = []
                for c, e in paths:
                    e = dict(e)
                    if isinstance(s.target, ast.Name):
                        if s.target.id in e:
                            e[s.target.id] = ast.BinOp(left=e[s.target.id], op=s.op, right=_subst_env(s.value, e))
                        else:
                            e.pop(s.target.id, None)
                    new.append((c, e))
                paths = new
            elif isinstance(s, ast.If):
                tpaths, fpaths = [], []
                for c, e in paths:
                    t = norm(_subst_env(s.test, e))
                    tpaths.append((c + (t,), e))
                    fpaths.append((c + ('not ' + t,), e))
                a, ra = run(s.body, tpaths)
                b, rb = run(s.orelse, fpaths) if s.orelse else (fpaths, [])
                reached.extend(ra + rb)
                paths = a + b
                if len(paths) + len(reached) > limit:
                    raise OverflowError('too many paths')
                if contains(s) and not paths:
                    return [], reached
            elif isinstance(s, (ast.Return, ast.Raise, ast.Continue, ast.Break)):
                return [], reached
            elif isinstance(s, (ast.For, ast.While, ast.Try, ast.With)):
                killed = {n.id for n in ast.walk(s) if isinstance(n, ast.Name) and isinstance(n.ctx, ast.Store)}
                paths = [(c, {k: v for k, v in e.items() if k not in killed}) for c, e in paths]
            # other statements (Expr, Assert, Pass, ...) do not bind names
        return paths, reached

    cont, reached = run(fn.node.body, [((), {})])
    return reached if stop_at is not None else cont


# ---------------------------------------------------------------------------------------------------------------
def degree_in(e: ast.AST, sym: str, defs: dict, depth: int = 0) -> Optional[int]:
    """Homogeneity degree of expression e in the scalar `sym` (None: not homogeneous / cannot tell).  Products (scalar,
    elementwise, matrix) add degrees, quotients subtract, sums need equal degrees; transposes, conjugates, slices,
    reshapes, copies and sums over axes keep the degree; single-assignment locals are looked through."""
    if depth > 12:
        return None
    if isinstance(e, ast.Constant):
        return 0
    if isinstance(e, ast.Name):
        if e.id == sym:
            return 1
        if e.id in defs:
            return degree_in(defs[e.id], sym, defs, depth + 1)
        return 0
    if isinstance(e, ast.Attribute):
        if e.attr in ('T', 'real', 'imag', 'H'):
            return degree_in(e.value, sym, defs, depth + 1)
        return 0
    if isinstance(e, ast.Subscript):
        return degree_in(e.value, sym, defs, depth + 1)
    if isinstance(e, ast.UnaryOp):
        return degree_in(e.operand, sym, defs, depth + 1)
    if isinstance(e, ast.BinOp):
        l, r = degree_in(e.left, sym, defs, depth + 1), degree_in(e.right, sym, defs, depth + 1)
        if l is None or r is None:
            return None
        if isinstance(e.op, (ast.Mult, ast.MatMult)):
            return l + r
        if isinstance(e.op, ast.Div):
            return l - r
        if isinstance(e.op, (ast.Add, ast.Sub)):
            return l if l == r else None
        if isinstance(e.op, ast.Pow) and isinstance(e.right, ast.Constant) and isinstance(e.right.value, int):
            return l * e.right.value
        return None if (l or r) else 0
    if isinstance(e, ast.Call):
        mm = matmul_operands(e)
        if mm is not None:
            l, r = degree_in(mm[0], sym, defs, depth + 1), degree_in(mm[1], sym, defs, depth + 1)
            return None if l is None or r is None else l + r
        f = e.func
        name = f.attr if isinstance(f, ast.Attribute) else (f.id if isinstance(f, ast.Name) else '')
        keep = {'transpose', 'conj', 'conjugate', 'copy', 'reshape', 'ravel', 'flatten', 'squeeze', 'astype', 'view', 'sum', 'mean',
                'asarray', 'array', 'real', 'imag', 'trace', 'diag', 'hstack', 'vstack', 'concatenate', 'cast', 'abs', 'norm',
                'expand_dims', 'atleast_1d', 'atleast_2d', 'broadcast_to', 'ascontiguousarray'}
        if name in keep:
            if isinstance(f, ast.Attribute) and not (isinstance(f.value, ast.Name) and f.value.id in ('np', 'numpy', 'math')) \
                    and not norm(f.value).endswith('linalg'):
                return degree_in(f.value, sym, defs, depth + 1)
            args = [a for a in e.args]
            if name == 'cast' and args:
                return degree_in(args[-1], sym, defs, depth + 1)
            ds = {degree_in(a, sym, defs, depth + 1) for a in args[:1]}
            return ds.pop() if len(ds) == 1 else None
        if name == 'sqrt' and e.args:
            d = degree_in(e.args[0], sym, defs, depth + 1)
            return 0 if d == 0 else None
        ds = [degree_in(a, sym, defs, depth + 1) for a in e.args] + [degree_in(k.value, sym, defs, depth + 1) for k in e.keywords]
        return 0 if all(d == 0 for d in ds) else None
    if isinstance(e, (ast.Tuple, ast.List)):
        ds = {degree_in(x, sym, defs, depth + 1) for x in e.elts}
        return ds.pop() if len(ds) == 1 else None
    return None


def defaulted_param_aliases(fn: FuncInfo) -> dict:
    """local -> parameter for the idiom `x = p` followed only by `if x is None: x = <constant>` re-bindings: x is the
    parameter with its default filled in."""
    params = set(fn.params)
    assigns: dict = {}
    for n in walk_no_nested(fn.node):
        if isinstance(n, ast.Assign) and len(n.targets) == 1 and isinstance(n.targets[0], ast.Name):
            assigns.setdefault(n.targets[0].id, []).append(n.value)
        elif isinstance(n, (ast.AugAssign, ast.For)):
            for x in ast.walk(n.target):
                if isinstance(x, ast.Name):
                    assigns.setdefault(x.id, []).append(None)
    out = {}
    for name, vals in assigns.items():
        if name in params or None in vals:
            continue
        src = [v for v in vals if isinstance(v, ast.Name) and v.id in params]
        rest = [v for v in vals if not (isinstance(v, ast.Name) and v.id in params)]
        if len(src) == 1 and all(isinstance(v, ast.Constant) for v in rest):
            out[name] = src[0].id
    return out


def return_dependences(fn: FuncInfo):
    """[(return node, set of sources)]: the data sources (parameter names and dotted attribute chains such as
    'self._x.y') each returned value depends on, through the assignments / augmented and element stores / loop targets
    that PRECEDE the return in source order (flow-insensitive among those; control dependences are not followed).
    `out[a:b] += v` makes `out` depend on a, b and v;  `for i, d in enumerate(X)` makes i and d depend on X;
    `x.m(args)` as a statement (in-place method) makes x depend on the arguments."""
    stmts = stmts_in_order(fn)
    deps: Dict[str, set] = {p: {p} for p in fn.params}

    def sources(e) -> set:
        out = set()
        if e is None:
            return out
        comp_bound = set()
        for x in ast.walk(e):
            if isinstance(x, (ast.ListComp, ast.SetComp, ast.DictComp, ast.GeneratorExp)):
                for g in x.generators:
                    comp_bound |= {t.id for t in ast.walk(g.target) if isinstance(t, ast.Name)}
        skip = set()
        for x in ast.walk(e):
            if id(x) in skip:
                continue
            if isinstance(x, ast.Attribute):
                chain = norm(x)
                root = x
                while isinstance(root, ast.Attribute):
                    root = root.value
                if isinstance(root, ast.Name):
                    for y in ast.walk(x):
                        skip.add(id(y))
                    out.add(chain)
                    if root.id in deps and root.id not in fn.params:
                        # attribute of a local: the local's own sources, each extended by the attribute path
                        tail = chain[len(root.id):]
                        out |= {d + tail for d in deps[root.id]} | deps[root.id]
                    elif root.id in fn.params:
                        out.add(root.id)
            elif isinstance(x, ast.Name) and isinstance(x.ctx, ast.Load) and x.id not in comp_bound:
                out |= deps.get(x.id, set())
        return out

    def bind(target, src: set, weak: bool):
        if isinstance(target, ast.Name):
            deps[target.id] = (deps.get(target.id, set()) | src) if weak else set(src)
        elif isinstance(target, (ast.Tuple, ast.List)):
            for t in target.elts:
                bind(t, src, weak)
        elif isinstance(target, ast.Starred):
            bind(target.value, src, weak)
        elif isinstance(target, (ast.Subscript, ast.Attribute)):
            root = target
            extra = set()
            while isinstance(root, (ast.Subscript, ast.Attribute)):
                if isinstance(root, ast.Subscript):
                    extra |= sources(root.slice)
                root = root.value
            if isinstance(root, ast.Name):
                deps[root.id] = deps.get(root.id, set()) | src | extra

    out = []
    base_deps = dict(deps)
    returns = [s for s in stmts if isinstance(s, ast.Return)]
    for R in returns:
        # only what PRECEDES this return can have produced its value; statements inside loops are visited twice so that
        # loop-carried dependences are seen
        deps.clear()
        deps.update({k: set(v) for k, v in base_deps.items()})
        before = stmts[:stmts.index(R)]
        for it in range(2):
            for s in before:
                if isinstance(s, ast.Assign):
                    src = sources(s.value)
                    for t in s.targets:
                        bind(t, src, weak=it == 1)
                elif isinstance(s, ast.AnnAssign) and s.value is not None:
                    bind(s.target, sources(s.value), weak=it == 1)
                elif isinstance(s, ast.AugAssign):
                    bind(s.target, sources(s.value) | sources(s.target if isinstance(s.target, ast.Name) else None), weak=True)
                elif isinstance(s, (ast.For, ast.AsyncFor)):
                    bind(s.target, sources(s.iter), weak=it == 1)
                elif isinstance(s, ast.With):
                    for w in s.items:
                        if w.optional_vars is not None:
                            bind(w.optional_vars, sources(w.context_expr), weak=it == 1)
                elif isinstance(s, ast.Expr) and isinstance(s.value, ast.Call) and isinstance(s.value.func, ast.Attribute):
                    root = s.value.func.value
                    while isinstance(root, (ast.Subscript, ast.Attribute)):
                        root = root.value
                    if isinstance(root, ast.Name) and root.id in deps and root.id not in fn.params:
                        src = set()
                        for a in list(s.value.args) + [k.value for k in s.value.keywords]:
                            src |= sources(a)
                        deps[root.id] = deps[root.id] | src
        out.append((R, sources(R.value)))
    return out


NONZERO_FAMILY = {'np.nonzero', 'np.flatnonzero', 'numpy.nonzero', 'numpy.flatnonzero'}


def _nonzero_mask(e: ast.AST) -> Optional[ast.AST]:
    """m when e is np.nonzero(m) / np.flatnonzero(m) / np.where(m) / np.nonzero(m)[0] / m.nonzero()."""
    if isinstance(e, ast.Subscript) and const_value(e.slice) == 0:
        inner = _nonzero_mask(e.value)
        if inner is not None and isinstance(e.value, ast.Call) and norm(e.value.func) not in ('np.flatnonzero', 'numpy.flatnonzero'):
            return inner
    if isinstance(e, ast.Call) and not e.keywords:
        f = norm(e.func)
        if f in NONZERO_FAMILY and len(e.args) == 1:
            return e.args[0]
        if f in ('np.where', 'numpy.where', 'np.argwhere') and len(e.args) == 1:
            return e.args[0]
        if isinstance(e.func, ast.Attribute) and e.func.attr == 'nonzero' and not e.args:
            return e.func.value
    return None


class GatherCanon(ast.NodeTransformer):
    """Reduces equivalent spellings of a gather to plain subscripts (see canon_gather)."""

    def visit_Call(self, n):
        self.generic_visit(n)
        f = norm(n.func)
        a = i = None
        axis = None
        if f in ('np.take', 'numpy.take') and len(n.args) >= 2:
            a, i = n.args[0], n.args[1]
            axis = n.args[2] if len(n.args) > 2 else next((k.value for k in n.keywords if k.arg == 'axis'), None)
        elif isinstance(n.func, ast.Attribute) and n.func.attr == 'take' and n.args and f not in ('np.take', 'numpy.take'):
            a, i = n.func.value, n.args[0]
            axis = n.args[1] if len(n.args) > 1 else next((k.value for k in n.keywords if k.arg == 'axis'), None)
        if a is None or any(k.arg not in ('axis',) for k in n.keywords):
            return n
        ax = const_value(axis) if axis is not None else None
        if axis is None or ax == 0:
            sl = i
        elif ax == 1:
            sl = ast.Tuple(elts=[ast.Slice(lower=None, upper=None, step=None), i], ctx=ast.Load())
        elif ax == -1:
            sl = ast.Tuple(elts=[ast.Constant(value=Ellipsis), i], ctx=ast.Load())
        else:
            return n
        return self.visit_Subscript(ast.copy_location(ast.Subscript(value=a, slice=sl, ctx=ast.Load()), n), visited=True)

    @staticmethod
    def _arange_slice(base: ast.AST, idx: ast.AST, axis: int) -> Optional[ast.AST]:
        """s when idx is np.arange(<base>.shape[axis])[s] / np.arange(len(<base>))[s]: indexing with a slice of the identity."""
        if isinstance(idx, ast.Subscript) and isinstance(idx.slice, ast.Slice) and isinstance(idx.value, ast.Call) \
                and norm(idx.value.func) in ('np.arange', 'numpy.arange', 'range') and len(idx.value.args) == 1:
            n = norm(idx.value.args[0]).replace(' ', '')
            b = norm(base).replace(' ', '')
            if n == '%s.shape[%d]' % (b, axis) or (axis == 0 and n in ('len(%s)' % b, '%s.size' % b)) or (axis == -1 and n == '%s.shape[-1]' % b):
                return idx.slice
        return None

    def visit_Subscript(self, n, visited=False):
        if not visited:
            self.generic_visit(n)
        sl = n.slice
        m = _nonzero_mask(sl)
        if m is not None:
            n.slice = m
            return n
        # x[np.arange(k)] / x[np.arange(0, k)]  ->  x[:k]   (the same elements; only the first axis form)
        if isinstance(sl, ast.Call) and norm(sl.func) in ('np.arange', 'numpy.arange') and 1 <= len(sl.args) <= 2 \
                and all(k.arg == 'dtype' and 'int' in norm(k.value) for k in sl.keywords):
            lo = sl.args[0] if len(sl.args) == 2 else None
            if lo is not None and const_value(lo) == 0:
                lo = None
            n.slice = ast.Slice(lower=lo, upper=sl.args[-1], step=None)
            return n
        if isinstance(sl, ast.Subscript):
            m = _nonzero_mask(sl.value)
            if m is not None:
                inner = ast.copy_location(ast.Subscript(value=n.value, slice=m, ctx=ast.Load()), n)
                return ast.copy_location(ast.Subscript(value=inner, slice=sl.slice, ctx=n.ctx), n)
            s0 = self._arange_slice(n.value, sl, 0)
            if s0 is not None:
                n.slice = s0
                return n
        if isinstance(sl, ast.Tuple) and len(sl.elts) == 2 and isinstance(sl.elts[0], ast.Slice) and sl.elts[0].lower is None \
                and sl.elts[0].upper is None and sl.elts[0].step is None:
            s1 = self._arange_slice(n.value, sl.elts[1], 1)
            if s1 is not None:
                sl.elts[1] = s1
        return n


def canon_gather(e: ast.AST) -> ast.AST:
    """A copy of e in which equivalent spellings of a gather are reduced to plain subscripts:
         np.take(a, i) / np.take(a, i, axis=0) / a.take(i)      ->  a[i]          (axis=1: a[:, i];  axis=-1: a[..., i])
         a[np.nonzero(m)] / a[np.flatnonzero(m)] / a[np.where(m)] ->  a[m]
         a[np.flatnonzero(m)[k]]                                  ->  a[m][k]
         a[np.arange(a.shape[0])[s]]                              ->  a[s]          (and the axis-1 form)
         a[np.arange(k)] / a[np.arange(0, k)]                     ->  a[:k]
       (the flat `take` without axis equals a[i] for the 1-D tables it is used on here; see DESIGN 10.3)."""
    import copy as _copy
    out = GatherCanon().visit(_copy.deepcopy(e))
    ast.fix_missing_locations(out)
    return out


def _full_range(e: ast.AST) -> Optional[str]:
    """N (normalised text) when e is range(N) / range(0, N) / np.arange(N) / np.arange(0, N) / list(range(N)) / np.r_[0:N]."""
    if isinstance(e, ast.Call) and norm(e.func) in ('list', 'tuple', 'sorted', 'np.array', 'np.asarray', 'set', 'frozenset') and len(e.args) == 1 and not e.keywords:
        return _full_range(e.args[0])
    if isinstance(e, ast.Call) and norm(e.func) in ('range', 'np.arange', 'numpy.arange') and not e.keywords:
        if len(e.args) == 1:
            return norm(e.args[0]).replace(' ', '')
        if len(e.args) == 2 and const_value(e.args[0]) == 0:
            return norm(e.args[1]).replace(' ', '')
    if isinstance(e, ast.Subscript) and norm(e.value) in ('np.r_', 'numpy.r_') and isinstance(e.slice, ast.Slice) and e.slice.step is None \
            and (e.slice.lower is None or const_value(e.slice.lower) == 0) and e.slice.upper is not None:
        return norm(e.slice.upper).replace(' ', '')
    return None


def all_but_one(e: ast.AST, ex=None):
    """Does e denote the index set {0..N-1} minus {k}?   ('ok', N, k)  |  ('bad', why)  |  None (form not recognised).

    Recognised spellings (ex: optional expander for named pieces):
      [v for v in R if v != k]  (also `k != v`, `not v == k`, `v not in {k}` / `(k,)` / `[k]`; list / set / generator)
      set(R) - {k}, set(R).difference({k}), optionally wrapped in sorted()/list()
      np.flatnonzero(R != k), np.nonzero(R != k)[0], np.where(R != k)[0], R[R != k]
      np.delete(R, k), np.setdiff1d(R, [k])
    with R = range(N) / np.arange(N) / np.arange(0, N) / np.r_[0:N].  A recognised spelling whose test is not "different
    from k" (==, <, >, in) or whose range does not start at 0 is 'bad'."""
    ex = ex or (lambda x: x)
    e = ex(e)
    while isinstance(e, ast.Call) and norm(e.func) in ('list', 'sorted', 'tuple', 'np.array', 'np.asarray', 'np.sort') and len(e.args) == 1 and not e.keywords:
        e = ex(e.args[0])

    def excluded(test, v: str):
        """k when test says `v differs from k`; 'BAD:<why>' when it is another comparison of v; None otherwise."""
        neg = False
        while isinstance(test, ast.UnaryOp) and isinstance(test.op, ast.Not):
            neg = not neg
            test = test.operand
        if not (isinstance(test, ast.Compare) and len(test.ops) == 1):
            return None
        a, op, b = test.left, test.ops[0], test.comparators[0]
        na, nb = norm(a).replace(' ', ''), norm(b).replace(' ', '')
        if isinstance(op, (ast.NotEq, ast.Eq)):
            other = nb if na == v else na if nb == v else None
            if other is None:
                return None
            want_ne = isinstance(op, ast.NotEq) != neg
            return other if want_ne else 'BAD:keeps only the element equal to %s' % other
        if isinstance(op, (ast.NotIn, ast.In)) and na == v and isinstance(b, (ast.Set, ast.Tuple, ast.List)) and len(b.elts) == 1:
            want_ne = isinstance(op, ast.NotIn) != neg
            other = norm(b.elts[0]).replace(' ', '')
            return other if want_ne else 'BAD:keeps only the element equal to %s' % other
        if isinstance(op, (ast.Lt, ast.Gt, ast.LtE, ast.GtE)) and v in (na, nb):
            return 'BAD:selects by order (%s), not by difference' % norm(test)
        return None

    if isinstance(e, (ast.ListComp, ast.SetComp, ast.GeneratorExp)) and len(e.generators) == 1:
        g = e.generators[0]
        if isinstance(g.target, ast.Name) and norm(e.elt) == g.target.id and len(g.ifs) == 1:
            N = _full_range(ex(g.iter))
            k = excluded(g.ifs[0], g.target.id)
            if k is None:
                return None
            if isinstance(k, str) and k.startswith('BAD:'):
                return ('bad', k[4:])
            if N is None:
                it = ex(g.iter)
                if isinstance(it, ast.Call) and norm(it.func) in ('range', 'np.arange') and len(it.args) >= 2:
                    return ('bad', 'the range `%s` does not start at 0' % norm(it))
                return None
            return ('ok', N, k)
        return None
    if isinstance(e, ast.BinOp) and isinstance(e.op, ast.Sub):
        N = _full_range(ex(e.left))
        r = ex(e.right)
        if isinstance(r, ast.Call) and norm(r.func) in ('set', 'frozenset') and len(r.args) == 1 and isinstance(r.args[0], (ast.List, ast.Tuple, ast.Set)):
            r = r.args[0]
        if N is not None and isinstance(r, (ast.Set, ast.List, ast.Tuple)) and len(r.elts) == 1 and isinstance(ex(e.left), ast.Call) \
                and norm(ex(e.left).func) in ('set', 'frozenset'):
            return ('ok', N, norm(r.elts[0]).replace(' ', ''))
        return None
    if isinstance(e, ast.Call) and isinstance(e.func, ast.Attribute) and e.func.attr == 'difference' and len(e.args) == 1:
        N = _full_range(ex(e.func.value))
        r = ex(e.args[0])
        if N is not None and isinstance(r, (ast.Set, ast.List, ast.Tuple)) and len(r.elts) == 1:
            return ('ok', N, norm(r.elts[0]).replace(' ', ''))
        return None
    m = _nonzero_mask(e)
    base = None
    if m is None and isinstance(e, ast.Subscript):
        m, base = ex(e.slice), ex(e.value)
    if m is not None:
        m = ex(m)
        if isinstance(m, ast.Compare) and len(m.ops) == 1:
            for a, b in ((m.left, m.comparators[0]), (m.comparators[0], m.left)):
                N = _full_range(ex(a))
                if N is not None and (base is None or _full_range(base) == N):
                    if isinstance(m.ops[0], ast.NotEq):
                        return ('ok', N, norm(b).replace(' ', ''))
                    return ('bad', 'the mask `%s` is not "different from"' % norm(m))
        return None
    if isinstance(e, ast.Call) and norm(e.func) in ('np.delete', 'numpy.delete') and len(e.args) == 2:
        N = _full_range(ex(e.args[0]))
        if N is not None:
            return ('ok', N, norm(e.args[1]).replace(' ', ''))
    if isinstance(e, ast.Call) and norm(e.func) in ('np.setdiff1d', 'numpy.setdiff1d') and len(e.args) == 2:
        N = _full_range(ex(e.args[0]))
        r = ex(e.args[1])
        if N is not None and isinstance(r, (ast.List, ast.Tuple, ast.Set)) and len(r.elts) == 1:
            return ('ok', N, norm(r.elts[0]).replace(' ', ''))
    return None


UFUNC_OPS = {'np.multiply': ast.Mult, 'np.divide': ast.Div, 'np.true_divide': ast.Div, 'np.add': ast.Add, 'np.subtract': ast.Sub,
             'np.power': ast.Pow, 'np.matmul': ast.MatMult}


def sequential_defs(stmts: List[ast.stmt], defs: Optional[dict] = None) -> dict:
    """{name: expression} after executing the straight-line statements in order, each expression written over the values
    that were live BEFORE the block (names bound in the block are expanded away).  Understands plain assignments, augmented
    assignments (`a /= b` is `a = a / b`), the binary ufuncs with `out=` (`np.divide(a, b, out=a)` is `a = a / b`) and
    `a = np.multiply(x, y)` spelled as a call.  Statements of other kinds are skipped (their targets are dropped)."""
    import copy
    defs = dict(defs or {})

    def call_to_binop(c: ast.AST):
        if isinstance(c, ast.Call) and norm(c.func) in UFUNC_OPS and len(c.args) >= 2 and all(k.arg in ('out',) for k in c.keywords):
            return ast.BinOp(left=c.args[0], op=UFUNC_OPS[norm(c.func)](), right=c.args[1])
        return None

    class U(ast.NodeTransformer):
        def visit_Call(self, c):
            self.generic_visit(c)
            b = call_to_binop(c)
            return ast.copy_location(b, c) if b is not None and not c.keywords else c
    for s in stmts:
        if isinstance(s, ast.Assign) and len(s.targets) == 1 and isinstance(s.targets[0], ast.Name):
            defs[s.targets[0].id] = expand(U().visit(copy.deepcopy(s.value)), defs)
        elif isinstance(s, ast.AugAssign) and isinstance(s.target, ast.Name):
            cur = defs.get(s.target.id, ast.Name(id=s.target.id, ctx=ast.Load()))
            defs[s.target.id] = ast.fix_missing_locations(ast.BinOp(left=copy.deepcopy(cur), op=s.op, right=expand(U().visit(copy.deepcopy(s.value)), defs)))
        elif isinstance(s, ast.Expr) and isinstance(s.value, ast.Call):
            out = next((k.value for k in s.value.keywords if k.arg == 'out'), None)
            b = call_to_binop(s.value)
            if isinstance(out, ast.Name) and b is not None:
                defs[out.id] = expand(ast.fix_missing_locations(copy.deepcopy(b)), defs)
        elif isinstance(s, (ast.Assign, ast.AnnAssign, ast.AugAssign)):
            for t in (s.targets if isinstance(s, ast.Assign) else [s.target]):
                if isinstance(t, ast.Name):
                    defs.pop(t.id, None)
    return defs


def negate(t: ast.AST) -> ast.AST:
    """The logical negation of a test, pushed inwards: not not x = x, De Morgan over and/or, order comparisons flipped
    (`a > b` -> `a <= b`: exact for the real, non-NaN quantities compared here), ==/!=, is/is not, in/not in swapped."""
    import copy
    if isinstance(t, ast.UnaryOp) and isinstance(t.op, ast.Not):
        return copy.deepcopy(t.operand)
    if isinstance(t, ast.BoolOp):
        op = ast.Or() if isinstance(t.op, ast.And) else ast.And()
        return ast.fix_missing_locations(ast.copy_location(ast.BoolOp(op=op, values=[negate(v) for v in t.values]), t))
    if isinstance(t, ast.Compare) and len(t.ops) == 1:
        flip = {ast.Lt: ast.GtE, ast.LtE: ast.Gt, ast.Gt: ast.LtE, ast.GtE: ast.Lt, ast.Eq: ast.NotEq, ast.NotEq: ast.Eq,
                ast.Is: ast.IsNot, ast.IsNot: ast.Is, ast.In: ast.NotIn, ast.NotIn: ast.In}
        return ast.fix_missing_locations(ast.copy_location(ast.Compare(left=copy.deepcopy(t.left), ops=[flip[type(t.ops[0])]()],
                                                                        comparators=copy.deepcopy(t.comparators)), t))
    return ast.fix_missing_locations(ast.copy_location(ast.UnaryOp(op=ast.Not(), operand=copy.deepcopy(t)), t))


def degree_set(e: ast.AST, sym: str, defs: dict, depth: int = 0) -> Optional[set]:
    """The set of homogeneity degrees in `sym` of the additive terms of e ({1}: linear and homogeneous; {0, 1}: affine with
    a constant offset; {2}: quadratic ...).  None when some construct is not understood."""
    if depth > 12:
        return None
    if isinstance(e, ast.BinOp) and isinstance(e.op, (ast.Add, ast.Sub)):
        l, r = degree_set(e.left, sym, defs, depth + 1), degree_set(e.right, sym, defs, depth + 1)
        return None if l is None or r is None else l | r
    if isinstance(e, ast.BinOp) and isinstance(e.op, (ast.Mult, ast.MatMult)):
        l, r = degree_set(e.left, sym, defs, depth + 1), degree_set(e.right, sym, defs, depth + 1)
        return None if l is None or r is None else {a + b for a in l for b in r}
    if isinstance(e, ast.BinOp) and isinstance(e.op, ast.Div):
        l, r = degree_set(e.left, sym, defs, depth + 1), degree_in(e.right, sym, defs, depth + 1)
        return None if l is None or r is None else {a - r for a in l}
    if isinstance(e, ast.Name) and e.id != sym and e.id in defs:
        return degree_set(defs[e.id], sym, defs, depth + 1)
    if isinstance(e, ast.UnaryOp):
        return degree_set(e.operand, sym, defs, depth + 1)
    if isinstance(e, ast.Subscript):
        return degree_set(e.value, sym, defs, depth + 1)
    mm = matmul_operands(e) if isinstance(e, ast.Call) else None
    if mm is not None:
        l, r = degree_set(mm[0], sym, defs, depth + 1), degree_set(mm[1], sym, defs, depth + 1)
        return None if l is None or r is None else {a + b for a in l for b in r}
    d = degree_in(e, sym, defs, depth)
    return None if d is None else {d}


def power_degree(e: ast.AST, deg_of, defs: dict, depth: int = 0):
    """Homogeneity degree (a Fraction) of e in the transmit POWER, given `deg_of(node)` for the leaves that carry one (attributes such
    as the power itself: 1, a power-scaled precoder: 1/2, a unit-norm precoder: 0).  Products add, quotients subtract, sqrt halves,
    norms / conjugates / transposes / slices / principal-component selection keep the degree, sums need equal degrees.  None = no verdict."""
    from fractions import Fraction
    if depth > 14:
        return None
    d0 = deg_of(e)
    if d0 is not None:
        return Fraction(d0)
    if isinstance(e, ast.Constant):
        return Fraction(0)
    if isinstance(e, ast.Name):
        if e.id in defs:
            return power_degree(defs[e.id], deg_of, defs, depth + 1)
        return None
    if isinstance(e, ast.Attribute) and e.attr in ('T', 'real', 'imag', 'H'):
        return power_degree(e.value, deg_of, defs, depth + 1)
    if isinstance(e, ast.Subscript):
        return power_degree(e.value, deg_of, defs, depth + 1)
    if isinstance(e, ast.UnaryOp):
        return power_degree(e.operand, deg_of, defs, depth + 1)
    if isinstance(e, ast.BinOp):
        l, r = power_degree(e.left, deg_of, defs, depth + 1), power_degree(e.right, deg_of, defs, depth + 1)
        if isinstance(e.op, ast.Pow):
            k = const_value(e.right)
            if l is not None and isinstance(k, (int, float)):
                return l * Fraction(k).limit_denominator(16)
            return None
        if l is None or r is None:
            return None
        if isinstance(e.op, (ast.Mult, ast.MatMult)):
            return l + r
        if isinstance(e.op, ast.Div):
            return l - r
        if isinstance(e.op, (ast.Add, ast.Sub)):
            return l if l == r else None
        return None
    if isinstance(e, ast.Call):
        mm = matmul_operands(e)
        if mm is not None:
            l, r = power_degree(mm[0], deg_of, defs, depth + 1), power_degree(mm[1], deg_of, defs, depth + 1)
            return None if l is None or r is None else l + r
        f = e.func
        name = f.attr if isinstance(f, ast.Attribute) else (f.id if isinstance(f, ast.Name) else '')
        if name in ('sqrt',) and e.args:
            d = power_degree(e.args[0], deg_of, defs, depth + 1)
            return None if d is None else d / 2
        keep = {'transpose', 'conj', 'conjugate', 'copy', 'reshape', 'ravel', 'flatten', 'squeeze', 'astype', 'asarray', 'array', 'real', 'abs',
                'norm', 'get_principal_component_matrix', 'cast', 'float'}
        if name in keep:
            if isinstance(f, ast.Attribute) and not (isinstance(f.value, ast.Name) and f.value.id in ('np', 'numpy', 'math')) \
                    and not norm(f.value).endswith('linalg'):
                return power_degree(f.value, deg_of, defs, depth + 1)
            if e.args:
                return power_degree(e.args[-1] if name == 'cast' else e.args[0], deg_of, defs, depth + 1)
        return None
    return None


def loop_progressions(fn: FuncInfo) -> dict:
    """{loop variable: (first value expr, constant step)} for variables that run through an arithmetic progression:
    `for x in range(lo, hi, step)`, `for i, x in enumerate(range(...))` (i: 0, 1), `reversed(range(...))` (step negated), through
    names bound once to such a range."""
    defs = single_locals(fn)
    out = {}

    def prog(e, depth=0):
        if depth > 4:
            return None
        if isinstance(e, ast.Name) and e.id in defs:
            return prog(defs[e.id], depth + 1)
        if isinstance(e, ast.Call) and norm(e.func) in ('list', 'tuple') and len(e.args) == 1:
            return prog(e.args[0], depth + 1)
        if isinstance(e, ast.Call) and norm(e.func) in ('range', 'np.arange') and not e.keywords and 1 <= len(e.args) <= 3:
            lo = e.args[0] if len(e.args) >= 2 else ast.Constant(value=0)
            st = const_value(e.args[2]) if len(e.args) == 3 else 1
            if isinstance(st, int) and st != 0:
                return lo, st
            return None
        if isinstance(e, ast.Call) and norm(e.func) == 'reversed' and len(e.args) == 1:
            p = prog(e.args[0], depth + 1)
            if p is not None:
                return None, -p[1]              # the first value of the reversed range is not needed by the callers
        return None
    for n in walk_no_nested(fn.node):
        if not isinstance(n, ast.For):
            continue
        it, tg = n.iter, n.target
        if isinstance(it, ast.Call) and norm(it.func) == 'enumerate' and len(it.args) == 1 and isinstance(tg, ast.Tuple) and len(tg.elts) == 2:
            if isinstance(tg.elts[0], ast.Name):
                out[tg.elts[0].id] = (ast.Constant(value=0), 1)
            it, tg = it.args[0], tg.elts[1]
        if isinstance(tg, ast.Name):
            p = prog(it)
            if p is not None:
                out[tg.id] = p
    return out


# ---------------------------------------------------------------------------------------------------------------
def order_truth_table(test: ast.AST, var: str, landmarks: List[str]) -> Optional[Dict[str, bool]]:
    """Truth value of a test that touches `var` ONLY through comparisons with the landmarks (texts, assumed to be in strictly ascending
    order, e.g. ['0', 'fft_size']), for each of the 2k+1 order positions of var: 'below <L0>', 'at <L0>', 'between <L0> and <L1>', 'at <L1>',
    'above <L1>' ...  A value the test only looks at through such comparisons has no other property the test could depend on, so the table
    decides the test for EVERY value.  None when the test contains anything else (cannot tell)."""
    from .model import norm
    k = len(landmarks)
    rank = {norm(ast.parse(l, mode='eval').body): 2 * (i + 1) for i, l in enumerate(landmarks)}
    names = []
    for i, l in enumerate(landmarks):
        if i == 0:
            names.append('below %s' % l)
        names.append('at %s' % l)
        names.append('between %s and %s' % (l, landmarks[i + 1]) if i + 1 < k else 'above %s' % l)

    class Unknown_(Exception):
        pass

    def val(e, r):
        s = norm(e)
        if s == var:
            return r
        if s in rank:
            return rank[s]
        raise Unknown_(s)

    def ev(e, r) -> bool:
        if isinstance(e, ast.BoolOp):
            vs = [ev(v, r) for v in e.values]
            return all(vs) if isinstance(e.op, ast.And) else any(vs)
        if isinstance(e, ast.UnaryOp) and isinstance(e.op, ast.Not):
            return not ev(e.operand, r)
        if isinstance(e, ast.Compare):
            items = [e.left] + list(e.comparators)
            out = True
            for a, op, b in zip(items, e.ops, items[1:]):
                x, y = val(a, r), val(b, r)
                if isinstance(op, ast.Lt):
                    c = x < y
                elif isinstance(op, ast.LtE):
                    c = x <= y
                elif isinstance(op, ast.Gt):
                    c = x > y
                elif isinstance(op, ast.GtE):
                    c = x >= y
                elif isinstance(op, ast.Eq):
                    c = x == y
                elif isinstance(op, ast.NotEq):
                    c = x != y
                else:
                    raise Unknown_(type(op).__name__)
                out = out and c
            return out
        raise Unknown_(type(e).__name__)
    table: Dict[str, bool] = {}
    try:
        for r in range(1, 2 * k + 2):
            table[names[r - 1]] = ev(test, r)
    except Unknown_:
        return None
    return table
