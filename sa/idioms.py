"""Idiom rules shared by several properties."""
from __future__ import annotations

import ast
from typing import Iterator, Set, Tuple

from .astutil import stmts_in_order
from .model import FuncInfo, norm, walk_no_nested

NUMERIC_HINTS = ('int', 'float', 'str', 'complex', 'Number')


def _optional_numeric_params(fn: FuncInfo) -> Set[str]:
    a = fn.node.args
    pos = a.posonlyargs + a.args
    defaults = dict(zip([x.arg for x in pos[len(pos) - len(a.defaults):]], a.defaults))
    defaults.update({x.arg: d for x, d in zip(a.kwonlyargs, a.kw_defaults) if d is not None})
    opt = set()
    for p in pos + a.kwonlyargs:
        if p.annotation is None:
            continue
        ann = norm(p.annotation)
        d = defaults.get(p.arg)
        none_default = isinstance(d, ast.Constant) and d.value is None
        if ('Optional[' in ann or 'None' in ann or none_default) and any(t in ann for t in NUMERIC_HINTS) and 'bool' not in ann:
            opt.add(p.arg)
    return opt


def falsy_zero_tests(fn: FuncInfo, lookups: bool = False) -> Iterator[Tuple[ast.AST, str]]:
    """Truthiness tests (`if p` / `if not p` / `p or default` / `x if p else y`) on
      * parameters annotated Optional[<numeric or str>] (or numeric with a None default), while they still hold the raw
        argument (uses in or before the first statement that rebinds them), and
      * (lookups=True) values obtained with `<mapping>.get(key)` without a default (directly, or through a local bound
        once to such a call):
    they conflate the legal value 0 (or '') with None / absence."""
    opt = _optional_numeric_params(fn)
    order = {id(s): i for i, s in enumerate(stmts_in_order(fn))}
    first_rebind = {}
    got = {}
    for s in stmts_in_order(fn):
        if isinstance(s, (ast.Assign, ast.AnnAssign, ast.AugAssign)):
            tg = s.targets if isinstance(s, ast.Assign) else [s.target]
            for t in tg:
                for x in ast.walk(t):
                    if isinstance(x, ast.Name) and isinstance(x.ctx, ast.Store):
                        first_rebind.setdefault(x.id, order[id(s)])
            v = getattr(s, 'value', None)
            if lookups and isinstance(s, ast.Assign) and len(s.targets) == 1 and isinstance(s.targets[0], ast.Name) and _is_plain_get(v):
                got.setdefault(s.targets[0].id, []).append(order[id(s)])
    single_got = {k for k, v in got.items() if len(v) == 1 and first_rebind.get(k) == v[0]}
    if not opt and not (lookups and (single_got or any(_is_plain_get(n) for n in ast.walk(fn.node)))):
        return

    def stmt_index(node: ast.AST) -> int:
        best = -1
        for s in stmts_in_order(fn):
            if isinstance(s, (ast.FunctionDef, ast.AsyncFunctionDef, ast.ClassDef)):
                continue
            own = [s]
            for fld, v in ast.iter_fields(s):
                if fld in ('body', 'orelse', 'finalbody', 'handlers'):
                    continue
                for x in (v if isinstance(v, list) else [v]):
                    if isinstance(x, ast.AST):
                        own.extend(ast.walk(x))
            if any(x is node for x in own):
                best = order[id(s)]
        return best

    for n in walk_no_nested(fn.node):
        tests = []
        if isinstance(n, (ast.If, ast.While, ast.IfExp)):
            tests.append(n.test)
        elif isinstance(n, ast.BoolOp):
            tests.extend(n.values[:-1])
        for t in tests:
            cands = [t]
            if isinstance(t, ast.BoolOp):
                cands = list(t.values)
            for u in cands:
                while isinstance(u, ast.UnaryOp) and isinstance(u.op, ast.Not):
                    u = u.operand
                if isinstance(u, ast.Name) and u.id in opt:
                    i = stmt_index(u)
                    if u.id not in first_rebind or i <= first_rebind[u.id]:
                        yield n, u.id
                elif lookups and isinstance(u, ast.Name) and u.id in single_got:
                    yield n, u.id + ' (= mapping.get(...))'
                elif lookups and _is_plain_get(u):
                    yield n, norm(u)[:40]


def _is_plain_get(v) -> bool:
    return isinstance(v, ast.Call) and isinstance(v.func, ast.Attribute) and v.func.attr == 'get' and len(v.args) == 1 and not v.keywords


def check_falsy_zero(ctx, rule: str, module_paths, floor: int) -> int:
    """One instance per function of the modules that has an Optional numeric/str parameter."""
    M = ctx.model
    ctx.rule(rule, 'Optional numeric parameters are tested with `is None`, never by truthiness (`if p`, `p or default`): 0 is a legal '
                   'value and must not be treated like "not given"', floor=floor)
    n = 0
    for path in module_paths:
        mod = M.module(path)
        fns = list(mod.functions.values())
        for c in mod.classes.values():
            fns += list(c.methods.values()) + list(c.setters.values())
        for fn in fns:
            if not _optional_numeric_params(fn):
                continue
            construct = fn.qualname
            ctx.instance(rule, construct)
            n += 1
            hits = list(falsy_zero_tests(fn))
            ctx.obligation(rule, construct, not hits, {'tested_by_truthiness': [h[1] for h in hits]} if hits else None, nontrivial=bool(hits))
            for node, name in hits[:1]:
                ctx.violation(rule, construct, 'parameter `%s` (Optional numeric) is tested by truthiness in `%s`: the legal value 0 is '
                              'silently replaced by the default' % (name, norm(node.test if hasattr(node, 'test') else node)[:60]),
                              fn.path, node.lineno, operand=name)
    return n


# ---------------------------------------------------------------------------------------------------------------
# in-place modification of an argument (intraprocedural, alias-aware)
NO_COPY_CALLS = {'np.asarray', 'np.asanyarray', 'numpy.asarray', 'np.ravel', 'np.reshape', 'np.squeeze', 'np.transpose', 'np.atleast_1d',
                 'np.atleast_2d', 'np.real', 'np.imag'}
VIEW_ATTRS = {'T', 'real', 'imag', 'flat'}
VIEW_METHODS = {'reshape', 'ravel', 'view', 'squeeze', 'transpose', 'swapaxes', 'diagonal'}
INPLACE_METHODS = {'sort', 'fill', 'resize', 'put', 'itemset', 'partition', 'setfield', 'byteswap'}


def param_mutations(fn: FuncInfo, ignore=('self', 'cls')):
    """(node, parameter, what) for statements that modify, in place, an object passed in as an argument: augmented
    assignment to the parameter or to a no-copy alias / view of it (`t = p`, `p.reshape(..)`, `p[..]`, `np.asarray(p)`),
    element / attribute stores through it, `out=p`, in-place ndarray methods.  A parameter that was rebound to a fresh
    object first (`p = np.array(p)`, `p = p.copy()`, any other expression) is no longer the caller's object."""
    params = [p for p in fn.params if p not in ignore]
    alias = {p: (p, True) for p in params}   # local name -> (parameter it aliases, same OBJECT (True) or a view object (False))

    def root_alias2(e):
        """(parameter, same_object) aliased by expression e, or None.  A slice / reshape / .T is a NEW ndarray object over
        the same data: writing its elements writes the caller's data, re-shaping IT does not touch the caller's object."""
        same = True
        while True:
            if isinstance(e, ast.Name):
                a = alias.get(e.id)
                return (a[0], a[1] and same) if a else None
            if isinstance(e, ast.Subscript):
                e, same = e.value, False
                continue
            if isinstance(e, ast.Attribute) and e.attr in VIEW_ATTRS:
                e, same = e.value, False
                continue
            if isinstance(e, ast.Call) and isinstance(e.func, ast.Attribute) and e.func.attr in VIEW_METHODS and not \
                    (isinstance(e.func.value, ast.Name) and e.func.value.id in ('np', 'numpy')):
                e, same = e.func.value, False
                continue
            if isinstance(e, ast.Call) and norm(e.func) in NO_COPY_CALLS and e.args:
                # np.asarray(p, dtype=...) copies only if the dtype differs: may be the very same object
                same = same and norm(e.func) in ('np.asarray', 'np.asanyarray', 'numpy.asarray')
                e = e.args[0]
                continue
            return None

    def root_alias(e):
        r = root_alias2(e)
        return r[0] if r else None

    for s in stmts_in_order(fn):
        if isinstance(s, (ast.FunctionDef, ast.AsyncFunctionDef, ast.ClassDef)):
            continue
        # effects of this statement's own expressions
        own = []
        for fld, v in ast.iter_fields(s):
            if fld in ('body', 'orelse', 'finalbody', 'handlers'):
                continue
            for x in (v if isinstance(v, list) else [v]):
                if isinstance(x, ast.AST):
                    own.extend(ast.walk(x))
        for n in own:
            if isinstance(n, ast.Call):
                for k in n.keywords:
                    if k.arg == 'out':
                        p = root_alias(k.value)
                        if p:
                            yield n, p, 'writes into it through `out=%s`' % norm(k.value)
                if isinstance(n.func, ast.Attribute) and n.func.attr in INPLACE_METHODS:
                    p = root_alias(n.func.value)
                    if p:
                        yield n, p, 'in-place method `%s`' % norm(n.func)
        if isinstance(s, ast.AugAssign):
            p = root_alias(s.target)
            if p:
                yield s, p, 'augmented assignment `%s` (in place for arrays)' % norm(s)[:60]
        elif isinstance(s, (ast.Assign, ast.AnnAssign)):
            tg = s.targets if isinstance(s, ast.Assign) else [s.target]
            for t in tg:
                for x in (t.elts if isinstance(t, (ast.Tuple, ast.List)) else [t]):
                    if isinstance(x, ast.Subscript):
                        p = root_alias(x.value)
                        if p:
                            yield s, p, 'element store through it: `%s`' % norm(x)[:50]
                    elif isinstance(x, ast.Attribute) and x.attr in ('shape', 'dtype', 'real', 'imag', 'flat', 'strides'):
                        # array metadata: only when the object itself (not a view object of it) is re-shaped / re-typed;
                        # other attribute stores are field updates of ordinary objects, not array modifications
                        r = root_alias2(x.value)
                        if r and (r[1] or x.attr in ('real', 'imag', 'flat')):
                            yield s, r[0], 'changes `%s` of the caller\'s array object' % norm(x)[:50]
            # alias bookkeeping: plain rebinding
            v = getattr(s, 'value', None)
            for t in tg:
                if isinstance(t, ast.Name) and v is not None:
                    src = root_alias2(v)
                    if src is not None:
                        alias[t.id] = src
                    else:
                        alias.pop(t.id, None)
                elif isinstance(t, (ast.Tuple, ast.List)):
                    for x in t.elts:
                        if isinstance(x, ast.Name):
                            alias.pop(x.id, None)
        elif isinstance(s, (ast.For, ast.AsyncFor)):
            for x in ast.walk(s.target):
                if isinstance(x, ast.Name):
                    alias.pop(x.id, None)


def check_input_immutability(ctx, rule: str, functions, floor: int, allowed=None) -> int:
    """functions: iterable of FuncInfo.  allowed: {(qualname, param): reason} for documented in-place APIs."""
    ctx.rule(rule, 'a function of the public numeric API does not modify, in place, an array it was given (augmented assignment / element '
                   'store / out= / in-place methods on the parameter or on a no-copy alias or view of it)', floor=floor)
    allowed = allowed or {}
    n = 0
    for fn in functions:
        params = [p for p in fn.params if p not in ('self', 'cls')]
        if not params:
            continue
        construct = fn.qualname
        ctx.instance(rule, construct)
        n += 1
        hits = [(node, p, what) for node, p, what in param_mutations(fn) if (fn.qualname, p) not in allowed]
        ctx.obligation(rule, construct, not hits, {'modified_arguments': [(p, w) for _, p, w in hits]} if hits else None, nontrivial=bool(hits))
        for node, p, what in hits[:1]:
            ctx.violation(rule, construct, 'the argument `%s` is modified in place: %s; the caller\'s array changes behind its back '
                          '(a second call with the same array, or any later use of it, sees different values)' % (p, what),
                          fn.path, node.lineno, operand='arg:' + p)
    return n


def public_api(model, module_paths, include=None, exclude=(), constructors: bool = False):
    """Public module-level functions and public methods (no leading underscore) of the modules; `include` (a set of bare
    names) restricts the selection."""
    out = []
    for path in module_paths:
        mod = model.module(path)
        fns = list(mod.functions.values())
        for c in mod.classes.values():
            fns += list(c.methods.values())
        for fn in fns:
            if (fn.name.startswith('_') and not (constructors and fn.name == '__init__')) or fn.qualname in exclude or fn.name in exclude:
                continue
            if include is not None and fn.name not in include:
                continue
            out.append(fn)
    return out


# ---------------------------------------------------------------------------------------------------------------
def escaping_attrs(model, cls) -> dict:
    """attr -> accessor qualname for attributes handed out BY REFERENCE: `return self.attr` in a public method / getter."""
    out = {}
    for k in model.mro(cls):
        for d in (k.methods, k.getters):
            for f in d.values():
                if f.self_name is None or (f.name.startswith('_') and d is k.methods):
                    continue
                for n in walk_no_nested(f.node):
                    if isinstance(n, ast.Return) and n.value is not None:
                        from .model import is_self_attr
                        a = is_self_attr(n.value, f.self_name)
                        if a:
                            out.setdefault(a, f.qualname)
    return out


def inplace_writes_of_attr(model, cls, attr: str):
    """(fn, node, what): in-place array writes to self.<attr> anywhere in the class family (subscript store, augmented
    assignment, out=, in-place ndarray methods).  Rebinding `self.attr = <new object>` is not one."""
    from .model import is_self_attr
    for k in model.mro(cls):
        for d in (k.methods, k.getters, k.setters):
            for f in d.values():
                sn = f.self_name
                if sn is None:
                    continue
                for n in walk_no_nested(f.node):
                    if isinstance(n, ast.AugAssign) and is_self_attr(n.target, sn) == attr:
                        yield f, n, 'augmented assignment `%s`' % norm(n)[:60]
                    elif isinstance(n, ast.AugAssign) and isinstance(n.target, ast.Subscript) and is_self_attr(n.target.value, sn) == attr:
                        yield f, n, 'augmented element assignment `%s`' % norm(n)[:60]
                    elif isinstance(n, ast.Subscript) and isinstance(n.ctx, ast.Store) and is_self_attr(n.value, sn) == attr:
                        yield f, n, 'element store `%s`' % norm(n)[:60]
                    elif isinstance(n, ast.Call):
                        for kw in n.keywords:
                            if kw.arg == 'out' and is_self_attr(kw.value, sn) == attr:
                                yield f, n, 'written through `out=%s`' % norm(kw.value)
                        if isinstance(n.func, ast.Attribute) and n.func.attr in INPLACE_METHODS - {'sort'} and is_self_attr(n.func.value, sn) == attr:
                            yield f, n, 'in-place method `%s`' % norm(n.func)


def check_escaping_not_mutated(ctx, rule: str, class_names, floor: int, allowed=None) -> int:
    ctx.rule(rule, 'an array attribute that a public accessor hands out by reference is only ever REBOUND to a new array, never written in '
                   'place: results the caller still holds must not change when the object is used again', floor=floor)
    M = ctx.model
    allowed = allowed or {}
    n = 0
    for cname in class_names:
        cls = M.cls(cname)
        for attr, acc in sorted(escaping_attrs(M, cls).items()):
            construct = '%s.%s' % (cname, attr)
            ctx.instance(rule, construct)
            n += 1
            hits = [h for h in inplace_writes_of_attr(M, cls, attr) if (h[0].qualname, attr) not in allowed]
            ctx.obligation(rule, construct, not hits, {'handed_out_by': acc, 'in_place_writes': [(h[0].qualname, h[2]) for h in hits]} if hits else {'handed_out_by': acc},
                           nontrivial=bool(hits))
            for f, node, what in hits[:1]:
                ctx.violation(rule, f.qualname, 'self.%s is handed out by reference by %s and is written in place here (%s): an array obtained '
                              'earlier changes when the object is used again' % (attr, acc, what), f.path, node.lineno, operand='escaping:' + attr)
    return n


# ---------------------------------------------------------------------------------------------------------------
def filtered_position_indexing(fn: FuncInfo):
    """(node, index name, list name): a POSITION in a list that was filled under a condition (a filtered selection of the
    outer loop's indices) is used to subscript an attribute container of self.  Position i of such a list is the i-th
    SELECTED element, not element i of the container: the two coincide only when the selected ones come first."""
    sn = fn.self_name
    if sn is None:
        return
    from .model import is_self_attr
    # lists appended to inside an `if` inside a loop
    filtered = set()
    for loop in walk_no_nested(fn.node):
        if not isinstance(loop, (ast.For, ast.While)):
            continue
        for cond in ast.walk(loop):
            if not isinstance(cond, ast.If):
                continue
            for n in ast.walk(cond):
                if isinstance(n, ast.Call) and isinstance(n.func, ast.Attribute) and n.func.attr == 'append' and isinstance(n.func.value, ast.Name):
                    filtered.add(n.func.value.id)
    if not filtered:
        return
    for loop in walk_no_nested(fn.node):
        if not isinstance(loop, ast.For):
            continue
        pos_vars = {}
        it = loop.iter
        if isinstance(it, ast.Call) and norm(it.func) == 'enumerate' and it.args and isinstance(it.args[0], ast.Name) and it.args[0].id in filtered \
                and isinstance(loop.target, ast.Tuple) and isinstance(loop.target.elts[0], ast.Name):
            pos_vars[loop.target.elts[0].id] = it.args[0].id
        if isinstance(it, ast.Call) and norm(it.func) == 'range' and len(it.args) == 1 and isinstance(it.args[0], ast.Call) \
                and norm(it.args[0].func) == 'len' and it.args[0].args and isinstance(it.args[0].args[0], ast.Name) \
                and it.args[0].args[0].id in filtered and isinstance(loop.target, ast.Name):
            pos_vars[loop.target.id] = it.args[0].args[0].id
        if not pos_vars:
            continue
        for n in ast.walk(loop):
            if isinstance(n, ast.Subscript) and isinstance(n.slice, ast.Name) and n.slice.id in pos_vars:
                base = n.value
                a = is_self_attr(base, sn)
                if a is not None:
                    yield n, n.slice.id, pos_vars[n.slice.id]


def check_filtered_positions(ctx, rule: str, module_paths, floor: int = 0) -> int:
    ctx.rule(rule, 'a position in a conditionally filled (filtered) list is never used as an index into the per-user containers of the '
                   'object (position i is the i-th SELECTED user, not user i)', floor=floor)
    M = ctx.model
    n = 0
    for path in module_paths:
        mod = M.module(path)
        for c in mod.classes.values():
            for fn in list(c.methods.values()):
                has_filtered = any(True for _ in [0]) and any(isinstance(x, ast.Call) and isinstance(x.func, ast.Attribute) and x.func.attr == 'append'
                                                              for x in ast.walk(fn.node))
                if not has_filtered or fn.self_name is None:
                    continue
                hits = list(filtered_position_indexing(fn))
                loops = [l for l in walk_no_nested(fn.node) if isinstance(l, ast.For)]
                if not loops:
                    continue
                construct = fn.qualname
                ctx.instance(rule, construct)
                n += 1
                ctx.obligation(rule, construct, not hits, {'position_used_as_index': [(norm(h[0])[:40], h[2]) for h in hits]} if hits else None,
                               nontrivial=bool(hits))
                for node, var, lst in hits[:1]:
                    ctx.violation(rule, construct, '`%s` is subscripted with `%s`, a position in the filtered list `%s`: the filter of user %s[i] '
                                  'is applied to user i' % (norm(node.value), var, lst, lst), fn.path, node.lineno, operand='position:' + var)
    return n
