"""Idiom rules shared by several properties."""
from __future__ import annotations

import ast
from typing import Dict, Iterator, List, Optional, Set, Tuple

from .astutil import stmts_in_order
from .model import FuncInfo, is_self_attr, norm, walk_no_nested

NUMERIC_HINTS = ('int', 'float', 'str', 'complex', 'Number')


def _optional_numeric_params(fn: FuncInfo, plain_float: bool = False) -> Set[str]:
    """parameters annotated Optional[<numeric or str>] (or numeric with a None default); with plain_float also the
    parameters annotated exactly `float`: the truth value of a real quantity is `!= 0.0`, which singles out one legal value."""
    a = fn.node.args
    pos = a.posonlyargs + a.args
    defaults = dict(zip([x.arg for x in pos[len(pos) - len(a.defaults):]], a.defaults))
    defaults.update({x.arg: d for x, d in zip(a.kwonlyargs, a.kw_defaults) if d is not None})
    opt = set()
    for p in pos + a.kwonlyargs:
        if p.annotation is None:
            continue
        ann = norm(p.annotation)
        d = defaults.get(p.arg)
        none_default = isinstance(d, ast.Constant) and d.value is None
        if ('Optional[' in ann or 'None' in ann or none_default) and any(t in ann for t in NUMERIC_HINTS) and 'bool' not in ann:
            opt.add(p.arg)
        elif plain_float and ann == 'float':
            opt.add(p.arg)
    return opt


def falsy_zero_tests(fn: FuncInfo, lookups: bool = False, plain_float: bool = False) -> Iterator[Tuple[ast.AST, str]]:
    """Truthiness tests (`if p` / `if not p` / `p or default` / `x if p else y`) on
      * parameters annotated Optional[<numeric or str>] (or numeric with a None default), while they still hold the raw
        argument (uses in or before the first statement that rebinds them), and
      * (lookups=True) values obtained with `<mapping>.get(key)` without a default (directly, or through a local bound
        once to such a call):
    they conflate the legal value 0 (or '') with None / absence."""
    opt = _optional_numeric_params(fn, plain_float)
    order = {id(s): i for i, s in enumerate(stmts_in_order(fn))}
    first_rebind = {}
    got = {}
    for s in stmts_in_order(fn):
        if isinstance(s, (ast.Assign, ast.AnnAssign, ast.AugAssign)):
            tg = s.targets if isinstance(s, ast.Assign) else [s.target]
            for t in tg:
                for x in ast.walk(t):
                    if isinstance(x, ast.Name) and isinstance(x.ctx, ast.Store):
                        first_rebind.setdefault(x.id, order[id(s)])
            v = getattr(s, 'value', None)
            if lookups and isinstance(s, ast.Assign) and len(s.targets) == 1 and isinstance(s.targets[0], ast.Name) and _is_plain_get(v):
                got.setdefault(s.targets[0].id, []).append(order[id(s)])
    single_got = {k for k, v in got.items() if len(v) == 1 and first_rebind.get(k) == v[0]}
    if not opt and not (lookups and (single_got or any(_is_plain_get(n) for n in ast.walk(fn.node)))):
        return

    def stmt_index(node: ast.AST) -> int:
        best = -1
        for s in stmts_in_order(fn):
            if isinstance(s, (ast.FunctionDef, ast.AsyncFunctionDef, ast.ClassDef)):
                continue
            own = [s]
            for fld, v in ast.iter_fields(s):
                if fld in ('body', 'orelse', 'finalbody', 'handlers'):
                    continue
                for x in (v if isinstance(v, list) else [v]):
                    if isinstance(x, ast.AST):
                        own.extend(ast.walk(x))
            if any(x is node for x in own):
                best = order[id(s)]
        return best

    for n in walk_no_nested(fn.node):
        tests = []
        if isinstance(n, (ast.If, ast.While, ast.IfExp)):
            tests.append(n.test)
        elif isinstance(n, ast.BoolOp):
            tests.extend(n.values[:-1])
        for t in tests:
            cands = [t]
            if isinstance(t, ast.BoolOp):
                cands = list(t.values)
            for u in cands:
                while isinstance(u, ast.UnaryOp) and isinstance(u.op, ast.Not):
                    u = u.operand
                if isinstance(u, ast.Name) and u.id in opt:
                    i = stmt_index(u)
                    if u.id not in first_rebind or i <= first_rebind[u.id]:
                        yield n, u.id
                elif lookups and isinstance(u, ast.Name) and u.id in single_got:
                    yield n, u.id + ' (= mapping.get(...))'
                elif lookups and _is_plain_get(u):
                    yield n, norm(u)[:40]


def _is_plain_get(v) -> bool:
    return isinstance(v, ast.Call) and isinstance(v.func, ast.Attribute) and v.func.attr == 'get' and len(v.args) == 1 and not v.keywords


def check_falsy_zero(ctx, rule: str, module_paths, floor: int, plain_float: bool = False) -> int:
    """One instance per function of the modules that has an Optional numeric/str parameter."""
    M = ctx.model
    ctx.rule(rule, 'Optional numeric parameters are tested with `is None`, never by truthiness (`if p`, `p or default`): 0 is a legal '
                   'value and must not be treated like "not given"', floor=floor)
    n = 0
    for path in module_paths:
        mod = M.module(path)
        fns = list(mod.functions.values())
        for c in mod.classes.values():
            fns += list(c.methods.values()) + list(c.setters.values())
        for fn in fns:
            if not _optional_numeric_params(fn, plain_float):
                continue
            construct = fn.qualname
            ctx.instance(rule, construct)
            n += 1
            hits = list(falsy_zero_tests(fn, plain_float=plain_float))
            ctx.obligation(rule, construct, not hits, {'tested_by_truthiness': [h[1] for h in hits]} if hits else None, nontrivial=bool(hits))
            for node, name in hits[:1]:
                ctx.violation(rule, construct, 'parameter `%s` (numeric) is tested by truthiness in `%s`: the legal value 0 is '
                              'silently replaced by the default' % (name, norm(node.test if hasattr(node, 'test') else node)[:60]),
                              fn.path, node.lineno, operand=name)
    return n


# ---------------------------------------------------------------------------------------------------------------
# in-place modification of an argument (intraprocedural, alias-aware)
NO_COPY_CALLS = {'np.asarray', 'np.asanyarray', 'numpy.asarray', 'np.ravel', 'np.reshape', 'np.squeeze', 'np.transpose', 'np.atleast_1d',
                 'np.atleast_2d', 'np.real', 'np.imag'}
VIEW_ATTRS = {'T', 'real', 'imag', 'flat'}
VIEW_METHODS = {'reshape', 'ravel', 'view', 'squeeze', 'transpose', 'swapaxes', 'diagonal'}
INPLACE_METHODS = {'sort', 'fill', 'resize', 'put', 'itemset', 'partition', 'setfield', 'byteswap'}


def param_mutations(fn: FuncInfo, ignore=('self', 'cls')):
    """(node, parameter, what) for statements that modify, in place, an object passed in as an argument: augmented
    assignment to the parameter or to a no-copy alias / view of it (`t = p`, `p.reshape(..)`, `p[..]`, `np.asarray(p)`),
    element / attribute stores through it, `out=p`, in-place ndarray methods.  A parameter that was rebound to a fresh
    object first (`p = np.array(p)`, `p = p.copy()`, any other expression) is no longer the caller's object."""
    params = [p for p in fn.params if p not in ignore]
    alias = {p: (p, True) for p in params}   # local name -> (parameter it aliases, same OBJECT (True) or a view object (False))

    def root_alias2(e):
        """(parameter, same_object) aliased by expression e, or None.  A slice / reshape / .T is a NEW ndarray object over
        the same data: writing its elements writes the caller's data, re-shaping IT does not touch the caller's object."""
        same = True
        while True:
            if isinstance(e, ast.Name):
                a = alias.get(e.id)
                return (a[0], a[1] and same) if a else None
            if isinstance(e, ast.Subscript):
                e, same = e.value, False
                continue
            if isinstance(e, ast.Attribute) and e.attr in VIEW_ATTRS:
                e, same = e.value, False
                continue
            if isinstance(e, ast.Call) and isinstance(e.func, ast.Attribute) and e.func.attr in VIEW_METHODS and not \
                    (isinstance(e.func.value, ast.Name) and e.func.value.id in ('np', 'numpy')):
                e, same = e.func.value, False
                continue
            if isinstance(e, ast.Call) and norm(e.func) in NO_COPY_CALLS and e.args:
                # np.asarray(p, dtype=...) copies only if the dtype differs: may be the very same object
                same = same and norm(e.func) in ('np.asarray', 'np.asanyarray', 'numpy.asarray')
                e = e.args[0]
                continue
            return None

    def root_alias(e):
        r = root_alias2(e)
        return r[0] if r else None

    for s in stmts_in_order(fn):
        if isinstance(s, (ast.FunctionDef, ast.AsyncFunctionDef, ast.ClassDef)):
            continue
        # effects of this statement's own expressions
        own = []
        for fld, v in ast.iter_fields(s):
            if fld in ('body', 'orelse', 'finalbody', 'handlers'):
                continue
            for x in (v if isinstance(v, list) else [v]):
                if isinstance(x, ast.AST):
                    own.extend(ast.walk(x))
        for n in own:
            if isinstance(n, ast.Call):
                for k in n.keywords:
                    if k.arg == 'out':
                        p = root_alias(k.value)
                        if p:
                            yield n, p, 'writes into it through `out=%s`' % norm(k.value)
                if isinstance(n.func, ast.Attribute) and n.func.attr in INPLACE_METHODS:
                    p = root_alias(n.func.value)
                    if p:
                        yield n, p, 'in-place method `%s`' % norm(n.func)
        if isinstance(s, ast.AugAssign):
            p = root_alias(s.target)
            if p:
                yield s, p, 'augmented assignment `%s` (in place for arrays)' % norm(s)[:60]
        elif isinstance(s, (ast.Assign, ast.AnnAssign)):
            tg = s.targets if isinstance(s, ast.Assign) else [s.target]
            for t in tg:
                for x in (t.elts if isinstance(t, (ast.Tuple, ast.List)) else [t]):
                    if isinstance(x, ast.Subscript):
                        p = root_alias(x.value)
                        if p:
                            yield s, p, 'element store through it: `%s`' % norm(x)[:50]
                    elif isinstance(x, ast.Attribute) and x.attr in ('shape', 'dtype', 'real', 'imag', 'flat', 'strides'):
                        # array metadata: only when the object itself (not a view object of it) is re-shaped / re-typed;
                        # other attribute stores are field updates of ordinary objects, not array modifications
                        r = root_alias2(x.value)
                        if r and (r[1] or x.attr in ('real', 'imag', 'flat')):
                            yield s, r[0], 'changes `%s` of the caller\'s array object' % norm(x)[:50]
            # alias bookkeeping: plain rebinding
            v = getattr(s, 'value', None)
            for t in tg:
                if isinstance(t, ast.Name) and v is not None:
                    src = root_alias2(v)
                    if src is not None:
                        alias[t.id] = src
                    else:
                        alias.pop(t.id, None)
                elif isinstance(t, (ast.Tuple, ast.List)):
                    for x in t.elts:
                        if isinstance(x, ast.Name):
                            alias.pop(x.id, None)
        elif isinstance(s, (ast.For, ast.AsyncFor)):
            for x in ast.walk(s.target):
                if isinstance(x, ast.Name):
                    alias.pop(x.id, None)


def check_input_immutability(ctx, rule: str, functions, floor: int, allowed=None) -> int:
    """functions: iterable of FuncInfo.  allowed: {(qualname, param): reason} for documented in-place APIs."""
    ctx.rule(rule, 'a function of the public numeric API does not modify, in place, an array it was given (augmented assignment / element '
                   'store / out= / in-place methods on the parameter or on a no-copy alias or view of it)', floor=floor)
    allowed = allowed or {}
    n = 0
    for fn in functions:
        params = [p for p in fn.params if p not in ('self', 'cls')]
        if not params:
            continue
        construct = fn.qualname
        ctx.instance(rule, construct)
        n += 1
        hits = [(node, p, what) for node, p, what in param_mutations(fn) if (fn.qualname, p) not in allowed]
        ctx.obligation(rule, construct, not hits, {'modified_arguments': [(p, w) for _, p, w in hits]} if hits else None, nontrivial=bool(hits))
        for node, p, what in hits[:1]:
            ctx.violation(rule, construct, 'the argument `%s` is modified in place: %s; the caller\'s array changes behind its back '
                          '(a second call with the same array, or any later use of it, sees different values)' % (p, what),
                          fn.path, node.lineno, operand='arg:' + p)
    return n


def public_api(model, module_paths, include=None, exclude=(), constructors: bool = False):
    """Public module-level functions and public methods (no leading underscore) of the modules; `include` (a set of bare
    names) restricts the selection."""
    out = []
    for path in module_paths:
        mod = model.module(path)
        fns = list(mod.functions.values())
        for c in mod.classes.values():
            fns += list(c.methods.values())
        for fn in fns:
            if (fn.name.startswith('_') and not (constructors and fn.name == '__init__')) or fn.qualname in exclude or fn.name in exclude:
                continue
            if include is not None and fn.name not in include:
                continue
            out.append(fn)
    return out


# ---------------------------------------------------------------------------------------------------------------
def escaping_attrs(model, cls) -> dict:
    """attr -> accessor qualname for attributes handed out BY REFERENCE: `return self.attr` in a public method / getter."""
    out = {}
    for k in model.mro(cls):
        for d in (k.methods, k.getters):
            for f in d.values():
                if f.self_name is None or (f.name.startswith('_') and d is k.methods):
                    continue
                for n in walk_no_nested(f.node):
                    if isinstance(n, ast.Return) and n.value is not None:
                        from .model import is_self_attr
                        a = is_self_attr(n.value, f.self_name)
                        if a:
                            out.setdefault(a, f.qualname)
    return out


def inplace_writes_of_attr(model, cls, attr: str):
    """(fn, node, what): in-place array writes to self.<attr> anywhere in the class family (subscript store, augmented
    assignment, out=, in-place ndarray methods).  Rebinding `self.attr = <new object>` is not one."""
    from .model import is_self_attr
    for k in model.mro(cls):
        for d in (k.methods, k.getters, k.setters):
            for f in d.values():
                sn = f.self_name
                if sn is None:
                    continue
                for n in walk_no_nested(f.node):
                    if isinstance(n, ast.AugAssign) and is_self_attr(n.target, sn) == attr:
                        yield f, n, 'augmented assignment `%s`' % norm(n)[:60]
                    elif isinstance(n, ast.AugAssign) and isinstance(n.target, ast.Subscript) and is_self_attr(n.target.value, sn) == attr:
                        yield f, n, 'augmented element assignment `%s`' % norm(n)[:60]
                    elif isinstance(n, ast.Subscript) and isinstance(n.ctx, ast.Store) and is_self_attr(n.value, sn) == attr:
                        yield f, n, 'element store `%s`' % norm(n)[:60]
                    elif isinstance(n, ast.Call):
                        for kw in n.keywords:
                            if kw.arg == 'out' and is_self_attr(kw.value, sn) == attr:
                                yield f, n, 'written through `out=%s`' % norm(kw.value)
                        if isinstance(n.func, ast.Attribute) and n.func.attr in INPLACE_METHODS - {'sort'} and is_self_attr(n.func.value, sn) == attr:
                            yield f, n, 'in-place method `%s`' % norm(n.func)


def check_escaping_not_mutated(ctx, rule: str, class_names, floor: int, allowed=None) -> int:
    ctx.rule(rule, 'an array attribute that a public accessor hands out by reference is only ever REBOUND to a new array, never written in '
                   'place: results the caller still holds must not change when the object is used again', floor=floor)
    M = ctx.model
    allowed = allowed or {}
    n = 0
    for cname in class_names:
        cls = M.cls(cname)
        for attr, acc in sorted(escaping_attrs(M, cls).items()):
            construct = '%s.%s' % (cname, attr)
            ctx.instance(rule, construct)
            n += 1
            hits = [h for h in inplace_writes_of_attr(M, cls, attr) if (h[0].qualname, attr) not in allowed]
            ctx.obligation(rule, construct, not hits, {'handed_out_by': acc, 'in_place_writes': [(h[0].qualname, h[2]) for h in hits]} if hits else {'handed_out_by': acc},
                           nontrivial=bool(hits))
            for f, node, what in hits[:1]:
                ctx.violation(rule, f.qualname, 'self.%s is handed out by reference by %s and is written in place here (%s): an array obtained '
                              'earlier changes when the object is used again' % (attr, acc, what), f.path, node.lineno, operand='escaping:' + attr)
    return n


# ---------------------------------------------------------------------------------------------------------------
def filtered_position_indexing(fn: FuncInfo):
    """(node, index name, list name): a POSITION in a list that was filled under a condition (a filtered selection of the
    outer loop's indices) is used to subscript an attribute container of self.  Position i of such a list is the i-th
    SELECTED element, not element i of the container: the two coincide only when the selected ones come first."""
    sn = fn.self_name
    if sn is None:
        return
    from .model import is_self_attr
    # lists appended to inside an `if` inside a loop
    filtered = set()
    for loop in walk_no_nested(fn.node):
        if not isinstance(loop, (ast.For, ast.While)):
            continue
        for cond in ast.walk(loop):
            if not isinstance(cond, ast.If):
                continue
            for n in ast.walk(cond):
                if isinstance(n, ast.Call) and isinstance(n.func, ast.Attribute) and n.func.attr == 'append' and isinstance(n.func.value, ast.Name):
                    filtered.add(n.func.value.id)
    if not filtered:
        return
    for loop in walk_no_nested(fn.node):
        if not isinstance(loop, ast.For):
            continue
        pos_vars = {}
        it = loop.iter
        if isinstance(it, ast.Call) and norm(it.func) == 'enumerate' and it.args and isinstance(it.args[0], ast.Name) and it.args[0].id in filtered \
                and isinstance(loop.target, ast.Tuple) and isinstance(loop.target.elts[0], ast.Name):
            pos_vars[loop.target.elts[0].id] = it.args[0].id
        if isinstance(it, ast.Call) and norm(it.func) == 'range' and len(it.args) == 1 and isinstance(it.args[0], ast.Call) \
                and norm(it.args[0].func) == 'len' and it.args[0].args and isinstance(it.args[0].args[0], ast.Name) \
                and it.args[0].args[0].id in filtered and isinstance(loop.target, ast.Name):
            pos_vars[loop.target.id] = it.args[0].args[0].id
        if not pos_vars:
            continue
        for n in ast.walk(loop):
            if isinstance(n, ast.Subscript) and isinstance(n.slice, ast.Name) and n.slice.id in pos_vars:
                base = n.value
                a = is_self_attr(base, sn)
                if a is not None:
                    yield n, n.slice.id, pos_vars[n.slice.id]


def check_filtered_positions(ctx, rule: str, module_paths, floor: int = 0) -> int:
    ctx.rule(rule, 'a position in a conditionally filled (filtered) list is never used as an index into the per-user containers of the '
                   'object (position i is the i-th SELECTED user, not user i)', floor=floor)
    M = ctx.model
    n = 0
    for path in module_paths:
        mod = M.module(path)
        for c in mod.classes.values():
            for fn in list(c.methods.values()):
                has_filtered = any(True for _ in [0]) and any(isinstance(x, ast.Call) and isinstance(x.func, ast.Attribute) and x.func.attr == 'append'
                                                              for x in ast.walk(fn.node))
                if not has_filtered or fn.self_name is None:
                    continue
                hits = list(filtered_position_indexing(fn))
                loops = [l for l in walk_no_nested(fn.node) if isinstance(l, ast.For)]
                if not loops:
                    continue
                construct = fn.qualname
                ctx.instance(rule, construct)
                n += 1
                ctx.obligation(rule, construct, not hits, {'position_used_as_index': [(norm(h[0])[:40], h[2]) for h in hits]} if hits else None,
                               nontrivial=bool(hits))
                for node, var, lst in hits[:1]:
                    ctx.violation(rule, construct, '`%s` is subscripted with `%s`, a position in the filtered list `%s`: the filter of user %s[i] '
                                  'is applied to user i' % (norm(node.value), var, lst, lst), fn.path, node.lineno, operand='position:' + var)
    return n


# ---------------------------------------------------------------------------------------------------------------
def last_iteration_leaks(fn: FuncInfo):
    """(load node, name, loop): a name that is bound ONLY inside the body of one loop L1, to a value that depends on L1's
    iteration variable (a per-iteration quantity), where L1 is never left early (no break / return inside it) and the
    binding is not the running-extremum idiom, and that is read inside a DIFFERENT, later loop.  What the later loop
    reads on every one of its iterations is the value of the LAST iteration of L1 that happened to bind the name: a
    per-element quantity applied to every element."""
    stmts = stmts_in_order(fn)
    order = {id(s): i for i, s in enumerate(stmts)}
    loops = [s for s in stmts if isinstance(s, ast.For)]
    if len(loops) < 2:
        return
    comp_scoped = set()
    for x in ast.walk(fn.node):
        if isinstance(x, (ast.ListComp, ast.SetComp, ast.DictComp, ast.GeneratorExp)):
            for g in x.generators:
                for t in ast.walk(g.target):
                    if isinstance(t, ast.Name):
                        comp_scoped.add(id(t))
    all_stores = {}
    for x in ast.walk(fn.node):
        if isinstance(x, ast.Name) and isinstance(x.ctx, ast.Store) and id(x) not in comp_scoped:
            all_stores.setdefault(x.id, []).append(x)
    for p in fn.params:
        all_stores.setdefault(p, []).append(None)
    for L in loops:
        inside = {id(x) for x in ast.walk(L)}
        if any(isinstance(x, (ast.Break, ast.Return)) for x in ast.walk(L)):
            continue
        if any(id(L) in {id(y) for y in ast.walk(o)} for o in loops if o is not L):
            continue                                              # only outermost loops are compared with each other
        body_ids = {id(x) for b in L.body for x in ast.walk(b)}
        per_iter = {n for n, sts in all_stores.items() if sts and all(s is not None and id(s) in body_ids for s in sts)}
        if not per_iter:
            continue
        # dependence on the iteration variable, through the locals of the body
        dep = {t.id for t in ast.walk(L.target) if isinstance(t, ast.Name)}
        changed = True
        assigns = [a for b in L.body for a in ast.walk(b) if isinstance(a, (ast.Assign, ast.AugAssign, ast.AnnAssign)) and getattr(a, 'value', None) is not None]
        while changed:
            changed = False
            for a in assigns:
                tg = a.targets if isinstance(a, ast.Assign) else [a.target]
                names = {t.id for g in tg for t in ast.walk(g) if isinstance(t, ast.Name) and isinstance(t.ctx, ast.Store)}
                if names - dep and any(isinstance(x, ast.Name) and x.id in dep for x in ast.walk(a.value)):
                    dep |= names
                    changed = True
        per_iter &= dep
        # running extremum: bound under an `if` whose test reads an accumulator that lives before the loop and is updated in the same branch
        def running_extremum(name):
            for c in (x for b in L.body for x in ast.walk(b) if isinstance(x, ast.If)):
                cids = {id(x) for x in ast.walk(c)}
                if not all(id(s) in cids for s in all_stores[name]):
                    continue
                test_names = {x.id for x in ast.walk(c.test) if isinstance(x, ast.Name)}
                for acc in test_names:
                    sts = all_stores.get(acc, [])
                    if any(s is None or id(s) not in inside for s in sts) and any(s is not None and id(s) in cids for s in sts):
                        return True
            return False
        per_iter = {n for n in per_iter if not running_extremum(n)}
        if not per_iter:
            continue
        for L2 in loops:
            if L2 is L or order[id(L2)] < order[id(L)] or id(L2) in inside:
                continue
            rebound = {t.id for b in [L2] for x in ast.walk(b) for t in [x] if isinstance(t, ast.Name) and isinstance(t.ctx, ast.Store) and id(t) not in comp_scoped}
            for x in ast.walk(L2):
                if isinstance(x, ast.Name) and isinstance(x.ctx, ast.Load) and x.id in per_iter and x.id not in rebound:
                    encl_comp = False
                    yield x, x.id, L


def loop_index_after_loop(fn: FuncInfo):
    """(load node, name, loop): the ITERATION VARIABLE of a `for` loop over a range / a sequence is read after the loop has
    ended (the loop is never left early, and nothing re-binds the name in between): what is read is the last element, in
    a place where the code before the loop spoke of a different index (typically the function's own `k`)."""
    stmts = stmts_in_order(fn)
    order = {id(s): i for i, s in enumerate(stmts)}
    comp_scoped = set()
    for x in ast.walk(fn.node):
        if isinstance(x, (ast.ListComp, ast.SetComp, ast.DictComp, ast.GeneratorExp)):
            for g in x.generators:
                for t in ast.walk(g.target):
                    if isinstance(t, ast.Name):
                        comp_scoped.add(t.id + '@%d' % id(x))
    loops = [s for s in stmts if isinstance(s, ast.For)]
    for L in loops:
        if any(isinstance(x, (ast.Break, ast.Return)) for x in ast.walk(L)):
            continue
        tnames = {t.id for t in ast.walk(L.target) if isinstance(t, ast.Name)}
        if not tnames:
            continue
        inside = {id(x) for x in ast.walk(L)}
        # the name must not be bound anywhere else (parameter, assignment, other loop)
        for name in sorted(tnames):
            if name in fn.params:
                continue
            other_stores = [x for x in ast.walk(fn.node) if isinstance(x, ast.Name) and x.id == name and isinstance(x.ctx, ast.Store)
                            and id(x) not in inside]
            if other_stores:
                continue
            for s in stmts:
                if id(s) in inside or order[id(s)] < order[id(L)] or isinstance(s, (ast.FunctionDef, ast.AsyncFunctionDef, ast.ClassDef)):
                    continue
                own = []
                for fld, v in ast.iter_fields(s):
                    if fld in ('body', 'orelse', 'finalbody', 'handlers'):
                        continue
                    for x in (v if isinstance(v, list) else [v]):
                        if isinstance(x, ast.AST):
                            own.extend(ast.walk(x))
                comp_bound = set()
                for x in own:
                    if isinstance(x, (ast.ListComp, ast.SetComp, ast.DictComp, ast.GeneratorExp)):
                        for g in x.generators:
                            comp_bound |= {t.id for t in ast.walk(g.target) if isinstance(t, ast.Name)}
                    if isinstance(x, ast.Lambda):
                        comp_bound |= {a.arg for a in x.args.args}
                hit = next((x for x in own if isinstance(x, ast.Name) and isinstance(x.ctx, ast.Load) and x.id == name and name not in comp_bound), None)
                if hit is not None:
                    yield hit, name, L
                    break


def check_per_iteration_leaks(ctx, rule: str, module_paths, floor: int = 0) -> int:
    ctx.rule(rule, 'a per-iteration quantity (bound only inside one loop, from that loop\'s iteration variable) is never read by a different, '
                   'later loop (which would see the last iteration\'s value for every element)', floor=floor)
    M = ctx.model
    n = 0
    for path in module_paths:
        mod = M.module(path)
        fns = [f for c in mod.classes.values() for f in c.methods.values()] + list(mod.functions.values())
        for fn in fns:
            loops = [l for l in walk_no_nested(fn.node) if isinstance(l, ast.For)]
            if not loops:
                continue
            hits = list(last_iteration_leaks(fn))
            after = list(loop_index_after_loop(fn))
            construct = fn.qualname
            ctx.instance(rule, construct)
            n += 1
            ctx.obligation(rule, construct, not hits and not after, {'leaks': sorted({h[1] for h in hits}), 'index_read_after_loop': sorted({h[1] for h in after})}
                           if hits or after else None, nontrivial=True)
            for node, name, L in after[:1]:
                ctx.violation(rule, construct, 'the iteration variable `%s` of the loop at line %d is read after the loop has ended (line %d): it holds '
                              'the LAST element there, whatever index the surrounding code is about' % (name, L.lineno, node.lineno),
                              fn.path, node.lineno, operand='after-loop:' + name)
            for node, name, L in hits[:1]:
                ctx.violation(rule, construct, '`%s` is bound only inside the loop at line %d (a per-iteration value derived from `%s`) and read '
                              'inside the later loop at line %d: every iteration there sees the value of the last iteration that bound it'
                              % (name, L.lineno, norm(L.target), node.lineno), fn.path, node.lineno, operand='leak:' + name)
    return n


# ---------------------------------------------------------------------------------------------------------------
NARROW_INT = {'uint8': 8, 'int8': 7, 'uint16': 16, 'int16': 15, 'ubyte': 8, 'byte': 7, 'ushort': 16, 'short': 15}
NARROW_INT_CODES = {'u1': 8, 'i1': 7, 'u2': 16, 'i2': 15, 'B': 8, 'b': 7, 'H': 16, 'h': 15}
BIT_CONSUMERS = {'np.unpackbits', 'np.packbits', 'numpy.unpackbits', 'numpy.packbits'}


def _narrow_bits(e) -> Optional[int]:
    """bit width when `e` spells a narrow integer dtype (np.uint8, 'uint8', np.dtype('u1'), ...)."""
    if isinstance(e, ast.Constant) and isinstance(e.value, str):
        v = e.value.lstrip('<>=|')
        return NARROW_INT.get(v, NARROW_INT_CODES.get(v))
    if isinstance(e, ast.Attribute) and e.attr in NARROW_INT:
        return NARROW_INT[e.attr]
    if isinstance(e, ast.Call) and norm(e.func) in ('np.dtype', 'numpy.dtype') and e.args:
        return _narrow_bits(e.args[0])
    return None


NARROW_FLOAT = {'float32', 'float16', 'complex64', 'single', 'csingle', 'half', 'f4', 'f2', 'c8', '<f4', '<c8'}


def narrow_float_casts(fn: FuncInfo):
    """(node, dtype): data is converted to a floating / complex type with less than double precision (`.astype(np.complex64)`,
    `np.asarray(x, dtype=np.float32)`, ...): every later comparison of distances loses the digits beyond ~7."""
    for n in walk_no_nested(fn.node):
        if not isinstance(n, ast.Call):
            continue
        cand = None
        if isinstance(n.func, ast.Attribute) and n.func.attr in ('astype', 'view') and n.args:
            cand = n.args[0]
        dt = next((k.value for k in n.keywords if k.arg == 'dtype'), None)
        if dt is not None and norm(n.func).split('.')[-1] in ('array', 'asarray', 'asanyarray', 'ascontiguousarray', 'zeros', 'empty', 'ones', 'full', 'astype'):
            cand = dt
        if isinstance(n.func, ast.Attribute) and n.func.attr in NARROW_FLOAT and norm(n.func.value) in ('np', 'numpy') and n.args:
            yield n, n.func.attr                      # np.complex64(x)
            continue
        if cand is None:
            continue
        name = cand.attr if isinstance(cand, ast.Attribute) else cand.value.lstrip('<>=|') if isinstance(cand, ast.Constant) and isinstance(cand.value, str) else None
        if name in NARROW_FLOAT:
            yield n, name


def narrow_index_ranges(fn: FuncInfo):
    """(node, bits, kind): an integer RANGE or a cast of computed integers is given a narrow integer dtype although nothing
    in the expression bounds its values: `np.arange(stop, dtype=np.uint8)` wraps around for stop > 256, `.astype(np.uint8)`
    of computed indexes drops their high bits.  kind is 'range' (definite: the stop is not a literal that fits) or 'cast'
    (the cast value is not visibly a bit/boolean array and is not consumed by packbits/unpackbits)."""
    parents = {}
    for p in ast.walk(fn.node):
        for c in ast.iter_child_nodes(p):
            parents[id(c)] = p
    for n in walk_no_nested(fn.node):
        if not isinstance(n, ast.Call):
            continue
        f = norm(n.func)
        dt = next((k.value for k in n.keywords if k.arg == 'dtype'), None)
        if f in ('np.arange', 'numpy.arange', 'np.linspace', 'numpy.linspace'):
            bits = _narrow_bits(dt) if dt is not None else None
            if bits is None:
                continue
            stops = n.args[:2] if len(n.args) >= 2 else n.args[:1]
            stop = stops[-1] if stops else None
            if isinstance(stop, ast.Constant) and isinstance(stop.value, int) and stop.value <= 2 ** bits:
                continue
            yield n, bits, 'range'
        elif isinstance(n.func, ast.Attribute) and n.func.attr == 'astype' and n.args and _narrow_bits(n.args[0]) is not None:
            par = parents.get(id(n))
            if isinstance(par, ast.Call) and norm(par.func) in BIT_CONSUMERS:
                continue
            src = n.func.value
            if isinstance(src, ast.Compare) or (isinstance(src, ast.BinOp) and isinstance(src.op, ast.BitAnd)
                                                and isinstance(src.right, ast.Constant) and src.right.value == 1):
                continue
            yield n, _narrow_bits(n.args[0]), 'cast'


def check_narrow_index_ranges(ctx, rule: str, module_paths, floor: int = 0) -> int:
    ctx.rule(rule, 'no integer range / computed index array is given an integer dtype narrower than the values it must hold '
                   '(np.arange(n, dtype=uint8) wraps for n > 256; an index cast to a narrow dtype loses its high bits)', floor=floor)
    M = ctx.model
    n = 0
    deferred = []
    for path in module_paths:
        mod = M.module(path)
        fns = [f for c in mod.classes.values() for f in c.methods.values()] + list(mod.functions.values())
        for fn in fns:
            sites = [x for x in walk_no_nested(fn.node) if isinstance(x, ast.Call)]
            if not sites:
                continue
            construct = fn.qualname
            ctx.instance(rule, construct)
            n += 1
            hits = list(narrow_index_ranges(fn))
            definite = [h for h in hits if h[2] == 'range']
            ctx.obligation(rule, construct, not definite, {'narrow': [(norm(h[0])[:50], h[1]) for h in hits]} if hits else None, nontrivial=True)
            for node, bits, kind in definite[:1]:
                ctx.violation(rule, construct, '`%s` builds an integer range in a %d-bit dtype but its length is not a literal that fits: '
                              'beyond %d values the entries - and every arithmetic result derived from them, which stays in that dtype - wrap around, so distinct indexes collide' % (norm(node)[:60], bits, 2 ** bits),
                              fn.path, node.lineno, operand='narrow-range')
            deferred += [(fn, h) for h in hits if h[2] == 'cast']
            for node, name in list(narrow_float_casts(fn))[:1]:
                ctx.obligation(rule, construct + ':float', False, {'cast': norm(node)[:60]})
                ctx.violation(rule, construct, '`%s` converts data to %s (about 7 significant digits): distances that differ beyond that are compared as '
                              'equal, and magnitudes above ~1e7 absorb the constellation altogether' % (norm(node)[:60], name),
                              fn.path, node.lineno, operand='narrow-float')
    ctx._narrow_casts = deferred
    return n


# ---------------------------------------------------------------------------------------------------------------
def index_span_slices(fn: FuncInfo, producers=('get_pack_indexes',)):
    """(subscript node, index-set name): a name bound to the result of an index-SET producer is used only through its end
    points to build a contiguous slice (`x[I[0]:I[-1] + 1]`, `x[I.min():I.max() + 1]`, `x[min(I):max(I) + 1]`): the
    selection then contains every position between the first and the last member, not the members."""
    sets = set()
    for n in walk_no_nested(fn.node):
        if isinstance(n, ast.Assign) and isinstance(n.value, ast.Call) and isinstance(n.value.func, ast.Attribute) \
                and n.value.func.attr in producers:
            for t in n.targets:
                if isinstance(t, ast.Name):
                    sets.add(t.id)
    # aliases through np.asarray / sorted / list / np.sort
    changed = True
    while changed:
        changed = False
        for n in walk_no_nested(fn.node):
            if isinstance(n, ast.Assign) and len(n.targets) == 1 and isinstance(n.targets[0], ast.Name) and n.targets[0].id not in sets:
                v = n.value
                if isinstance(v, ast.Call) and norm(v.func) in ('np.asarray', 'np.array', 'sorted', 'list', 'np.sort', 'np.unique', 'np.atleast_1d') \
                        and v.args and isinstance(v.args[0], ast.Name) and v.args[0].id in sets:
                    sets.add(n.targets[0].id)
                    changed = True
                elif isinstance(v, ast.Name) and v.id in sets:
                    sets.add(n.targets[0].id)
                    changed = True

    def endpoint(e) -> Optional[str]:
        for x in ast.walk(e):
            if isinstance(x, ast.Subscript) and isinstance(x.value, ast.Name) and x.value.id in sets \
                    and isinstance(const_value_local(x.slice), int):
                return x.value.id
            if isinstance(x, ast.Call):
                f = norm(x.func)
                if f in ('min', 'max', 'np.min', 'np.max', 'np.amin', 'np.amax') and x.args and isinstance(x.args[0], ast.Name) and x.args[0].id in sets:
                    return x.args[0].id
                if isinstance(x.func, ast.Attribute) and x.func.attr in ('min', 'max') and isinstance(x.func.value, ast.Name) and x.func.value.id in sets:
                    return x.func.value.id
        return None

    # endpoint names:  lo = I[0]; hi = I[-1]
    ends = {}
    for n in walk_no_nested(fn.node):
        if isinstance(n, ast.Assign):
            tg = n.targets[0]
            if isinstance(tg, ast.Name):
                e = endpoint(n.value)
                if e:
                    ends[tg.id] = e
            elif isinstance(tg, ast.Tuple) and isinstance(n.value, ast.Tuple) and len(tg.elts) == len(n.value.elts):
                for t, v in zip(tg.elts, n.value.elts):
                    e = endpoint(v)
                    if e and isinstance(t, ast.Name):
                        ends[t.id] = e
    for n in walk_no_nested(fn.node):
        if not isinstance(n, (ast.Subscript, ast.Call)):
            continue
        bounds = []
        if isinstance(n, ast.Subscript):
            sl = n.slice
            parts = sl.elts if isinstance(sl, ast.Tuple) else [sl]
            for p in parts:
                if isinstance(p, ast.Slice):
                    bounds.append((p.lower, p.upper))
        elif norm(n.func) in ('slice', 'range', 'np.arange') and len(n.args) >= 2:
            bounds.append((n.args[0], n.args[1]))
        elif norm(n.func) in ('itertools.islice', 'islice') and len(n.args) >= 3:
            bounds.append((n.args[1], n.args[2]))
        for lo, hi in bounds:
            srcs = []
            for b in (lo, hi):
                if b is None:
                    continue
                e = endpoint(b)
                if e is None:
                    for x in ast.walk(b):
                        if isinstance(x, ast.Name) and x.id in ends:
                            e = ends[x.id]
                srcs.append(e)
            if len(srcs) == 2 and srcs[0] is not None and srcs[0] == srcs[1]:
                yield n, srcs[0]


def const_value_local(e):
    if isinstance(e, ast.Constant):
        return e.value
    if isinstance(e, ast.UnaryOp) and isinstance(e.op, ast.USub) and isinstance(e.operand, ast.Constant):
        return -e.operand.value
    return None


def check_index_sets_not_spans(ctx, rule: str, module_paths, producers=('get_pack_indexes',), floor: int = 0) -> int:
    ctx.rule(rule, 'a set of positions returned by %s is consumed as a set (membership / fancy indexing / single member), never through a '
                   'contiguous slice between its end points (matching positions are strided, not contiguous, unless the fixed '
                   'parameters happen to vary slowest)' % '/'.join(producers), floor=floor)
    M = ctx.model
    n = 0
    for path in module_paths:
        mod = M.module(path)
        fns = [f for c in mod.classes.values() for f in c.methods.values()] + list(mod.functions.values())
        for fn in fns:
            if not any(isinstance(x, ast.Call) and isinstance(x.func, ast.Attribute) and x.func.attr in producers for x in walk_no_nested(fn.node)):
                continue
            construct = fn.qualname
            ctx.instance(rule, construct)
            n += 1
            hits = list(index_span_slices(fn, producers))
            ctx.obligation(rule, construct, not hits, {'span': [norm(h[0])[:60] for h in hits]} if hits else None, nontrivial=True)
            for node, name in hits[:1]:
                ctx.violation(rule, construct, '`%s` selects the contiguous span between the first and the last member of the index set `%s`: '
                              'every position in between is included, whether it matches the fixed parameters or not'
                              % (norm(node)[:70], name), fn.path, node.lineno, operand='span:' + name)
    return n


# ---------------------------------------------------------------------------------------------------------------
def mapping_attrs(model, cls) -> set:
    """attributes of cls (over its MRO) that are bound to a dict / OrderedDict / defaultdict display or constructor."""
    out = set()
    for c in model.mro(cls):
        for fn in c.methods.values():
            sn = fn.self_name
            if sn is None:
                continue
            for n in walk_no_nested(fn.node):
                if isinstance(n, (ast.Assign, ast.AnnAssign)):
                    v = n.value
                    tg = n.targets if isinstance(n, ast.Assign) else [n.target]
                    is_map = isinstance(v, (ast.Dict, ast.DictComp)) or (isinstance(v, ast.Call) and norm(v.func).split('.')[-1] in ('dict', 'OrderedDict', 'defaultdict'))
                    if is_map:
                        for t in tg:
                            if isinstance(t, ast.Attribute) and isinstance(t.value, ast.Name) and t.value.id == sn:
                                out.add(t.attr)
    return out


def ordered_mapping_comparisons(fn: FuncInfo, maps: set):
    """(node, why): inside an equality method, the KEYS (or items / values) of a mapping are compared as a sequence - `list(a.m) ==
    list(b.m)`, `tuple(a.m.keys()) != ...`, or paired positionally with zip(a.m, b.m).  Two mappings with the same content
    built in a different order then compare unequal."""
    def is_mapping_view(e) -> bool:
        if isinstance(e, ast.Attribute) and e.attr in maps:
            return True
        if isinstance(e, ast.Call) and isinstance(e.func, ast.Attribute) and e.func.attr in ('keys', 'items', 'values') and not e.args:
            return True
        return False

    def seq_of_mapping(e) -> bool:
        return isinstance(e, ast.Call) and norm(e.func) in ('list', 'tuple', 'np.array', 'np.asarray') and len(e.args) == 1 and is_mapping_view(e.args[0])

    for n in walk_no_nested(fn.node):
        if isinstance(n, ast.Compare) and len(n.ops) == 1 and isinstance(n.ops[0], (ast.Eq, ast.NotEq)):
            a, b = n.left, n.comparators[0]
            if seq_of_mapping(a) and seq_of_mapping(b):
                yield n, 'the two key sequences are compared position by position'
        if isinstance(n, ast.Call) and norm(n.func) == 'zip' and len(n.args) >= 2 and all(is_mapping_view(a) or seq_of_mapping(a) for a in n.args[:2]):
            yield n, 'the entries of the two mappings are paired by position'


# ---------------------------------------------------------------------------------------------------------------
def floor_block_loops(fn: FuncInfo):
    """(loop, n, b, covered): a loop that walks a range in blocks - `for k in range(n // b)` with `k * b` / `(k + 1) * b`
    bounds in its body - runs floor(n / b) times: the last n % b elements are never visited.  `covered` is True when
    the function also tests or uses `n % b` (a guard that rejects a remainder, or separate handling of the tail)."""
    from .astutil import single_locals, expand
    defs = single_locals(fn)

    def key(e):
        return norm(expand(e, defs)).replace(' ', '')

    mods = set()
    for x in walk_no_nested(fn.node):
        if isinstance(x, ast.BinOp) and isinstance(x.op, ast.Mod):
            mods.add((key(x.left), key(x.right)))
        if isinstance(x, ast.Call) and norm(x.func) in ('divmod', 'np.divmod') and len(x.args) == 2:
            mods.add((key(x.args[0]), key(x.args[1])))
    for loop in walk_no_nested(fn.node):
        if not (isinstance(loop, ast.For) and isinstance(loop.iter, ast.Call) and norm(loop.iter.func) in ('range', 'np.arange')
                and isinstance(loop.target, ast.Name)):
            continue
        for a in loop.iter.args:
            ea = expand(a, defs)
            for x in ast.walk(ea):
                if not (isinstance(x, ast.BinOp) and isinstance(x.op, ast.FloorDiv)):
                    continue
                n, b = x.left, x.right
                bk = norm(b).replace(' ', '')
                if isinstance(n, ast.UnaryOp) or bk in norm(n).replace(' ', ''):
                    continue                                       # -(-n // b), (n + b - 1) // b: ceiling idioms
                if isinstance(b, ast.Constant) and b.value == 1:
                    continue
                # the body steps through the data in units of b
                k = loop.target.id
                steps = False
                for y in ast.walk(loop):
                    if isinstance(y, ast.BinOp) and isinstance(y.op, ast.Mult):
                        l, r = key(y.left), key(y.right)
                        if (bk in (l, r)) and any(isinstance(z, ast.Name) and z.id == k for z in ast.walk(y)):
                            steps = True
                if not steps:
                    continue
                covered = (norm(n).replace(' ', ''), bk) in mods
                yield loop, norm(n), norm(b), covered


def check_block_loops_cover(ctx, rule: str, module_paths, floor: int = 0) -> int:
    ctx.rule(rule, 'a loop that processes a range in blocks of b covers all n elements: a floor(n / b) trip count is accompanied by a test / '
                   'handling of n % b (otherwise the last n % b elements are left unprocessed - uninitialised in an np.empty output)', floor=floor)
    M = ctx.model
    cnt = 0
    for path in module_paths:
        mod = M.module(path)
        fns = [f for c in mod.classes.values() for f in c.methods.values()] + list(mod.functions.values())
        for fn in fns:
            loops = [l for l in walk_no_nested(fn.node) if isinstance(l, (ast.For, ast.While))]
            if not loops:
                continue
            construct = fn.qualname
            ctx.instance(rule, construct)
            cnt += 1
            hits = list(floor_block_loops(fn))
            bad = [h for h in hits if not h[3]]
            ctx.obligation(rule, construct, not bad, {'block_loops': [(h[1], h[2], 'remainder handled' if h[3] else 'remainder ignored') for h in hits]} if hits else None,
                           nontrivial=bool(hits))
            for loop, n, b, _ in bad[:1]:
                ctx.violation(rule, construct, 'the loop at line %d runs %s // %s times over blocks of %s elements and nothing tests or handles '
                              '%s %% %s: the last (%s mod %s) elements are never processed' % (loop.lineno, n, b, b, n, b, n, b),
                              fn.path, loop.lineno, operand='floor-blocks')
    return cnt


# ---------------------------------------------------------------------------------------------------------------
LIKE_CTORS = {'np.zeros_like', 'np.empty_like', 'np.ones_like', 'np.full_like', 'numpy.zeros_like', 'numpy.empty_like', 'numpy.ones_like', 'numpy.full_like'}


def input_typed_containers(fn: FuncInfo):
    """(call node, container name, parameter): a result container is created with `np.*_like(<parameter>)` and no dtype=, and
    is then filled by element stores: the container has the CALLER's dtype, so computed real (or complex) values stored
    into it are truncated whenever the input array is an integer (or real) array."""
    params = set(fn.params) - {fn.self_name, 'cls'}
    alias = {p: p for p in params}
    for n in walk_no_nested(fn.node):
        if isinstance(n, ast.Assign) and len(n.targets) == 1 and isinstance(n.targets[0], ast.Name) and isinstance(n.value, ast.Name) \
                and n.value.id in alias and n.targets[0].id not in params:
            alias[n.targets[0].id] = alias[n.value.id]
    conts = {}
    for n in walk_no_nested(fn.node):
        if isinstance(n, ast.Assign) and len(n.targets) == 1 and isinstance(n.targets[0], ast.Name) and isinstance(n.value, ast.Call) \
                and norm(n.value.func) in LIKE_CTORS and n.value.args and not any(k.arg == 'dtype' for k in n.value.keywords):
            a = n.value.args[0]
            if isinstance(a, ast.Name) and a.id in alias:
                conts[n.targets[0].id] = (n.value, alias[a.id])
    if not conts:
        return
    for n in walk_no_nested(fn.node):
        tgt = None
        if isinstance(n, ast.Assign):
            for t in n.targets:
                if isinstance(t, ast.Subscript) and isinstance(t.value, ast.Name) and t.value.id in conts:
                    tgt = (t.value.id, n.value)
        elif isinstance(n, ast.AugAssign):
            t = n.target
            root = t.value if isinstance(t, ast.Subscript) else t
            if isinstance(root, ast.Name) and root.id in conts:
                tgt = (root.id, n.value)
        if tgt is None:
            continue
        name, val = tgt
        if isinstance(val, ast.Constant) and isinstance(val.value, (int, bool)):
            continue
        # stores of (slices of) the same input keep its dtype legitimately
        roots = {x.id for x in ast.walk(val) if isinstance(x, ast.Name)}
        if roots and roots <= {p for p, q in alias.items() if q == conts[name][1]} and not any(isinstance(x, (ast.BinOp, ast.Call)) for x in ast.walk(val)):
            continue
        yield conts[name][0], name, conts[name][1]
        conts.pop(name)
        if not conts:
            return


def check_input_typed_containers(ctx, rule: str, functions, floor: int = 0) -> int:
    ctx.rule(rule, 'a result array that receives computed values is not created with np.*_like(<input>) without a dtype: its element type '
                   'would be the caller\'s (an integer input truncates every computed value)', floor=floor)
    n = 0
    for fn in functions:
        construct = fn.qualname
        ctx.instance(rule, construct)
        n += 1
        hits = list(input_typed_containers(fn))
        ctx.obligation(rule, construct, not hits, {'containers': [(h[1], h[2]) for h in hits]} if hits else None, nontrivial=bool(hits))
        for call, name, param in hits[:1]:
            ctx.violation(rule, construct, '`%s = %s` takes its dtype from the argument `%s` and is then filled with computed values: for an '
                          'integer `%s` every stored value is truncated to an integer' % (name, norm(call)[:50], param, param),
                          fn.path, call.lineno, operand='like:' + name)
    return n


# ---------------------------------------------------------------------------------------------------------------
def flag_test_forms(model, module_paths):
    """Groups of names that carry the SAME boolean flag through the modules (constructor parameter -> attribute -> read-only
    property -> attribute of a consumer class), with every test made on a member of the group and its form:
      'identity'  X is True / X is not True / X is False / X is not False
      'truth'     bare X in an if / while / not / and / or / conditional expression
      'equality'  X == True / X != False ...
    Returns [(sorted group, [(fn, node, member, form)])] for groups that are tested at least once."""
    parent = {}

    def find(x):
        parent.setdefault(x, x)
        while parent[x] != x:
            parent[x] = parent[parent[x]]
            x = parent[x]
        return x

    def union(a, b):
        parent[find(a)] = find(b)

    fns = []
    for path in module_paths:
        mod = model.module(path)
        fns += [f for c in mod.classes.values() for f in list(c.methods.values()) + list(c.getters.values()) + list(c.setters.values())]
        fns += list(mod.functions.values())
    props = {}                       # property name -> attr it returns
    for fn in fns:
        sn = fn.self_name
        if sn is None:
            continue
        if fn.kind == 'getter':
            rets = [n for n in walk_no_nested(fn.node) if isinstance(n, ast.Return) and n.value is not None]
            if len(rets) == 1 and isinstance(rets[0].value, ast.Attribute) and isinstance(rets[0].value.value, ast.Name) and rets[0].value.value.id == sn:
                props[fn.name] = rets[0].value.attr
    for name, attr in props.items():
        union('.' + name, '.' + attr)
    for fn in fns:
        sn = fn.self_name
        params = set(fn.params)
        for n in walk_no_nested(fn.node):
            if isinstance(n, ast.Assign) and len(n.targets) == 1:
                t, v = n.targets[0], n.value
                if isinstance(t, ast.Attribute) and isinstance(t.value, ast.Name) and t.value.id == sn:
                    if isinstance(v, ast.Name) and v.id in params:
                        union('.' + t.attr, '%s:%s' % (fn.qualname, v.id))
                    elif isinstance(v, ast.Attribute) and isinstance(v.value, ast.Name):
                        if '.' + v.attr in parent:
                            union('.' + t.attr, '.' + v.attr)
            # keyword pass-through to a super constructor: normalize=normalize
            if isinstance(n, ast.Call):
                for k in n.keywords:
                    if k.arg and isinstance(k.value, ast.Name) and k.value.id in params and k.arg == k.value.id \
                            and isinstance(n.func, ast.Attribute) and n.func.attr == '__init__':
                        tgt = None
                        c = fn.cls
                        if c is not None:
                            for b in model.mro(c)[1:]:
                                m = b.methods.get('__init__')
                                if m is not None and k.arg in m.params:
                                    tgt = m
                                    break
                        if tgt is not None:
                            union('%s:%s' % (fn.qualname, k.value.id), '%s:%s' % (tgt.qualname, k.arg))
    # second pass for attribute-from-attribute links discovered late
    for fn in fns:
        sn = fn.self_name
        for n in walk_no_nested(fn.node):
            if isinstance(n, ast.Assign) and len(n.targets) == 1:
                t, v = n.targets[0], n.value
                if isinstance(t, ast.Attribute) and isinstance(t.value, ast.Name) and t.value.id == sn \
                        and isinstance(v, ast.Attribute) and isinstance(v.value, ast.Name) and '.' + v.attr in parent:
                    union('.' + t.attr, '.' + v.attr)

    def member(e, fn):
        if isinstance(e, ast.Name) and '%s:%s' % (fn.qualname, e.id) in parent:
            return '%s:%s' % (fn.qualname, e.id)
        if isinstance(e, ast.Attribute) and isinstance(e.value, ast.Name) and '.' + e.attr in parent:
            return '.' + e.attr
        return None

    tests = {}
    for fn in fns:
        for n in walk_no_nested(fn.node):
            if isinstance(n, ast.Compare) and len(n.ops) == 1 and isinstance(n.comparators[0], ast.Constant) and isinstance(n.comparators[0].value, bool):
                m = member(n.left, fn)
                if m:
                    form = 'identity' if isinstance(n.ops[0], (ast.Is, ast.IsNot)) else 'equality'
                    tests.setdefault(find(m), []).append((fn, n, m, form))
            cands = []
            if isinstance(n, (ast.If, ast.While, ast.IfExp)):
                cands.append(n.test)
            elif isinstance(n, ast.BoolOp):
                cands += n.values
            elif isinstance(n, ast.UnaryOp) and isinstance(n.op, ast.Not):
                cands.append(n.operand)
            for e in cands:
                m = member(e, fn)
                if m:
                    tests.setdefault(find(m), []).append((fn, e, m, 'truth'))
    groups = {}
    for x in list(parent):
        groups.setdefault(find(x), set()).add(x)
    out = []
    for r, ts in tests.items():
        seen = set()
        uniq = []
        for t in ts:
            if id(t[1]) not in seen:
                seen.add(id(t[1]))
                uniq.append(t)
        out.append((sorted(groups[r]), uniq))
    return out


def check_flag_tests_agree(ctx, rule: str, module_paths, floor: int = 0) -> int:
    ctx.rule(rule, 'every test of one boolean flag (constructor parameter, the attribute / property it is stored in, the copies consumers keep) '
                   'has the same form: `is True` at one site and truthiness at another disagree for truthy non-bool values (np.True_, 1)', floor=floor)
    n = 0
    for group, tests in flag_test_forms(ctx.model, module_paths):
        construct = 'flag:' + ','.join(g.lstrip('.') for g in group if g.startswith('.'))[:60] or group[0]
        ctx.instance(rule, construct)
        n += 1
        forms = {}
        for fn, node, m, form in tests:
            forms.setdefault('identity' if form == 'identity' else 'truth', []).append((fn, node))
        ok = len(forms) <= 1
        ctx.obligation(rule, construct, ok, {'tests': [('%s:%d' % (fn.qualname, node.lineno), norm(node)[:40], form) for fn, node, m, form in tests]},
                       nontrivial=len(tests) > 1)
        if not ok:
            minority = min(forms.values(), key=len)
            fn, node = minority[0]
            other = [x for k, v in forms.items() for x in v if v is not minority][0]
            ctx.violation(rule, fn.qualname, '%s is tested as `%s` here but as `%s` in %s: a truthy value that is not the object True '
                          '(np.True_, 1) is taken as set by one site and as unset by the other' % (construct, norm(node)[:40], norm(other[1])[:40], other[0].qualname),
                          fn.path, node.lineno, operand=construct)
    return n


# ---------------------------------------------------------------------------------------------------------------
EMPTY_CTORS = {'np.empty', 'numpy.empty', 'np.empty_like', 'numpy.empty_like', 'np.ndarray', 'numpy.ndarray'}


def uninitialised_accumulators(fn: FuncInfo):
    """(aug-assign node, name, creation call): a local array created with `np.empty(...)` (arbitrary memory) is ACCUMULATED
    into (`x[...] += v`, `x += v`, `np.add(x, v, out=x)`, `np.add.at(x, ...)`) although no statement before that one has
    stored into it at all (`x[..] = ..`, `x.fill(..)`): the sum starts from whatever the memory held."""
    stmts = stmts_in_order(fn)
    order = {id(s): i for i, s in enumerate(stmts)}
    created = {}
    for s in stmts:
        if isinstance(s, ast.Assign) and len(s.targets) == 1 and isinstance(s.targets[0], ast.Name):
            v = s.value
            if isinstance(v, ast.Call) and norm(v.func) in EMPTY_CTORS:
                created.setdefault(s.targets[0].id, []).append((order[id(s)], v))
            elif s.targets[0].id in created:
                created[s.targets[0].id].append((order[id(s)], None))        # rebound to something else
    if not created:
        return

    def whole_write(s, name) -> bool:
        # any plain element / slice store counts: how much of the array it covers is not decidable here, so only an
        # accumulation with NO earlier plain store at all is reported
        if isinstance(s, ast.Assign):
            for t in s.targets:
                root = t
                while isinstance(root, ast.Subscript):
                    root = root.value
                if isinstance(t, ast.Subscript) and isinstance(root, ast.Name) and root.id == name:
                    return True
        if isinstance(s, ast.Expr) and isinstance(s.value, ast.Call) and isinstance(s.value.func, ast.Attribute) \
                and s.value.func.attr == 'fill' and isinstance(s.value.func.value, ast.Name) and s.value.func.value.id == name:
            return True
        return False

    for s in stmts:
        name = None
        if isinstance(s, ast.AugAssign):
            t = s.target
            root = t
            while isinstance(root, ast.Subscript):
                root = root.value
            if isinstance(root, ast.Name) and root.id in created:
                name = root.id
        elif isinstance(s, ast.Expr) and isinstance(s.value, ast.Call):
            c = s.value
            f = norm(c.func)
            out = next((k.value for k in c.keywords if k.arg == 'out'), None)
            if f.endswith('.at') and c.args and isinstance(c.args[0], ast.Name) and c.args[0].id in created:
                name = c.args[0].id
            elif isinstance(out, ast.Name) and out.id in created and any(isinstance(a, ast.Name) and a.id == out.id for a in c.args):
                name = out.id
        if name is None:
            continue
        i = order[id(s)]
        last = [x for x in created[name] if x[0] < i]
        if not last or last[-1][1] is None:
            continue
        j, call = last[-1]
        if any(whole_write(x, name) for x in stmts[j + 1:i]):
            continue
        yield s, name, call
        created.pop(name)
        if not created:
            return


def check_accumulators_initialised(ctx, rule: str, module_paths, floor: int = 0) -> int:
    ctx.rule(rule, 'an array created with np.empty is never accumulated into (`x[..] += v`, `x += v`, ufunc `out=x`, `ufunc.at(x, ..)`) before '
                   'anything was stored in it: accumulators start from np.zeros', floor=floor)
    M = ctx.model
    n = 0
    for path in module_paths:
        mod = M.module(path)
        fns = [f for c in mod.classes.values() for f in list(c.methods.values()) + list(c.getters.values())] + list(mod.functions.values())
        for fn in fns:
            # every function of the modules is scanned (one instance each); the obligation is non-trivial where an array is created
            ctors = [x for x in walk_no_nested(fn.node) if isinstance(x, ast.Call) and norm(x.func) in EMPTY_CTORS | {'np.zeros', 'numpy.zeros', 'np.zeros_like'}]
            construct = fn.qualname
            ctx.instance(rule, construct)
            n += 1
            hits = list(uninitialised_accumulators(fn))
            ctx.obligation(rule, construct, not hits, {'accumulated_from_garbage': [h[1] for h in hits]} if hits else None, nontrivial=bool(ctors))
            for node, name, call in hits[:1]:
                ctx.violation(rule, construct, '`%s = %s` holds arbitrary memory and is accumulated into at line %d before anything was stored '
                              'in it: the result is the sum plus garbage (use np.zeros)' % (name, norm(call)[:50], node.lineno),
                              fn.path, node.lineno, operand='empty-accumulator:' + name)
    return n


# ---------------------------------------------------------------------------------------------------------------
def unused_parameters(fn: FuncInfo):
    """names of parameters that the body never reads (not `self`/`cls`, not `_`-prefixed, not *args/**kwargs), for functions that
    do something: a body that only raises / passes / returns a constant (abstract method, stub) has no obligations."""
    body = [s for s in fn.node.body if not (isinstance(s, ast.Expr) and isinstance(s.value, ast.Constant))]
    if not body or all(isinstance(s, (ast.Pass, ast.Raise)) for s in body):
        return []
    if isinstance(body[-1], ast.Raise) and not any(isinstance(n, ast.Return) and n.value is not None for n in ast.walk(fn.node)):
        return []
    if len(body) == 1 and isinstance(body[0], ast.Return) and (body[0].value is None or isinstance(body[0].value, ast.Constant)):
        return []
    used = {n.id for n in ast.walk(fn.node) if isinstance(n, ast.Name) and isinstance(n.ctx, (ast.Load, ast.Del))}
    # locals() / vars() read every parameter
    if any(isinstance(n, ast.Call) and norm(n.func) in ('locals', 'vars') for n in ast.walk(fn.node)):
        return []
    a = fn.node.args
    ps = [x.arg for x in a.posonlyargs + a.args + a.kwonlyargs]
    return [p for p in ps if p not in used and p not in ('self', 'cls') and not p.startswith('_')]


def check_parameters_used(ctx, rule: str, module_paths, floor: int = 0) -> int:
    ctx.rule(rule, 'every parameter of a function that does something is read by its body: an option that is accepted and then ignored (no longer '
                   'forwarded to the helper that implements it) silently falls back to that helper\'s default', floor=floor)
    M = ctx.model
    n = 0
    for path in module_paths:
        mod = M.module(path)
        fns = [f for c in mod.classes.values() for f in list(c.methods.values()) + list(c.setters.values())] + list(mod.functions.values())
        for fn in fns:
            a = fn.node.args
            if not (a.posonlyargs or a.args or a.kwonlyargs):
                continue
            # private helpers may share a uniform signature with their siblings (dispatch-table slots); the rule is about the public API
            if fn.name.startswith('_') and not (fn.name.startswith('__') and fn.name.endswith('__')):
                continue
            construct = fn.qualname
            ctx.instance(rule, construct)
            n += 1
            un = unused_parameters(fn)
            # an override may ignore a parameter of the interface it implements
            if un and fn.cls is not None:
                for b in M.mro(fn.cls)[1:]:
                    m = b.methods.get(fn.name)
                    if m is not None:
                        un = [p for p in un if p not in m.params]
            ctx.obligation(rule, construct, not un, {'never_read': un} if un else None, nontrivial=len(fn.params) > 1)
            for p in un[:1]:
                ctx.violation(rule, construct, 'parameter `%s` is accepted but never read: callers that pass it get the behaviour of the default' % p,
                              fn.path, fn.lineno, operand='unused:' + p)
    return n


# ---------------------------------------------------------------------------------------------------------------
def unforwarded_options(model, fn: FuncInfo):
    """(call node, option, callee names): fn has a parameter `p`; it calls a method / function `m` such that EVERY definition of `m`
    in the package takes a parameter of the same name `p`, and the call passes neither a positional argument in that slot nor
    the keyword - the option the caller was given is silently replaced by the callee's default."""
    a = fn.node.args
    own = [x.arg for x in a.posonlyargs + a.args + a.kwonlyargs if x.arg not in ('self', 'cls')]
    if not own:
        return
    index = model.__dict__.setdefault('_fn_by_name', None)
    if index is None:
        index = {}
        for g in model.all_functions():
            if g.kind != 'nested':
                index.setdefault(g.name, []).append(g)
        model.__dict__['_fn_by_name'] = index
    # innermost statement list containing each node
    block_of = {}
    for owner in ast.walk(fn.node):
        for fld in ('body', 'orelse', 'finalbody'):
            b = getattr(owner, fld, None)
            if isinstance(b, list) and b and isinstance(b[0], ast.stmt):
                for st in b:
                    for x in ast.walk(st):
                        block_of[id(x)] = b            # later (inner) owners overwrite outer ones: ast.walk is breadth-first
    for n in walk_no_nested(fn.node):
        if not isinstance(n, ast.Call):
            continue
        name = n.func.attr if isinstance(n.func, ast.Attribute) else n.func.id if isinstance(n.func, ast.Name) else None
        if name is None:
            continue
        root = n.func
        while isinstance(root, (ast.Attribute, ast.Subscript, ast.Call)):
            root = root.func if isinstance(root, ast.Call) else root.value
        if isinstance(root, ast.Name) and root.id in own:
            continue                                        # a method of the argument itself (an external object)
        cands = index.get(name, [])
        if not cands or any(isinstance(x, ast.Starred) for x in n.args) or any(k.arg is None for k in n.keywords):
            continue
        for p in own:
            slots = []
            for g in cands:
                ga = g.node.args
                names = [x.arg for x in ga.posonlyargs + ga.args]
                if g.kind in ('method', 'getter', 'setter', 'classmethod') and names and names[0] in ('self', 'cls'):
                    names = names[1:]
                kwonly = [x.arg for x in ga.kwonlyargs]
                if p in names:
                    ndef = len(ga.defaults)
                    has_default = names.index(p) >= len(names) - ndef if g.kind not in ('method', 'getter', 'setter', 'classmethod') or True else False
                    slots.append((names.index(p), has_default))
                elif p in kwonly:
                    slots.append((None, True))
                else:
                    slots = None
                    break
            if not slots or not all(hd for _, hd in slots):
                continue
            passed = any(k.arg == p for k in n.keywords) or any(pos is not None and len(n.args) > pos for pos, _ in slots)
            if passed:
                continue
            # the option is used in another way in the same block (e.g. handed over under another name): not dropped
            blk = block_of.get(id(n), fn.node.body)
            if any(isinstance(x, ast.Name) and x.id == p and isinstance(x.ctx, ast.Load) for st in blk if not isinstance(st, ast.Assert)
                   for x in ast.walk(st)):
                continue                                    # (type assertions on the option are not a use of it)
            yield n, p, sorted({g.qualname for g in cands})


def check_options_forwarded(ctx, rule: str, module_paths, floor: int = 0) -> int:
    ctx.rule(rule, 'an optional parameter that a function shares by name with EVERY definition of a callee is forwarded to that callee '
                   '(positionally or by keyword) - it is not silently replaced by the callee\'s default', floor=floor)
    M = ctx.model
    n = 0
    for path in module_paths:
        mod = M.module(path)
        fns = [f for c in mod.classes.values() for f in list(c.methods.values()) + list(c.setters.values())] + list(mod.functions.values())
        for fn in fns:
            if not any(isinstance(x, ast.Call) for x in walk_no_nested(fn.node)) or len(fn.params) < 2:
                continue
            construct = fn.qualname
            ctx.instance(rule, construct)
            n += 1
            hits = list(unforwarded_options(M, fn))
            ctx.obligation(rule, construct, not hits, {'dropped': [(norm(h[0])[:50], h[1]) for h in hits]} if hits else None, nontrivial=bool(hits))
            for node, p, callees in hits[:1]:
                ctx.violation(rule, construct, '`%s` does not pass on the option `%s` that every definition of the callee (%s) accepts: callers '
                              'of %s that set `%s` get the callee\'s default instead' % (norm(node)[:60], p, ', '.join(callees)[:80], fn.name, p),
                              fn.path, node.lineno, operand='dropped:' + p)
    return n


# ---------------------------------------------------------------------------------------------------------------
def property_reads(model, cls, depth: int = 3) -> dict:
    """{property name: set of attributes its getter reads, directly or through other properties of the class}"""
    getters = {}
    for c in model.mro(cls):
        for name, g in c.getters.items():
            getters.setdefault(name, g)
    out = {}

    def reads(name, d):
        g = getters.get(name)
        if g is None or d > depth:
            return set()
        sn = g.self_name or 'self'
        r = set()
        for n in ast.walk(g.node):
            if isinstance(n, ast.Attribute) and isinstance(n.value, ast.Name) and n.value.id == sn and isinstance(n.ctx, ast.Load):
                if n.attr in getters and n.attr != name:
                    r |= reads(n.attr, d + 1)
                else:
                    r.add(n.attr)
        return r
    for name in getters:
        out[name] = reads(name, 0)
    return out


def stale_derived_reads(model, cls, fn: FuncInfo):
    """(use node, local, property, attribute): inside a mutator, a local is bound to a derived property of the object (its getter
    reads attribute A) BEFORE the statement that overwrites A, and the local is used AFTER that statement: what is used is the
    value derived from the OLD A.  Locals whose name says so (old_*, prev_*, previous_*, *_before, *_old) are meant to."""
    sn = fn.self_name
    if sn is None:
        return
    props = property_reads(model, cls)
    stmts = stmts_in_order(fn)
    order = {id(s): i for i, s in enumerate(stmts)}
    stores = []                                  # (index, attribute)
    for s in stmts:
        if isinstance(s, (ast.Assign, ast.AugAssign, ast.AnnAssign)):
            for t in (s.targets if isinstance(s, ast.Assign) else [s.target]):
                if isinstance(t, ast.Attribute) and isinstance(t.value, ast.Name) and t.value.id == sn:
                    stores.append((order[id(s)], t.attr))
    if not stores:
        return
    for s in stmts:
        if not (isinstance(s, ast.Assign) and len(s.targets) == 1 and isinstance(s.targets[0], ast.Name)):
            continue
        loc = s.targets[0].id
        low = loc.lower()
        if low.startswith(('old', 'prev', 'previous', 'orig', 'saved', 'former')) or low.endswith(('_old', '_before', '_prev', '_orig')):
            continue
        derived = [(n.attr, props[n.attr]) for n in ast.walk(s.value) if isinstance(n, ast.Attribute) and isinstance(n.value, ast.Name)
                   and n.value.id == sn and n.attr in props]
        i = order[id(s)]
        for pname, reads in derived:
            for j, a in stores:
                if j > i and a in reads and a != pname:
                    # rebinding of the local between the store and the use cancels it
                    rebinds = [order[id(x)] for x in stmts if isinstance(x, ast.Assign) and any(isinstance(t, ast.Name) and t.id == loc for t in x.targets)
                               and order[id(x)] > i]
                    for u in stmts:
                        k = order[id(u)]
                        if k <= j or any(i < r <= k for r in rebinds):
                            continue
                        own = []
                        for fld, v in ast.iter_fields(u):
                            if fld in ('body', 'orelse', 'finalbody', 'handlers'):
                                continue
                            for x in (v if isinstance(v, list) else [v]):
                                if isinstance(x, ast.AST):
                                    own.extend(ast.walk(x))
                        hit = next((x for x in own if isinstance(x, ast.Name) and x.id == loc and isinstance(x.ctx, ast.Load)), None)
                        if hit is not None:
                            yield hit, loc, pname, a
                            break


def check_no_stale_derived(ctx, rule: str, module_paths, floor: int = 0) -> int:
    ctx.rule(rule, 'inside a mutator, a value read from a DERIVED property of the object before the attribute it derives from is overwritten is '
                   'not used after the overwrite (it describes the old state; locals named old_/prev_/... are exempt)', floor=floor)
    M = ctx.model
    n = 0
    for path in module_paths:
        mod = M.module(path)
        for c in mod.classes.values():
            for fn in list(c.methods.values()) + list(c.setters.values()):
                sn = fn.self_name
                if sn is None or not any(isinstance(x, ast.Attribute) and isinstance(x.ctx, ast.Store) and isinstance(x.value, ast.Name)
                                         and x.value.id == sn for x in ast.walk(fn.node)):
                    continue
                construct = fn.qualname
                ctx.instance(rule, construct)
                n += 1
                hits = list(stale_derived_reads(M, c, fn))
                ctx.obligation(rule, construct, not hits, {'stale': [(h[1], h[2], h[3]) for h in hits]} if hits else None, nontrivial=bool(hits))
                for node, loc, pname, a in hits[:1]:
                    ctx.violation(rule, construct, '`%s` is read from the derived property `%s` before `self.%s` (from which it is derived) is overwritten, and '
                                  'used after that at line %d: the value belongs to the old state' % (loc, pname, a, node.lineno),
                                  fn.path, node.lineno, operand='stale:' + loc)
    return n


# ---------------------------------------------------------------------------------------------------------------
def tolerance_selected_returns(fn: FuncInfo):
    """(if node, call): an `if` whose test calls np.isclose / np.allclose / math.isclose WITHOUT explicit tolerances and whose
    branch returns: the result is then computed by another formula for every input within the DEFAULT absolute tolerance
    (1e-8) of the special case - inputs that are dimensional quantities (Hz x s, linear power gains) live well below that."""
    for n in walk_no_nested(fn.node):
        if not isinstance(n, ast.If):
            continue
        calls = [c for c in ast.walk(n.test) if isinstance(c, ast.Call) and norm(c.func).split('.')[-1] in ('isclose', 'allclose')
                 and not any(k.arg in ('atol', 'rtol', 'abs_tol', 'rel_tol') for k in c.keywords) and len(c.args) <= 2]
        if not calls:
            continue
        if any(isinstance(x, ast.Return) for b in n.body for x in ast.walk(b)) or \
                any(isinstance(x, ast.Return) for b in n.orelse for x in ast.walk(b)):
            yield n, calls[0]


def check_no_tolerance_fast_paths(ctx, rule: str, module_paths, floor: int = 0) -> int:
    ctx.rule(rule, 'no result is selected by a closeness test with DEFAULT tolerances (np.isclose / np.allclose guarding a return): within 1e-8 '
                   '(absolute) of the special case the general formula and the shortcut differ, and physical inputs are routinely that small', floor=floor)
    M = ctx.model
    n = 0
    for path in module_paths:
        mod = M.module(path)
        fns = [f for c in mod.classes.values() for f in list(c.methods.values()) + list(c.getters.values()) + list(c.setters.values())]
        fns += list(mod.functions.values())
        for fn in fns:
            construct = fn.qualname
            ctx.instance(rule, construct)
            n += 1
            hits = list(tolerance_selected_returns(fn))
            ctx.obligation(rule, construct, not hits, {'closeness_tests': [norm(h[1])[:60] for h in hits]} if hits else None,
                           nontrivial=any(isinstance(x, ast.If) for x in ast.walk(fn.node)))
            for node, call in hits[:1]:
                ctx.violation(rule, construct, 'the result returned under `%s` is selected by a closeness test with the default absolute tolerance 1e-8: '
                              'inputs that are merely small (not the special case) take the shortcut' % norm(call)[:70],
                              fn.path, node.lineno, operand='tolerance-path')
    return n


# ---------------------------------------------------------------------------------------------------------------
def elementwise_self_normalisations(fn: FuncInfo):
    """(node, base): `z / np.abs(z)`, `z.conj() / abs(z)`, `np.conj(z) / np.abs(z)` - the phase of every ELEMENT obtained by
    dividing by its own magnitude: an element that is exactly 0 (a blocked antenna, a zero tap) gives 0/0 = nan where
    `np.exp(1j * np.angle(z))` gives phase 0."""
    def base(e):
        while True:
            if isinstance(e, ast.Call) and isinstance(e.func, ast.Attribute) and e.func.attr in ('conj', 'conjugate') and not e.args:
                e = e.func.value
            elif isinstance(e, ast.Call) and norm(e.func) in ('np.conj', 'np.conjugate', 'numpy.conj') and len(e.args) == 1:
                e = e.args[0]
            elif isinstance(e, ast.UnaryOp):
                e = e.operand
            else:
                return e
    for n in walk_no_nested(fn.node):
        if isinstance(n, ast.BinOp) and isinstance(n.op, ast.Div) and isinstance(n.right, ast.Call) \
                and norm(n.right.func) in ('np.abs', 'abs', 'np.absolute', 'numpy.abs') and len(n.right.args) == 1:
            b = norm(base(n.right.args[0]))
            if norm(base(n.left)) == b:
                yield n, b


def check_no_self_normalisation(ctx, rule: str, module_paths, floor: int = 0) -> int:
    ctx.rule(rule, 'the phase of the elements of an array is never obtained as z / |z| (0/0 = nan for an element that is exactly zero)', floor=floor)
    M = ctx.model
    n = 0
    for path in module_paths:
        mod = M.module(path)
        fns = [f for c in mod.classes.values() for f in list(c.methods.values()) + list(c.getters.values())] + list(mod.functions.values())
        for fn in fns:
            construct = fn.qualname
            ctx.instance(rule, construct)
            n += 1
            hits = list(elementwise_self_normalisations(fn))
            ctx.obligation(rule, construct, not hits, {'self_normalised': [norm(h[0])[:60] for h in hits]} if hits else None,
                           nontrivial=any(isinstance(x, ast.BinOp) and isinstance(x.op, ast.Div) for x in ast.walk(fn.node)))
            for node, b in hits[:1]:
                ctx.violation(rule, construct, '`%s` divides every element of `%s` by its own magnitude: an element that is exactly zero becomes nan '
                              '(0/0), and the nan spreads to every result computed from it' % (norm(node)[:60], b), fn.path, node.lineno,
                              operand='z-over-abs-z')
    return n


# ---------------------------------------------------------------------------------------------------------------
def mean_count_mismatches(fn: FuncInfo):
    """(node, base, slice text): a sum / product over a SLICE `X[a:b]` is turned into a mean (divided by, or taken to the power
    1 / ...) with the element count of the WHOLE array (`X.size`, `len(X)`, `X.shape[0]`): right only when the slice is
    everything."""
    def sliced_bases(e):
        out = {}
        for x in ast.walk(e):
            if isinstance(x, ast.Subscript) and isinstance(x.slice, ast.Slice) and (x.slice.upper is not None or x.slice.lower is not None):
                out[norm(x.value)] = norm(x)
        return out

    def whole_count(e):
        """base X when e is X.size / len(X) / X.shape[0] / np.size(X)"""
        if isinstance(e, ast.Attribute) and e.attr == 'size':
            return norm(e.value)
        if isinstance(e, ast.Call) and norm(e.func) in ('len', 'np.size') and len(e.args) == 1:
            return norm(e.args[0])
        if isinstance(e, ast.Subscript) and isinstance(e.value, ast.Attribute) and e.value.attr == 'shape':
            return norm(e.value.value)
        return None

    def is_reduction(e):
        return isinstance(e, ast.Call) and (norm(e.func) in ('np.sum', 'sum', 'np.prod', 'np.nansum', 'math.fsum', 'np.cumsum') or
                                            (isinstance(e.func, ast.Attribute) and e.func.attr in ('sum', 'prod')))
    for n in walk_no_nested(fn.node):
        if isinstance(n, ast.BinOp) and isinstance(n.op, ast.Div):
            reds = [x for x in ast.walk(n.left) if is_reduction(x)]
            cnt = whole_count(n.right)
            if cnt and reds:
                for r in reds:
                    sb = sliced_bases(r)
                    if cnt in sb:
                        yield n, cnt, sb[cnt]
        if isinstance(n, ast.BinOp) and isinstance(n.op, ast.Pow) and isinstance(n.right, ast.BinOp) and isinstance(n.right.op, ast.Div):
            cnt = whole_count(n.right.right)
            reds = [x for x in ast.walk(n.left) if is_reduction(x)]
            if cnt and reds:
                for r in reds:
                    sb = sliced_bases(r)
                    if cnt in sb:
                        yield n, cnt, sb[cnt]


def check_mean_counts(ctx, rule: str, module_paths, floor: int = 0) -> int:
    ctx.rule(rule, 'a sum / product over a slice `X[a:b]` is never averaged with the element count of the whole `X` (X.size, len(X), X.shape[0])',
             floor=floor)
    M = ctx.model
    n = 0
    for path in module_paths:
        mod = M.module(path)
        fns = [f for c in mod.classes.values() for f in list(c.methods.values()) + list(c.getters.values())] + list(mod.functions.values())
        for fn in fns:
            construct = fn.qualname
            ctx.instance(rule, construct)
            n += 1
            hits = list(mean_count_mismatches(fn))
            ctx.obligation(rule, construct, not hits, {'mismatch': [(h[1], h[2]) for h in hits]} if hits else None, nontrivial=bool(hits))
            for node, base, sl in hits[:1]:
                ctx.violation(rule, construct, '`%s` averages over the slice `%s` with the element count of the whole `%s`: the mean is wrong whenever '
                              'the slice is not the whole array' % (norm(node)[:70], sl, base), fn.path, node.lineno, operand='count:' + base)
    return n


# ---------------------------------------------------------------------------------------------------------------
def stale_masks(fn: FuncInfo):
    """(use node, mask, array): a boolean mask / index array is computed from an array X (`X == 0`, `X > t`, `~m`, `np.nonzero(X ...)`,
    `np.argsort(X)`), X is then RE-BOUND (broadcast, reshaped, converted, replaced) and the mask is used as an index after
    that: it describes the old X - its shape or order need not match the new one."""
    stmts = stmts_in_order(fn)
    order = {id(s): i for i, s in enumerate(stmts)}
    binds = {}
    for s in stmts:
        tg = []
        if isinstance(s, ast.Assign):
            tg = s.targets
        elif isinstance(s, (ast.AnnAssign, ast.AugAssign)):
            tg = [s.target]
        elif isinstance(s, ast.For):
            tg = [s.target]
        for t in tg:
            for x in ast.walk(t):
                if isinstance(x, ast.Name) and isinstance(x.ctx, ast.Store):
                    binds.setdefault(x.id, []).append(order[id(s)])
    masks = {}                 # name -> (index of def, set of source array names)
    for s in stmts:
        if isinstance(s, ast.Assign) and len(s.targets) == 1 and isinstance(s.targets[0], ast.Name):
            v = s.value
            src = None
            while isinstance(v, ast.UnaryOp) and isinstance(v.op, ast.Invert):
                v = v.operand
            if isinstance(v, ast.Compare):
                src = {x.id for x in ast.walk(v) if isinstance(x, ast.Name)}
            elif isinstance(v, ast.Name) and v.id in masks:
                src = set(masks[v.id][1])
            elif isinstance(v, ast.Call) and norm(v.func) in ('np.nonzero', 'np.flatnonzero', 'np.where', 'np.argsort', 'np.logical_not', 'np.isnan') and v.args:
                src = {x.id for x in ast.walk(v.args[0]) if isinstance(x, ast.Name)}
            if src:
                src -= {s.targets[0].id}
                if src and len(binds.get(s.targets[0].id, [])) == 1:
                    masks[s.targets[0].id] = (order[id(s)], src)
    for m, (i, src) in masks.items():
        for x_name in sorted(src):
            rebinds = [k for k in binds.get(x_name, []) if k > i]
            if not rebinds:
                continue
            first = min(rebinds)
            for s in stmts:
                k = order[id(s)]
                if k <= first:
                    continue
                own = []
                for fld, v in ast.iter_fields(s):
                    if fld in ('body', 'orelse', 'finalbody', 'handlers'):
                        continue
                    for x in (v if isinstance(v, list) else [v]):
                        if isinstance(x, ast.AST):
                            own.extend(ast.walk(x))
                hit = next((x for x in own if isinstance(x, ast.Subscript) and any(isinstance(y, ast.Name) and y.id == m for y in ast.walk(x.slice))), None)
                if hit is not None:
                    yield hit, m, x_name
                    break


def check_no_stale_masks(ctx, rule: str, module_paths, floor: int = 0) -> int:
    ctx.rule(rule, 'a mask / index array computed from an array is not used as an index after that array was re-bound (broadcast, reshaped, '
                   'replaced): it must be computed from the array in its final form', floor=floor)
    M = ctx.model
    n = 0
    for path in module_paths:
        mod = M.module(path)
        fns = [f for c in mod.classes.values() for f in list(c.methods.values()) + list(c.getters.values())] + list(mod.functions.values())
        for fn in fns:
            construct = fn.qualname
            ctx.instance(rule, construct)
            n += 1
            hits = list(stale_masks(fn))
            ctx.obligation(rule, construct, not hits, {'stale': [(h[1], h[2]) for h in hits]} if hits else None, nontrivial=bool(hits))
            for node, m, x in hits[:1]:
                ctx.violation(rule, construct, 'the mask `%s` was computed from `%s` before `%s` was re-bound, and indexes `%s` afterwards: it describes the '
                              'old array (its shape / order need not match)' % (m, x, x, norm(node)[:50]), fn.path, node.lineno, operand='stale-mask:' + m)
    return n


# ---------------------------------------------------------------------------------------------------------------
ABSTRACT_SCALARS = {'np.integer', 'numbers.Integral', 'numbers.Number', 'numbers.Real', 'np.number', 'np.generic', 'Number', 'Integral', 'Real',
                    'np.floating', 'np.int_', 'np.float64', 'np.int64', 'np.signedinteger'}


def none_decided_by_builtin_isinstance(fn: FuncInfo):
    """(if node, parameter): an Optional parameter (annotated Optional / default None) is never compared with None; whether it was given
    is decided by `isinstance(p, int)` / `(int, str)` / `float` in an `if`: numpy scalars (np.int64 from an array, np.float32) are not
    instances of the builtin types and silently take the "not given" branch."""
    a = fn.node.args
    pos = a.posonlyargs + a.args
    defaults = dict(zip([x.arg for x in pos[len(pos) - len(a.defaults):]], a.defaults))
    defaults.update({x.arg: d for x, d in zip(a.kwonlyargs, a.kw_defaults) if d is not None})
    opt = {p.arg for p in pos + a.kwonlyargs if (p.annotation is not None and ('Optional' in norm(p.annotation) or 'None' in norm(p.annotation)))
           or (isinstance(defaults.get(p.arg), ast.Constant) and defaults[p.arg].value is None)}
    if not opt:
        return
    none_tested = set()
    for n in walk_no_nested(fn.node):
        if isinstance(n, ast.Compare) and len(n.ops) == 1 and isinstance(n.ops[0], (ast.Is, ast.IsNot, ast.Eq, ast.NotEq)) \
                and isinstance(n.comparators[0], ast.Constant) and n.comparators[0].value is None and isinstance(n.left, ast.Name):
            none_tested.add(n.left.id)
    for n in walk_no_nested(fn.node):
        if not isinstance(n, (ast.If, ast.IfExp)):
            continue
        for c in ast.walk(n.test):
            if isinstance(c, ast.Call) and norm(c.func) == 'isinstance' and len(c.args) == 2 and isinstance(c.args[0], ast.Name) \
                    and c.args[0].id in opt and c.args[0].id not in none_tested:
                t = c.args[1]
                names = {norm(e) for e in (t.elts if isinstance(t, ast.Tuple) else [t])}
                if not (names & {'int', 'float'} and not names & ABSTRACT_SCALARS):
                    continue
                # the branch taken when the isinstance test is False must IGNORE the parameter silently: it neither reads it nor raises
                negated = False
                u = n.test
                while isinstance(u, ast.UnaryOp) and isinstance(u.op, ast.Not):
                    negated = not negated
                    u = u.operand
                if u is not c:
                    continue                                  # part of a larger condition: not decided here
                if isinstance(n, ast.IfExp):
                    other = [n.body] if negated else [n.orelse]
                else:
                    other = n.body if negated else n.orelse
                pname = c.args[0].id
                reads = any(isinstance(x, ast.Name) and x.id == pname for b in other for x in ast.walk(b))
                raises = any(isinstance(x, ast.Raise) for b in other for x in ast.walk(b))
                if other and not reads and not raises:
                    yield n, pname


def check_none_tests(ctx, rule: str, module_paths, floor: int = 0) -> int:
    ctx.rule(rule, 'whether an Optional parameter was given is decided by comparing it with None, not by `isinstance(p, int / float / str)`: numpy '
                   'scalars are not instances of the builtin types and would be treated as "not given"', floor=floor)
    M = ctx.model
    n = 0
    for path in module_paths:
        mod = M.module(path)
        fns = [f for c in mod.classes.values() for f in list(c.methods.values()) + list(c.setters.values())] + list(mod.functions.values())
        for fn in fns:
            a = fn.node.args
            if not any(isinstance(d, ast.Constant) and d.value is None for d in list(a.defaults) + [d for d in a.kw_defaults if d is not None]) and \
                    not any(p.annotation is not None and 'Optional' in norm(p.annotation) for p in a.posonlyargs + a.args + a.kwonlyargs):
                continue
            construct = fn.qualname
            ctx.instance(rule, construct)
            n += 1
            hits = list(none_decided_by_builtin_isinstance(fn))
            ctx.obligation(rule, construct, not hits, {'decided_by_isinstance': [h[1] for h in hits]} if hits else None, nontrivial=bool(hits))
            for node, p in hits[:1]:
                ctx.violation(rule, construct, 'the Optional parameter `%s` is never compared with None; `%s` decides whether it was given, and a numpy '
                              'scalar (np.int64, np.float32) is not an instance of the builtin type: it is silently treated as not given'
                              % (p, norm(node.test)[:60]), fn.path, node.lineno, operand='isinstance-none:' + p)
    return n


def check_exact_matching(ctx, rule: str, module_paths, floor: int = 0) -> int:
    """Parameter values are matched / compared exactly."""
    ctx.rule(rule, 'parameter values are looked up and compared EXACTLY: no np.isclose / np.allclose / math.isclose with default tolerances in the '
                   'parameter and result containers (two legal grid values closer than 1e-8 absolute / 1e-5 relative would be confused)', floor=floor)
    M = ctx.model
    n = 0
    for path in module_paths:
        mod = M.module(path)
        fns = [f for c in mod.classes.values() for f in list(c.methods.values()) + list(c.getters.values()) + list(c.setters.values())]
        fns += list(mod.functions.values())
        for fn in fns:
            construct = fn.qualname
            ctx.instance(rule, construct)
            n += 1
            hits = [c for c in walk_no_nested(fn.node) if isinstance(c, ast.Call) and norm(c.func).split('.')[-1] in ('isclose', 'allclose')
                    and not any(k.arg in ('atol', 'rtol', 'abs_tol', 'rel_tol') for k in c.keywords) and len(c.args) <= 2]
            ctx.obligation(rule, construct, not hits, {'approximate': [norm(h)[:60] for h in hits]} if hits else None,
                           nontrivial=any(isinstance(x, ast.Compare) for x in ast.walk(fn.node)))
            for c in hits[:1]:
                ctx.violation(rule, construct, '`%s` matches parameter values approximately (default tolerances 1e-8 absolute, 1e-5 relative): distinct '
                              'values of a parameter grid (noise powers 1e-9 and 2e-9, carriers 1 kHz apart at 2.4 GHz) are taken for one another'
                              % norm(c)[:70], fn.path, c.lineno, operand='approximate-match')
    return n


# ---------------------------------------------------------------------------------------------------------------
def init_stores(model, cls, seen=None) -> set:
    """attributes that cls.__init__ stores (directly, or through the __init__ of a base class it calls)"""
    seen = seen or set()
    if cls is None or cls.name in seen:
        return set()
    seen = seen | {cls.name}
    fn = cls.methods.get('__init__')
    if fn is None:
        out = set()
        for b in cls.bases:
            out |= init_stores(model, b, seen)
        return out
    sn = fn.self_name
    out = {n.attr for n in walk_no_nested(fn.node) if isinstance(n, ast.Attribute) and isinstance(n.ctx, ast.Store)
           and isinstance(n.value, ast.Name) and n.value.id == sn}
    for n in walk_no_nested(fn.node):
        if isinstance(n, ast.Call) and isinstance(n.func, ast.Attribute) and n.func.attr == '__init__':
            r = n.func.value
            if isinstance(r, ast.Call) and norm(r.func) == 'super':
                for b in model.mro(cls)[1:2]:
                    out |= init_stores(model, b, seen)
            elif isinstance(r, (ast.Name, ast.Attribute)) and norm(r) in model.classes:
                out |= init_stores(model, model.classes[norm(r)], seen)
    return out


def stores_overwritten_by_super(model, cls):
    """(store node, attribute, base class): in cls.__init__ an attribute is stored BEFORE the call of the base-class constructor,
    and that constructor stores the same attribute: whatever the subclass put there is overwritten."""
    fn = cls.methods.get('__init__')
    if fn is None:
        return
    sn = fn.self_name
    stmts = stmts_in_order(fn)
    for i, s in enumerate(stmts):
        if isinstance(s, (ast.If, ast.For, ast.While, ast.Try, ast.With)):
            continue
        for c in ast.walk(s):
            if not (isinstance(c, ast.Call) and isinstance(c.func, ast.Attribute) and c.func.attr == '__init__'):
                continue
            r = c.func.value
            base = None
            if isinstance(r, ast.Call) and norm(r.func) == 'super':
                mro = model.mro(cls)
                base = mro[1] if len(mro) > 1 else None
            elif isinstance(r, (ast.Name, ast.Attribute)) and norm(r) in model.classes:
                base = model.classes[norm(r)]
            if base is None:
                continue
            bs = init_stores(model, base)
            for e in stmts[:i]:
                if isinstance(e, (ast.If, ast.For, ast.While, ast.Try, ast.With)):
                    continue
                for n in ast.walk(e):
                    if isinstance(n, ast.Attribute) and isinstance(n.ctx, ast.Store) and isinstance(n.value, ast.Name) and n.value.id == sn \
                            and n.attr in bs:
                        yield n, n.attr, base.name


def check_init_order(ctx, rule: str, module_paths, floor: int = 0) -> int:
    ctx.rule(rule, 'a constructor does not store an attribute before calling a base-class constructor that stores the same attribute (the value of '
                   'the subclass would be overwritten)', floor=floor)
    M = ctx.model
    n = 0
    for path in module_paths:
        mod = M.module(path)
        for c in mod.classes.values():
            if '__init__' not in c.methods or not c.bases:
                continue
            construct = c.name + '.__init__'
            ctx.instance(rule, construct)
            n += 1
            hits = list(stores_overwritten_by_super(M, c))
            ctx.obligation(rule, construct, not hits, {'overwritten': sorted({h[1] for h in hits})} if hits else None, nontrivial=True)
            for node, attr, base in hits[:1]:
                ctx.violation(rule, construct, '`self.%s` is stored before the constructor of %s is called, and that constructor stores `%s` too: the value '
                              'set by %s is overwritten' % (attr, base, attr, c.name), c.module.path, node.lineno, operand='overwritten:' + attr)
    return n


# ---------------------------------------------------------------------------------------------------------------
def persistent_zero_buffers(fn: FuncInfo):
    """(store node, attribute): an array attribute is (re)created with np.zeros / np.empty only under a condition on itself (`if
    self._buf is None or self._buf.shape != shape: self._buf = np.zeros(shape)`) and is then written through a subscript - directly
    or through a local alias - without being cleared first: on every call after the one that created it, the entries outside the
    written region still hold what an EARLIER call stored there."""
    sn = fn.self_name
    if sn is None:
        return
    from .model import is_self_attr
    lazy = {}
    for n in walk_no_nested(fn.node):
        if not isinstance(n, ast.If):
            continue
        tested = {x.attr for x in ast.walk(n.test) if isinstance(x, ast.Attribute) and isinstance(x.value, ast.Name) and x.value.id == sn}
        for b in n.body:
            for s in ast.walk(b):
                if isinstance(s, (ast.Assign, ast.AnnAssign)) and getattr(s, 'value', None) is not None and isinstance(s.value, ast.Call) \
                        and norm(s.value.func) in ('np.zeros', 'np.empty', 'numpy.zeros', 'numpy.empty', 'np.zeros_like', 'np.empty_like'):
                    for t in (s.targets if isinstance(s, ast.Assign) else [s.target]):
                        a = is_self_attr(t, sn)
                        if a and a in tested:
                            lazy[a] = n
    if not lazy:
        return
    stmts = stmts_in_order(fn)
    order = {id(s): i for i, s in enumerate(stmts)}
    alias = {}
    for s in stmts:
        if isinstance(s, ast.Assign) and len(s.targets) == 1 and isinstance(s.targets[0], ast.Name):
            a = is_self_attr(s.value, sn)
            if a in lazy:
                alias[s.targets[0].id] = a
    for s in stmts:
        if not isinstance(s, (ast.Assign, ast.AugAssign)):
            continue
        for t in (s.targets if isinstance(s, ast.Assign) else [s.target]):
            if not isinstance(t, ast.Subscript):
                continue
            root = t.value
            a = is_self_attr(root, sn) if isinstance(root, ast.Attribute) else alias.get(root.id) if isinstance(root, ast.Name) else None
            if a not in lazy or order[id(s)] < order[id(lazy[a])]:
                continue
            if any(s is x for x in ast.walk(lazy[a])):
                continue                                  # the fill that belongs to the creation itself
            sl = t.slice
            full = (isinstance(sl, ast.Slice) and sl.lower is None and sl.upper is None) or (isinstance(sl, ast.Constant) and sl.value is Ellipsis)
            if full:
                continue
            # cleared between the conditional creation and this store?
            cleared = False
            for c in stmts[order[id(lazy[a])] + 1:order[id(s)]]:
                if isinstance(c, ast.Assign):
                    for t2 in c.targets:
                        if isinstance(t2, ast.Subscript):
                            r2 = t2.value
                            a2 = is_self_attr(r2, sn) if isinstance(r2, ast.Attribute) else alias.get(r2.id) if isinstance(r2, ast.Name) else None
                            s2 = t2.slice
                            if a2 == a and ((isinstance(s2, ast.Slice) and s2.lower is None and s2.upper is None) or
                                            (isinstance(s2, ast.Constant) and s2.value is Ellipsis)):
                                cleared = True
                if isinstance(c, ast.Expr) and isinstance(c.value, ast.Call) and isinstance(c.value.func, ast.Attribute) and c.value.func.attr == 'fill':
                    r2 = c.value.func.value
                    a2 = is_self_attr(r2, sn) if isinstance(r2, ast.Attribute) else alias.get(r2.id) if isinstance(r2, ast.Name) else None
                    if a2 == a:
                        cleared = True
            if not cleared:
                yield s, a
                lazy.pop(a)
                if not lazy:
                    return


def check_no_persistent_buffers(ctx, rule: str, module_paths, floor: int = 0) -> int:
    ctx.rule(rule, 'a zero-initialised work array is not kept in the object between calls and only partly rewritten (conditional re-creation + '
                   'subscript store without a clear): entries outside the rewritten region would leak from the previous call', floor=floor)
    M = ctx.model
    n = 0
    for path in module_paths:
        mod = M.module(path)
        for c in mod.classes.values():
            for fn in list(c.methods.values()) + list(c.getters.values()) + list(c.setters.values()):
                if fn.self_name is None:
                    continue
                construct = fn.qualname
                ctx.instance(rule, construct)
                n += 1
                hits = list(persistent_zero_buffers(fn))
                ctx.obligation(rule, construct, not hits, {'buffers': [h[1] for h in hits]} if hits else None,
                               nontrivial=any(isinstance(x, ast.Call) and norm(x.func) in ('np.zeros', 'np.empty') for x in ast.walk(fn.node)))
                for node, a in hits[:1]:
                    ctx.violation(rule, construct, '`self.%s` is created with zeros only when it is missing or has another shape, and `%s` rewrites only a '
                                  'part of it: what an earlier call stored outside that part is still there' % (a, norm(node)[:60]),
                                  fn.path, node.lineno, operand='buffer:' + a)
    return n


# ---------------------------------------------------------------------------------------------------------------
def shared_memo_hazards(model, module_paths):
    """[(node, class, dict name, why)] for dictionaries defined at CLASS level (one object shared by all instances and by all
    subclasses) that methods fill as a memo:
      * 'instance-data'  the stored value is computed from `self.<attribute>` data that is not part of the key - instances that agree
                         on the key but differ in that attribute (e.g. two subclasses with the same M) share one entry;
      * 'two-writers'    two different functions store entries under keys of the same form - each will find the other's entries."""
    from .astutil import return_dependences
    out = []
    for path in module_paths:
        mod = model.module(path)
        for c in mod.classes.values():
            shared = {k for k, v in c.class_attrs.items() if isinstance(v, (ast.Dict,)) or (isinstance(v, ast.Call) and norm(v.func) in ('dict', 'OrderedDict'))}
            if not shared:
                continue
            users = [c] + model.subclasses(c)
            writers = {}
            for u in users:
                for fn in list(u.methods.values()) + list(u.getters.values()) + list(u.setters.values()):
                    sn = fn.self_name
                    for n in walk_no_nested(fn.node):
                        if not (isinstance(n, ast.Assign) and len(n.targets) == 1 and isinstance(n.targets[0], ast.Subscript)):
                            continue
                        t = n.targets[0]
                        base = t.value
                        nm = base.attr if isinstance(base, ast.Attribute) and isinstance(base.value, ast.Name) and \
                            (base.value.id in (sn, 'cls') or base.value.id in model.classes) else None
                        if nm not in shared:
                            continue
                        writers.setdefault(nm, []).append((fn, n))
                        # dependences of the stored value on instance data
                        if sn is None:
                            continue
                        from .astutil import single_locals, expand
                        val = expand(n.value, single_locals(fn))
                        key_attrs = {x.attr for x in ast.walk(t.slice) if isinstance(x, ast.Attribute) and isinstance(x.value, ast.Name) and x.value.id == sn}
                        used = {x.attr for x in ast.walk(val) if isinstance(x, ast.Attribute) and isinstance(x.value, ast.Name) and x.value.id == sn
                                and isinstance(x.ctx, ast.Load)} - {nm}
                        extra = sorted(used - key_attrs)
                        if extra:
                            out.append((n, c, nm, 'instance-data', 'the value stored under `%s` is computed from self.%s, which is not part of the key: '
                                        'instances (and subclasses) that agree on the key but differ there share one entry' % (norm(t.slice)[:30], ', self.'.join(extra))))
            for nm, ws in writers.items():
                fns = {w[0].qualname for w in ws}
                if len(fns) > 1:
                    w = ws[-1]
                    out.append((w[1], c, nm, 'two-writers', 'the class-level dictionary `%s` is filled by %s: each finds the entries the other stored under '
                                'the same key' % (nm, ' and '.join(sorted(fns)))))
    return out


def check_shared_memos(ctx, rule: str, module_paths, floor: int = 0) -> int:
    ctx.rule(rule, 'a dictionary defined at class level (shared by all instances and subclasses) that is filled as a memo has one writer, and its '
                   'entries depend on nothing but the key', floor=floor)
    M = ctx.model
    n = 0
    for path in module_paths:
        for c in M.module(path).classes.values():
            ctx.instance(rule, c.name)
            n += 1
    hits = shared_memo_hazards(M, module_paths)
    flagged = {h[1].name for h in hits}
    for path in module_paths:
        for c in M.module(path).classes.values():
            ctx.obligation(rule, c.name, c.name not in flagged, None, nontrivial=any(isinstance(v, ast.Dict) for v in c.class_attrs.values()))
    for node, c, nm, kind, why in hits[:2]:
        ctx.violation(rule, '%s.%s' % (c.name, nm), why, c.module.path, node.lineno, operand='shared-memo:' + kind)
    return n


# ---------------------------------------------------------------------------------------------------------------
def array_attrs(model, cls) -> set:
    """attributes of the class family that hold numpy arrays (some stored value is a numpy call, a product, a view / copy of one)"""
    out = set()
    for c in [cls] + model.mro(cls)[1:] + model.subclasses(cls):
        for fn in list(c.methods.values()) + list(c.setters.values()):
            sn = fn.self_name
            if sn is None:
                continue
            for n in walk_no_nested(fn.node):
                if isinstance(n, (ast.Assign, ast.AnnAssign)) and getattr(n, 'value', None) is not None:
                    for t in (n.targets if isinstance(n, ast.Assign) else [n.target]):
                        if isinstance(t, ast.Attribute) and isinstance(t.value, ast.Name) and t.value.id == sn:
                            v = n.value
                            arr = any((isinstance(x, ast.Call) and (norm(x.func).startswith(('np.', 'numpy.')) or
                                                                      (isinstance(x.func, ast.Attribute) and x.func.attr in ('dot', 'conj', 'conjugate', 'copy', 'transpose', 'reshape'))))
                                      or (isinstance(x, ast.BinOp) and isinstance(x.op, ast.MatMult)) for x in ast.walk(v))
                            if not arr and isinstance(v, ast.Call) and isinstance(v.func, ast.Attribute) and isinstance(v.func.value, ast.Name) \
                                    and (v.func.value.id == sn or v.func.value.id in model.classes):
                                g = model.lookup_method(c if v.func.value.id == sn else model.classes[v.func.value.id], v.func.attr)
                                if g is not None:
                                    arr = any(isinstance(x, ast.Call) and norm(x.func).startswith(('np.', 'numpy.')) for r in walk_no_nested(g.node)
                                              if isinstance(r, ast.Return) and r.value is not None for x in ast.walk(r.value))
                            if arr:
                                out.add(t.attr)
    return out


INPLACE_DUNDER = {ast.Mult: '__imul__', ast.Add: '__iadd__', ast.Sub: '__isub__', ast.Div: '__itruediv__', ast.MatMult: '__imatmul__',
                  ast.FloorDiv: '__ifloordiv__', ast.Pow: '__ipow__'}


def alias_inplace_writes(model, fn: FuncInfo):
    """(node, local, what it aliases): a local bound to a piece of stored state - `x = self.attr` with an array attribute, or
    `x = obj.getter()` where every definition of that getter returns one of its attributes as it is - is then modified IN PLACE
    (`x -= ..`, `x[..] = ..`, or `x *= ..` on an object whose class defines the in-place operator): the stored state changes under
    the feet of its owner."""
    sn = fn.self_name
    idx = model.__dict__.get('_fn_by_name')
    if idx is None:
        idx = {}
        for h in model.all_functions():
            if h.kind != 'nested':
                idx.setdefault(h.name, []).append(h)
        model.__dict__['_fn_by_name'] = idx
    arrs = array_attrs(model, fn.cls) if (fn.cls is not None and sn is not None) else set()
    stmts = stmts_in_order(fn)
    alias = {}
    for s in stmts:
        if isinstance(s, ast.Assign) and len(s.targets) == 1 and isinstance(s.targets[0], ast.Name):
            name, v = s.targets[0].id, s.value
            alias.pop(name, None)
            if isinstance(v, ast.Attribute) and isinstance(v.value, ast.Name) and v.value.id == sn and v.attr in arrs:
                alias[name] = ('array', 'self.' + v.attr)
            elif isinstance(v, ast.Call) and isinstance(v.func, ast.Attribute) and not v.args and not v.keywords:
                cands = [g for g in idx.get(v.func.attr, []) if g.cls is not None and g.kind in ('method', 'getter')]
                # the receiver's class, when it is an attribute that the class family binds to a constructor call of a repository class
                recv = v.func.value
                if isinstance(recv, ast.Attribute) and isinstance(recv.value, ast.Name) and recv.value.id == sn and fn.cls is not None:
                    ks = set()
                    for c2 in [fn.cls] + model.mro(fn.cls)[1:] + model.subclasses(fn.cls):
                        for h in list(c2.methods.values()) + list(c2.setters.values()):
                            hs = h.self_name
                            for n in walk_no_nested(h.node):
                                if isinstance(n, (ast.Assign, ast.AnnAssign)) and getattr(n, 'value', None) is not None and isinstance(n.value, ast.Call):
                                    for t in (n.targets if isinstance(n, ast.Assign) else [n.target]):
                                        if isinstance(t, ast.Attribute) and isinstance(t.value, ast.Name) and t.value.id == hs and t.attr == recv.attr:
                                            f2 = norm(n.value.func).split('.')[-1]
                                            if f2 in model.classes:
                                                ks.add(f2)
                    if len(ks) == 1:
                        g0 = model.lookup_method(model.classes[ks.pop()], v.func.attr)
                        if g0 is not None:
                            cands = [g0]
                rets = []
                for g in cands:
                    rs = [r.value for r in walk_no_nested(g.node) if isinstance(r, ast.Return) and r.value is not None]
                    gs = g.self_name
                    if len(rs) == 1 and isinstance(rs[0], ast.Attribute) and isinstance(rs[0].value, ast.Name) and rs[0].value.id == gs:
                        rets.append((g, rs[0].attr))
                    else:
                        rets = []
                        break
                if rets and len(rets) == len(cands):
                    g, a = rets[0]
                    # what kind of object is stored there?
                    kinds = set()
                    for c2 in [g.cls] + model.subclasses(g.cls):
                        for h in list(c2.methods.values()) + list(c2.setters.values()):
                            hs = h.self_name
                            for n in walk_no_nested(h.node):
                                if isinstance(n, ast.Assign) and any(isinstance(t, ast.Attribute) and isinstance(t.value, ast.Name) and t.value.id == hs
                                                                     and t.attr == a for t in n.targets) and isinstance(n.value, ast.Call):
                                    f2 = norm(n.value.func)
                                    if f2 in model.classes:
                                        kinds.add(f2)
                                    elif f2.split('.')[-1] in model.classes:
                                        kinds.add(f2.split('.')[-1])
                                    elif f2.startswith(('np.', 'numpy.')):
                                        kinds.add('array')
                    ann = norm(g.node.returns).strip('\'"') if g.node.returns is not None else ''
                    for piece in ann.replace('Optional[', '').replace(']', '').replace('"', '').replace("'", '').split('|'):
                        if piece.strip().split('.')[-1] in model.classes:
                            kinds.add(piece.strip().split('.')[-1])
                        elif piece.strip() in ('np.ndarray', 'numpy.ndarray'):
                            kinds.add('array')
                    if a in array_attrs(model, g.cls):
                        kinds.add('array')
                    if kinds:
                        alias[name] = (sorted(kinds)[0] if len(kinds) == 1 else 'array' if 'array' in kinds else sorted(kinds)[0],
                                       '%s.%s (returned by %s)' % (g.cls.name, a, g.qualname))
            continue
        if isinstance(s, ast.AugAssign):
            t = s.target
            root = t
            while isinstance(root, ast.Subscript):
                root = root.value
            if isinstance(root, ast.Name) and root.id in alias:
                kind, what = alias[root.id]
                if kind == 'array' or isinstance(t, ast.Subscript):
                    yield s, root.id, what
                else:
                    k = model.classes.get(kind)
                    d = INPLACE_DUNDER.get(type(s.op))
                    if k is not None and d and any(d in c.methods for c in model.mro(k)):
                        yield s, root.id, what
        elif isinstance(s, ast.Assign):
            for t in s.targets:
                if isinstance(t, ast.Subscript):
                    root = t.value
                    while isinstance(root, ast.Subscript):
                        root = root.value
                    if isinstance(root, ast.Name) and root.id in alias and alias[root.id][0] == 'array':
                        yield s, root.id, alias[root.id][1]


def check_no_alias_inplace(ctx, rule: str, module_paths, floor: int = 0) -> int:
    ctx.rule(rule, 'stored state reached through a local alias (`x = self.attr`, `x = obj.getter()` returning an attribute as it is) is not modified '
                   'in place (`x -= ..`, `x[..] = ..`, `x *= ..` on a class with the in-place operator)', floor=floor)
    M = ctx.model
    n = 0
    for path in module_paths:
        mod = M.module(path)
        fns = [f for c in mod.classes.values() for f in list(c.methods.values()) + list(c.getters.values()) + list(c.setters.values())]
        for fn in fns:
            construct = fn.qualname
            ctx.instance(rule, construct)
            n += 1
            hits = list(alias_inplace_writes(M, fn))
            ctx.obligation(rule, construct, not hits, {'in_place': [(h[1], h[2]) for h in hits]} if hits else None,
                           nontrivial=any(isinstance(x, ast.AugAssign) for x in ast.walk(fn.node)))
            for node, name, what in hits[:1]:
                ctx.violation(rule, construct, '`%s` modifies in place the local `%s`, which IS %s: the stored state of its owner changes with it'
                              % (norm(node)[:50], name, what), fn.path, node.lineno, operand='alias-inplace:' + name)
    return n


# ---------------------------------------------------------------------------------------------------------------
def constructor_bypasses_setter(model, cls):
    """(store node, attribute, setter, overriding classes): cls.__init__ stores a constructor argument straight into a private
    attribute for which the class has a PUBLIC setter method that subclasses override (to validate / reshape / derive more
    state), and it never calls that setter: objects of those subclasses built through the constructor skip the override."""
    init = cls.methods.get('__init__')
    if init is None or init.self_name is None:
        return
    sn = init.self_name
    params = set(init.params) - {sn}
    called = {n.func.attr for n in walk_no_nested(init.node) if isinstance(n, ast.Call) and isinstance(n.func, ast.Attribute)
              and isinstance(n.func.value, ast.Name) and n.func.value.id == sn}
    for n in walk_no_nested(init.node):
        if not (isinstance(n, ast.Assign) and len(n.targets) == 1 and isinstance(n.value, ast.Name) and n.value.id in params):
            continue
        t = n.targets[0]
        if not (isinstance(t, ast.Attribute) and isinstance(t.value, ast.Name) and t.value.id == sn and t.attr.startswith('_')):
            continue
        for name, m in cls.methods.items():
            if name.startswith('_') or m.self_name is None or name == '__init__':
                continue
            mp = set(m.params) - {m.self_name}
            stores = any(isinstance(x, ast.Assign) and any(isinstance(tt, ast.Attribute) and isinstance(tt.value, ast.Name) and tt.value.id == m.self_name
                                                            and tt.attr == t.attr for tt in x.targets)
                         and any(isinstance(y, ast.Name) and y.id in mp for y in ast.walk(x.value)) for x in walk_no_nested(m.node))
            if not stores:
                continue
            overriders = [s.name for s in model.subclasses(cls) if name in s.methods]
            if overriders and name not in called:
                yield n, t.attr, name, overriders


def check_constructor_uses_setter(ctx, rule: str, module_paths, floor: int = 0) -> int:
    ctx.rule(rule, 'a constructor that receives the value of a private attribute for which subclasses override the public setter method passes it through '
                   'that setter (virtual call), not only into the attribute', floor=floor)
    M = ctx.model
    n = 0
    for path in module_paths:
        for c in M.module(path).classes.values():
            if '__init__' not in c.methods:
                continue
            construct = c.name + '.__init__'
            ctx.instance(rule, construct)
            n += 1
            hits = list(constructor_bypasses_setter(M, c))
            ctx.obligation(rule, construct, not hits, {'bypassed': [(h[1], h[2]) for h in hits]} if hits else None, nontrivial=bool(M.subclasses(c)))
            for node, attr, setter, over in hits[:1]:
                ctx.violation(rule, construct, '`%s` stores the constructor argument without calling `%s`, which %s override: an object of those classes '
                              'built through the constructor skips what the override does (validation, reshaping, derived state)'
                              % (norm(node)[:50], setter, ', '.join(over)), c.module.path, node.lineno, operand='bypass:' + attr)
    return n


# ---------------------------------------------------------------------------------------------------------------
def complex_square_sums(fn: FuncInfo):
    """(node): `np.sum(X ** 2)` / `np.sum(X * X)` / `np.trace(X.dot(X.T))`-free spelling of an ENERGY without a modulus: for a complex X
    the square is not |X|^2 (it can even be negative or complex); `np.abs(X) ** 2`, `X * X.conj()` or `np.linalg.norm(X) ** 2` are."""
    REAL_MAKERS = {'abs', 'absolute', 'real', 'imag', 'sin', 'cos', 'norm', 'angle', 'log', 'log2', 'log10', 'sqrt', 'arange', 'linspace', 'count_nonzero'}
    for n in walk_no_nested(fn.node):
        if not (isinstance(n, ast.Call) and norm(n.func) in ('np.sum', 'sum', 'numpy.sum') and n.args):
            continue
        a0 = n.args[0]
        base = None
        if isinstance(a0, ast.BinOp) and isinstance(a0.op, ast.Pow) and isinstance(a0.right, ast.Constant) and a0.right.value == 2:
            base = a0.left
        elif isinstance(a0, ast.BinOp) and isinstance(a0.op, ast.Mult) and norm(a0.left) == norm(a0.right):
            base = a0.left
        if base is None:
            continue
        if any(isinstance(x, ast.Call) and norm(x.func).split('.')[-1] in REAL_MAKERS for x in ast.walk(base)):
            continue
        if any(isinstance(x, ast.Attribute) and x.attr in ('real', 'imag') for x in ast.walk(base)):
            continue
        yield n, base


def check_energy_uses_modulus(ctx, rule: str, module_paths, floor: int = 0) -> int:
    ctx.rule(rule, 'the energy of a (complex) array is never computed as np.sum(X ** 2) / np.sum(X * X) without a modulus or a conjugate', floor=floor)
    M = ctx.model
    n = 0
    for path in module_paths:
        mod = M.module(path)
        fns = [f for c in mod.classes.values() for f in list(c.methods.values()) + list(c.getters.values()) + list(c.setters.values())]
        fns += list(mod.functions.values())
        for fn in fns:
            construct = fn.qualname
            ctx.instance(rule, construct)
            n += 1
            hits = list(complex_square_sums(fn))
            ctx.obligation(rule, construct, not hits, {'plain_squares': [norm(h[0])[:50] for h in hits]} if hits else None,
                           nontrivial=any(isinstance(x, ast.Call) and norm(x.func) in ('np.sum', 'np.linalg.norm') for x in ast.walk(fn.node)))
            for node, base in hits[:1]:
                ctx.violation(rule, construct, '`%s` sums the plain squares of `%s`: for complex entries that is not the energy sum(|x|^2) (use np.abs(x) ** 2, '
                              'x * x.conj() or np.linalg.norm)' % (norm(node)[:60], norm(base)[:30]), fn.path, node.lineno, operand='plain-square')
    return n


# ---------------------------------------------------------------------------------------------------------------
def replacing_writers(model) -> Dict[str, 'FuncInfo']:
    """method name -> method, for repo methods that store a ONE-element list (or their parameter itself) under a key of a self container
    whose class also has a sibling that `.append`s to the same container's entries: calling the first per item of a group keeps only the last."""
    out: Dict[str, FuncInfo] = {}
    for cls in model.classes.values():
        appenders: Set[str] = set()
        writers: Dict[str, List[FuncInfo]] = {}
        for m in cls.methods.values():
            sn_ = m.self_name or 'self'
            entry_alias = {n.targets[0].id: is_self_attr(n.value.value, sn_) for n in walk_no_nested(m.node)
                           if isinstance(n, ast.Assign) and len(n.targets) == 1 and isinstance(n.targets[0], ast.Name)
                           and isinstance(n.value, ast.Subscript) and is_self_attr(n.value.value, sn_)}     # lst = self._results[name]
            for n in walk_no_nested(m.node):
                if isinstance(n, ast.Call) and isinstance(n.func, ast.Attribute) and n.func.attr in ('append', 'extend'):
                    if isinstance(n.func.value, ast.Subscript) and is_self_attr(n.func.value.value, sn_):
                        appenders.add(is_self_attr(n.func.value.value, sn_))
                    elif isinstance(n.func.value, ast.Name) and n.func.value.id in entry_alias:
                        appenders.add(entry_alias[n.func.value.id])
            for st in m.node.body:
                if isinstance(st, ast.Assign) and len(st.targets) == 1 and isinstance(st.targets[0], ast.Subscript) \
                        and is_self_attr(st.targets[0].value, m.self_name or 'self') \
                        and isinstance(st.value, ast.List) and len(st.value.elts) == 1 and isinstance(st.value.elts[0], ast.Name) \
                        and st.value.elts[0].id in m.params:
                    writers.setdefault(is_self_attr(st.targets[0].value, m.self_name or 'self'), []).append(m)
        for attr, ms in writers.items():
            if attr in appenders:
                for m in ms:
                    out[m.name] = m
    return out


def grouped_items_through_replacing_writer(model, fn: FuncInfo):
    """(call, method, depth): calls, inside `fn` (nested helpers and comprehensions included), of a replacing writer at loop depth >= 2 --
    the inner loop walks the items of ONE group, so all but the last are dropped."""
    rw = replacing_writers(model)

    def visit(n: ast.AST, depth: int):
        if isinstance(n, (ast.For, ast.While)):
            for ch in n.body + n.orelse:
                yield from visit(ch, depth + 1)
            return
        if isinstance(n, (ast.ListComp, ast.SetComp, ast.GeneratorExp, ast.DictComp)):
            d = depth + len(n.generators)
            for ch in ([n.elt] if not isinstance(n, ast.DictComp) else [n.key, n.value]):
                yield from visit(ch, d)
            return
        if isinstance(n, ast.Call) and isinstance(n.func, ast.Attribute) and n.func.attr in rw and depth >= 2:
            yield n, rw[n.func.attr], depth
        for ch in ast.iter_child_nodes(n):
            yield from visit(ch, depth)
    for st in fn.node.body:
        yield from visit(st, 0)


# ---------------------------------------------------------------------------------------------------------------
NOCOPY_CONVERTERS = {'np.asarray', 'np.asanyarray', 'np.atleast_1d', 'np.atleast_2d', 'np.ravel', 'np.reshape', 'np.squeeze',
                     'np.ascontiguousarray', 'numpy.asarray'}


def validated_arrays_stored_by_reference(fn: FuncInfo):
    """(store, parameter): a setter / public method VALIDATES an array-like argument (a raise guarded by `len(p)`, `np.all(p ..)`,
    `np.any(p ..)`, `p.shape` ...) and then stores the caller's own object (the parameter, or a no-copy conversion of it such as
    np.asarray) in an attribute: a later in-place write by the caller changes the validated state behind the object's back."""
    sn = fn.self_name
    if not sn:
        return
    params = [p for p in fn.params if p not in ('self', 'cls')]
    alias = {p: p for p in params}            # local -> parameter whose OBJECT it may be
    validated: Set[str] = set()
    for st in stmts_in_order(fn):
        if isinstance(st, ast.If) and any(isinstance(x, ast.Raise) for b in (st.body, st.orelse) for s in b for x in ast.walk(s)):
            for c in ast.walk(st.test):
                if isinstance(c, ast.Call) and norm(c.func) in ('len', 'np.all', 'np.any', 'all', 'any', 'np.size', 'np.shape'):
                    for x in ast.walk(c):
                        if isinstance(x, ast.Name) and x.id in alias:
                            validated.add(alias[x.id])
                if isinstance(c, ast.Attribute) and c.attr in ('shape', 'size', 'ndim') and isinstance(c.value, ast.Name) and c.value.id in alias:
                    validated.add(alias[c.value.id])
        if isinstance(st, ast.Assign) and len(st.targets) == 1:
            t, v = st.targets[0], st.value
            src = None
            if isinstance(v, ast.Name):
                src = v.id
            elif isinstance(v, ast.Call) and norm(v.func) in NOCOPY_CONVERTERS and v.args and isinstance(v.args[0], ast.Name):
                src = v.args[0].id
            if isinstance(t, ast.Name):
                if src in alias:
                    alias[t.id] = alias[src]
                else:
                    alias.pop(t.id, None)
            elif is_self_attr(t, sn) and src in alias and alias[src] in validated:
                yield st, alias[src]


def check_validated_arrays_copied(ctx, rule: str, module_paths, floor: int = 0) -> int:
    ctx.rule(rule, 'a setter / public method that validates an array-like argument (raise guarded by len / np.all / np.any / shape) stores a '
                   'private copy, never the caller\'s own object or a no-copy conversion of it (np.asarray)', floor=floor)
    M = ctx.model
    n = 0
    for path in module_paths:
        mod = M.module(path)
        for cls in mod.classes.values():
            for fn in list(cls.methods.values()) + list(cls.setters.values()):
                if fn.name.startswith('_') and fn.name != '__init__':
                    continue
                if not any(isinstance(x, ast.Raise) for x in walk_no_nested(fn.node)):
                    continue
                construct = fn.qualname
                ctx.instance(rule, construct)
                n += 1
                hits = list(validated_arrays_stored_by_reference(fn))
                ctx.obligation(rule, construct, not hits, {'stores': [norm(h[0])[:60] for h in hits]} if hits else None)
                for st, p in hits[:1]:
                    ctx.violation(rule, construct, '`%s` stores the caller\'s own array `%s` (validated just before): when the caller re-uses or '
                                  'modifies that buffer the object\'s state changes without validation and without the derived quantities being '
                                  'recomputed (store np.array(%s))' % (norm(st)[:60], p, p), fn.path, st.lineno, operand='by-reference:' + p)
    return n


# ---------------------------------------------------------------------------------------------------------------
NUMERIC_ERRORS = {'ValueError', 'ZeroDivisionError', 'FloatingPointError', 'OverflowError', 'ArithmeticError', 'Exception', 'BaseException',
                  'TypeError', 'np.linalg.LinAlgError', 'LinAlgError', 'RuntimeWarning', 'Warning', 'IndexError'}


def defaults_substituted_on_error(fn: FuncInfo):
    """(handler, what): an `except` clause for an arithmetic / domain error whose body neither re-raises nor calls anything but binds a
    CONSTANT to a name the try body computes, or returns a constant: the failed evaluation of a formula is silently replaced by a made-up value."""
    def is_const(e):
        return isinstance(e, ast.Constant) or (isinstance(e, ast.UnaryOp) and isinstance(e.operand, ast.Constant)) \
            or (isinstance(e, ast.Attribute) and norm(e) in ('np.nan', 'np.inf', 'math.inf', 'math.nan')) \
            or (isinstance(e, ast.Call) and norm(e.func) in ('float', 'int', 'np.float64', 'np.zeros', 'np.ones', 'np.zeros_like', 'np.ones_like')
                and all(is_const(a) or isinstance(a, ast.Name) for a in e.args))
    for n in walk_no_nested(fn.node):
        if not isinstance(n, ast.Try):
            continue
        computed = {t.id for s in n.body for x in ast.walk(s) if isinstance(x, (ast.Assign, ast.AugAssign, ast.AnnAssign))
                    for t in (x.targets if isinstance(x, ast.Assign) else [x.target]) if isinstance(t, ast.Name)}
        returns_value = any(isinstance(x, ast.Return) and x.value is not None for s in n.body for x in ast.walk(s))
        for h in n.handlers:
            names = [norm(t) for t in (h.type.elts if isinstance(h.type, ast.Tuple) else [h.type])] if h.type is not None else ['BaseException']
            if not any(x in NUMERIC_ERRORS for x in names):
                continue
            if any(isinstance(x, ast.Raise) for s in h.body for x in ast.walk(s)):
                continue
            for s in h.body:
                if isinstance(s, ast.Assign) and len(s.targets) == 1 and isinstance(s.targets[0], ast.Name) and s.targets[0].id in computed \
                        and is_const(s.value):
                    yield h, '%s = %s' % (s.targets[0].id, norm(s.value))
                if isinstance(s, ast.Return) and returns_value and (s.value is None or is_const(s.value)):
                    yield h, norm(s)


def check_no_defaults_on_error(ctx, rule: str, module_paths, floor: int = 0) -> int:
    ctx.rule(rule, 'no arithmetic / domain error of a formula is swallowed into a made-up constant (except ValueError: x = 0.0): inputs outside '
                   'the domain keep raising (or propagate inf/nan as numpy does), they never yield an ordinary-looking value', floor=floor)
    M = ctx.model
    n = 0
    for path in module_paths:
        mod = M.module(path)
        fns = [f for c in mod.classes.values() for f in list(c.methods.values()) + list(c.getters.values()) + list(c.setters.values())]
        fns += list(mod.functions.values())
        for fn in fns:
            ctx.instance(rule, fn.qualname)
            n += 1
            hits = list(defaults_substituted_on_error(fn))
            ctx.obligation(rule, fn.qualname, not hits, {'handlers': [h[1] for h in hits]} if hits else None,
                           nontrivial=any(isinstance(x, ast.Try) for x in walk_no_nested(fn.node)))
            for h, what in hits[:1]:
                ctx.violation(rule, fn.qualname, 'the handler `except %s` replaces the failed evaluation by `%s`: an input outside the domain of the '
                              'formula now yields an ordinary-looking value instead of an error'
                              % (norm(h.type) if h.type is not None else '', what), fn.path, h.lineno, operand='default-on-error')
    return n


# ---------------------------------------------------------------------------------------------------------------
def svd_row_scalings_by_broadcast(fn: FuncInfo):
    """(node, S, V_H): with `U, S, V_H = svd(..)`, the elementwise product `S * V_H` (or slices of the two, without a new axis on S)
    broadcasts the singular values along the LAST axis, i.e. scales the COLUMNS of V_H; diag(S) @ V_H scales its ROWS.  The two agree only by
    accident of shapes (and only when V_H is square): `S[:, None] * V_H`, `np.diag(S) @ V_H` or `(U * S) @ V_H` are the right spellings."""
    triples = []
    for n in walk_no_nested(fn.node):
        if isinstance(n, ast.Assign) and len(n.targets) == 1 and isinstance(n.targets[0], (ast.Tuple, ast.List)) and len(n.targets[0].elts) == 3 \
                and isinstance(n.value, ast.Call) and norm(n.value.func).split('.')[-1] == 'svd' \
                and all(isinstance(e, ast.Name) for e in n.targets[0].elts):
            triples.append(tuple(e.id for e in n.targets[0].elts))
    if not triples:
        return

    def plain_root(e, allow_newaxis: bool):
        """name at the root of a pure subscript chain (None if an index adds an axis and that is not allowed, or anything else intervenes)"""
        while isinstance(e, ast.Subscript):
            idx = e.slice.elts if isinstance(e.slice, ast.Tuple) else [e.slice]
            if not allow_newaxis and any((isinstance(i, ast.Constant) and i.value is None) or norm(i) in ('np.newaxis', 'numpy.newaxis') for i in idx):
                return None
            e = e.value
        return e.id if isinstance(e, ast.Name) else None
    for n in walk_no_nested(fn.node):
        if isinstance(n, ast.BinOp) and isinstance(n.op, ast.Mult):
            for a, b in ((n.left, n.right), (n.right, n.left)):
                for (u, s_, v) in triples:
                    if plain_root(a, False) == s_ and plain_root(b, True) == v:
                        yield n, s_, v


def check_svd_scalings(ctx, rule: str, module_paths, floor: int = 0) -> int:
    ctx.rule(rule, 'singular values scale the ROWS of V^H (diag(S) V^H): they are never multiplied elementwise with V^H without a new axis, '
                   'which would scale its columns', floor=floor)
    M = ctx.model
    n = 0
    for path in module_paths:
        mod = M.module(path)
        fns = [f for c in mod.classes.values() for f in list(c.methods.values()) + list(c.getters.values()) + list(c.setters.values())]
        fns += list(mod.functions.values())
        for fn in fns:
            if not any(isinstance(x, ast.Call) and norm(x.func).split('.')[-1] == 'svd' for x in walk_no_nested(fn.node)):
                continue
            ctx.instance(rule, fn.qualname)
            n += 1
            hits = list(svd_row_scalings_by_broadcast(fn))
            ctx.obligation(rule, fn.qualname, not hits, {'products': [norm(h[0])[:60] for h in hits]} if hits else None)
            for node, s_, v in hits[:1]:
                ctx.violation(rule, fn.qualname, '`%s` multiplies the singular values `%s` elementwise with `%s`: broadcasting aligns them with the '
                              'last axis, so the COLUMNS of %s are scaled, not its rows as in diag(%s) %s' % (norm(node)[:60], s_, v, v, s_, v),
                              fn.path, node.lineno, operand='svd-broadcast')
    return n


# ---------------------------------------------------------------------------------------------------------------
def unsigned_wraps(fn: FuncInfo, params):
    """(node, param): `k - E` / `-E` where E is built from a raw input array `param` by dtype-preserving integer arithmetic only (*, +,
    ** with constants): for an UNSIGNED input dtype (bits and symbol indexes are commonly stored as np.uint8) the subtraction wraps
    (1 - 2 * uint8(1) == 255).  A conversion to a signed / float type anywhere between the name and the subtraction (astype, np.asarray
    with dtype, int(), float(), true division, a float constant factor) makes it safe."""
    rebound = {t.id for n in walk_no_nested(fn.node) if isinstance(n, (ast.Assign, ast.AugAssign, ast.AnnAssign))
               for t in (n.targets if isinstance(n, ast.Assign) else [n.target]) if isinstance(t, ast.Name)}
    raw = {p for p in params if p not in rebound}

    def raw_in(e) -> Optional[str]:
        """raw parameter reaching the value of e through dtype-preserving integer arithmetic, or None"""
        if isinstance(e, ast.Name):
            return e.id if e.id in raw else None
        if isinstance(e, ast.BinOp) and isinstance(e.op, (ast.Mult, ast.Add, ast.Sub, ast.Pow, ast.FloorDiv, ast.Mod)):
            for side in (e.left, e.right):
                if isinstance(side, ast.Constant) and isinstance(side.value, float):
                    return None
            return raw_in(e.left) or raw_in(e.right)
        if isinstance(e, ast.UnaryOp):
            return raw_in(e.operand)
        if isinstance(e, ast.Subscript):
            return raw_in(e.value)
        return None
    for n in walk_no_nested(fn.node):
        if isinstance(n, ast.BinOp) and isinstance(n.op, ast.Sub):
            p = raw_in(n.right)
            if p is None and raw_in(n.left) and isinstance(n.right, ast.Constant) and type(n.right.value) is int and n.right.value > 0:
                p = raw_in(n.left)            # x - 1 wraps for x == 0
            if p:
                yield n, p
        elif isinstance(n, ast.UnaryOp) and isinstance(n.op, ast.USub):
            p = raw_in(n.operand)
            if p:
                yield n, p


# ---------------------------------------------------------------------------------------------------------------
def integer_powers_of_raw_inputs(fn: FuncInfo):
    """(node, param): `p ** k` (k an integer constant >= 2) or `p * p` on a RAW array-like parameter (annotated ndarray / NumberOrArray
    / ArrayLike, never rebound) - the power is formed in the caller's dtype, so whole degrees held as int16 overflow for |p| >= 182 (and
    12 * p ** 2 for |p| >= 53).  `(p / x) ** 2`, `np.square(p / x)`, `p.astype(float) ** 2`, `float(p) ** 2` promote first."""
    a = fn.node.args
    arr = {x.arg for x in a.posonlyargs + a.args + a.kwonlyargs if x.annotation is not None
           and any(k in norm(x.annotation) for k in ('ndarray', 'NumberOrArray', 'ArrayLike'))}
    if not arr:
        return
    rebound = {t.id for n in walk_no_nested(fn.node) if isinstance(n, (ast.Assign, ast.AugAssign, ast.AnnAssign))
               for t in (n.targets if isinstance(n, ast.Assign) else [n.target]) if isinstance(t, ast.Name)}
    raw = arr - rebound
    for n in walk_no_nested(fn.node):
        if isinstance(n, ast.BinOp):
            l, r = n.left, n.right
            if isinstance(n.op, ast.Pow) and isinstance(l, ast.Name) and l.id in raw and isinstance(r, ast.Constant) \
                    and type(r.value) is int and r.value >= 2:
                yield n, l.id
            elif isinstance(n.op, ast.Mult) and isinstance(l, ast.Name) and isinstance(r, ast.Name) and l.id == r.id and l.id in raw:
                yield n, l.id
        elif isinstance(n, ast.Call) and norm(n.func) in ('np.square', 'np.power', 'numpy.square', 'numpy.power') and n.args \
                and isinstance(n.args[0], ast.Name) and n.args[0].id in raw:
            yield n, n.args[0].id


def check_no_integer_powers_of_inputs(ctx, rule: str, module_paths, floor: int = 0) -> int:
    ctx.rule(rule, 'a closed formula never squares / raises to an integer power a raw array-like input in the caller\'s dtype (narrow '
                   'integer arrays - whole degrees or metres as int16 - overflow silently); it promotes first: (x / c) ** 2', floor=floor)
    M = ctx.model
    n = 0
    for path in module_paths:
        mod = M.module(path)
        fns = [f for c in mod.classes.values() for f in list(c.methods.values())] + list(mod.functions.values())
        for fn in fns:
            a = fn.node.args
            if not any(x.annotation is not None and any(k in norm(x.annotation) for k in ('ndarray', 'NumberOrArray', 'ArrayLike'))
                       for x in a.posonlyargs + a.args + a.kwonlyargs):
                continue
            ctx.instance(rule, fn.qualname)
            n += 1
            hits = list(integer_powers_of_raw_inputs(fn))
            ctx.obligation(rule, fn.qualname, not hits, {'powers': [norm(h[0])[:50] for h in hits]} if hits else None,
                           nontrivial=any(isinstance(x, ast.BinOp) and isinstance(x.op, ast.Pow) for x in walk_no_nested(fn.node)))
            for node, p in hits[:1]:
                ctx.violation(rule, fn.qualname, '`%s` is evaluated in the dtype of the caller\'s `%s`: for a narrow integer array (whole degrees '
                              'as int16) the power wraps around silently and the formula returns garbage; divide / convert to float first'
                              % (norm(node)[:50], p), fn.path, node.lineno, operand='integer-power:' + p)
    return n


# ---------------------------------------------------------------------------------------------------------------
def unprotected_restores(fn: FuncInfo):
    """(restore statement, what): the save / change / restore idiom on shared state WITHOUT try/finally:

        old = X.attr            (or  old = X.pop(key))
        X.attr = <temporary>    (implicit for pop)
        ... a call that may raise ...
        X.attr = old            (or  X[key] = old)      <- not in a `finally:` block

    When the call in the middle raises, the temporary value stays behind (a shared channel object keeps noise_var = None, an
    accumulator loses an entry)."""
    stmts = stmts_in_order(fn)
    in_finally = set()
    for n in ast.walk(fn.node):
        if isinstance(n, ast.Try):
            for s in n.finalbody:
                for x in ast.walk(s):
                    in_finally.add(id(x))
    order = {id(s): i for i, s in enumerate(stmts)}
    for s in stmts:
        if not (isinstance(s, ast.Assign) and len(s.targets) == 1 and isinstance(s.targets[0], ast.Name)):
            continue
        old = s.targets[0].id
        v = s.value
        slot = None
        popped = False
        if isinstance(v, ast.Attribute) and not (isinstance(v.value, ast.Name) and v.value.id in ('np', 'math')):
            slot = norm(v)
        elif isinstance(v, ast.Call) and isinstance(v.func, ast.Attribute) and v.func.attr == 'pop' and len(v.args) >= 1:
            slot = '%s[%s]' % (norm(v.func.value), norm(v.args[0]))
            popped = True
        if slot is None:
            continue
        i0 = order[id(s)]
        changed = popped
        i_change = i0 if popped else None
        for t in stmts[i0 + 1:]:
            if isinstance(t, ast.Assign) and len(t.targets) == 1 and norm(t.targets[0]) == slot:
                if isinstance(t.value, ast.Name) and t.value.id == old:
                    if changed and id(t) not in in_finally:
                        mid = [m for m in stmts[i_change + 1:order[id(t)]]
                               if any(isinstance(x, ast.Call) for x in ast.walk(m)) and not isinstance(m, (ast.If, ast.For, ast.While, ast.With, ast.Try))]
                        if mid:
                            yield t, '%s is set to a temporary value, `%s` runs, and only then `%s` puts the saved value back - outside any ' \
                                     '`finally:`' % (slot, norm(mid[0])[:50], norm(t)[:50])
                    break
                elif not changed:
                    changed = True
                    i_change = order[id(t)]
                else:
                    break
            elif any(isinstance(x, ast.Name) and isinstance(x.ctx, ast.Store) and x.id == old for x in ast.walk(t)):
                break


def check_restores_protected(ctx, rule: str, module_paths, floor: int = 0) -> int:
    ctx.rule(rule, 'state that is changed temporarily (saved in a local, overwritten, restored after a computation) is restored in a '
                   '`finally:` block: an exception in the computation must not leave the temporary value behind', floor=floor)
    M = ctx.model
    n = 0
    for path in module_paths:
        mod = M.module(path)
        fns = [f for c in mod.classes.values() for f in list(c.methods.values()) + list(c.getters.values()) + list(c.setters.values())]
        fns += list(mod.functions.values())
        for fn in fns:
            ctx.instance(rule, fn.qualname)
            n += 1
            hits = list(unprotected_restores(fn))
            ctx.obligation(rule, fn.qualname, not hits, {'restores': [h[1][:120] for h in hits]} if hits else None,
                           nontrivial=any(isinstance(x, ast.Try) and x.finalbody for x in walk_no_nested(fn.node)))
            for st, what in hits[:1]:
                ctx.violation(rule, fn.qualname, what + ': if that call raises, the object keeps the temporary value', fn.path, st.lineno,
                              operand='restore-not-in-finally')
    return n


# ---------------------------------------------------------------------------------------------------------------
def containers_modified_while_iterated(fn: FuncInfo):
    """(node, container): `for x in C:` whose body removes from / inserts into the very container C (C.remove, C.pop, C.append,
    C.insert, del C[..], C.clear, C.discard, C.add, C.update): list iteration then skips elements, dict / set iteration raises."""
    MUT = {'remove', 'pop', 'append', 'insert', 'clear', 'discard', 'add', 'update', 'extend', 'popitem'}
    for n in walk_no_nested(fn.node):
        if not isinstance(n, ast.For):
            continue
        it = n.iter
        if isinstance(it, ast.Call) and isinstance(it.func, ast.Attribute) and it.func.attr in ('keys', 'values', 'items') and not it.args:
            it = it.func.value
        if isinstance(it, ast.Call) and norm(it.func) in ('enumerate', 'reversed') and it.args:
            it = it.args[0]
        if not isinstance(it, (ast.Name, ast.Attribute)):
            continue
        c = norm(it)
        for st in n.body:
            for x in ast.walk(st):
                if isinstance(x, ast.Call) and isinstance(x.func, ast.Attribute) and x.func.attr in MUT and norm(x.func.value) == c:
                    # `break` right after the mutation ends the iteration: fine
                    if not _followed_by_exit(n.body, x):
                        yield x, c
                elif isinstance(x, ast.Delete) and any(isinstance(t, ast.Subscript) and norm(t.value) == c for t in x.targets):
                    if not _followed_by_exit(n.body, x):
                        yield x, c


def _followed_by_exit(body, node) -> bool:
    """the statement containing `node` is directly followed (in its own block) by break / return / raise"""
    def rec(stmts):
        for i, s in enumerate(stmts):
            if any(x is node for x in ast.walk(s)):
                if not isinstance(s, (ast.If, ast.For, ast.While, ast.With, ast.Try)):
                    return i + 1 < len(stmts) and isinstance(stmts[i + 1], (ast.Break, ast.Return, ast.Raise))
                for fld in ('body', 'orelse', 'finalbody'):
                    b = getattr(s, fld, None)
                    if isinstance(b, list) and b and any(x is node for y in b for x in ast.walk(y)):
                        return rec(b)
        return False
    return rec(body)


def check_no_mutation_while_iterating(ctx, rule: str, module_paths, floor: int = 0) -> int:
    ctx.rule(rule, 'no loop removes from / inserts into the very container it iterates over (a list then skips every second '
                   'element; a dict or set raises)', floor=floor)
    M = ctx.model
    n = 0
    for path in module_paths:
        mod = M.module(path)
        fns = [f for c in mod.classes.values() for f in list(c.methods.values()) + list(c.getters.values()) + list(c.setters.values())]
        fns += list(mod.functions.values())
        for fn in fns:
            if not any(isinstance(x, ast.For) for x in walk_no_nested(fn.node)):
                continue
            ctx.instance(rule, fn.qualname)
            n += 1
            hits = list(containers_modified_while_iterated(fn))
            ctx.obligation(rule, fn.qualname, not hits, {'mutations': [norm(h[0])[:60] for h in hits]} if hits else None)
            for node, c in hits[:1]:
                ctx.violation(rule, fn.qualname, '`%s` changes `%s` inside the loop that iterates over it: the iteration skips the element that '
                              'moves into the freed position (every second one when each is removed)' % (norm(node)[:50], c),
                              fn.path, node.lineno, operand='mutated-while-iterated:' + c)
    return n


# ---------------------------------------------------------------------------------------------------------------
def cyclic_resizes(fn: FuncInfo):
    """(node): np.resize(a, shape) / a.resize(shape) - it REPEATS the flattened data cyclically to fill the new shape; it is not
    broadcasting (np.broadcast_to / np.broadcast_arrays), with which it agrees only when the shapes already match."""
    for n in walk_no_nested(fn.node):
        if isinstance(n, ast.Call) and norm(n.func) in ('np.resize', 'numpy.resize'):
            yield n


def check_no_cyclic_resize(ctx, rule: str, module_paths, floor: int = 0) -> int:
    ctx.rule(rule, 'np.resize (cyclic repetition of the flattened data) is never used to bring an operand to the shape of another: that is '
                   'what broadcasting does, and the two agree only for equal shapes', floor=floor)
    M = ctx.model
    n = 0
    for path in module_paths:
        mod = M.module(path)
        fns = [f for c in mod.classes.values() for f in list(c.methods.values())] + list(mod.functions.values())
        for fn in fns:
            ctx.instance(rule, fn.qualname)
            n += 1
            hits = list(cyclic_resizes(fn))
            ctx.obligation(rule, fn.qualname, not hits, {'resizes': [norm(h)[:60] for h in hits]} if hits else None,
                           nontrivial=any(isinstance(x, ast.Call) and 'broadcast' in norm(x.func) for x in walk_no_nested(fn.node)))
            for node in hits[:1]:
                ctx.violation(rule, fn.qualname, '`%s` repeats the flattened values cyclically: a per-row (column-vector) operand is scattered over '
                              'the whole grid instead of being broadcast along its axis' % norm(node)[:60], fn.path, node.lineno, operand='np.resize')
    return n


# ---------------------------------------------------------------------------------------------------------------
def check_range_guard(ctx, rule: str, fn: FuncInfo, var: str, landmarks, expected: dict, kind: str, what: str) -> None:
    """The tests that guard `var` in `fn` (kind 'raise': the `if` statements mentioning var whose body ends in `raise`, taken together;
    kind 'accept': the one `if` mentioning var whose body does the work) are decided for every order position of var relative to the
    landmarks (astutil.order_truth_table) and compared with `expected` {position: rejected / accepted}.  A guard that looks at var
    through anything but comparisons with the landmarks is cannot-tell."""
    from .astutil import order_truth_table
    construct = '%s:%s' % (fn.qualname, var)
    ctx.instance(rule, construct)
    ifs = [n for n in walk_no_nested(fn.node) if isinstance(n, ast.If) and any(norm(x) == var for x in ast.walk(n.test))]
    if kind == 'raise':
        ifs = [n for n in ifs if n.body and isinstance(n.body[-1], ast.Raise)]
    else:
        ifs = [n for n in ifs if not (n.body and isinstance(n.body[-1], ast.Raise))]
        # `if <outside>: return` in front of the work is the same guard, negated
        if len(ifs) == 1 and not ifs[0].orelse and len(ifs[0].body) == 1 and isinstance(ifs[0].body[0], ast.Return) \
                and (ifs[0].body[0].value is None or (isinstance(ifs[0].body[0].value, ast.Constant) and ifs[0].body[0].value.value is None)):
            expected = {k: not v for k, v in expected.items()}
            kind = 'reject'
    if not ifs or (kind == 'accept' and len(ifs) != 1):
        ctx.error('%s: %s has %d guard(s) on `%s` (cannot tell)' % (rule, fn.qualname, len(ifs), var))
    from .astutil import expander as _exp_rg
    _ex_rg = _exp_rg(fn)            # a limit named in a local first (`max_cp = fft_size`) is looked through
    lm_x = [norm(_ex_rg(ast.parse(l_, mode='eval').body)) for l_ in landmarks]
    raw = [order_truth_table(_ex_rg(n.test), var, lm_x) for n in ifs]
    # positions are reported under the landmark texts the caller gave
    def _rename(t_):
        if t_ is None:
            return None
        out_ = {}
        for k_, v_ in t_.items():
            for a_, b_ in zip(lm_x, landmarks):
                k_ = k_.replace(a_, b_)
            out_[k_] = v_
        return out_
    tables = [_rename(t_) for t_ in raw]
    if any(t is None for t in tables):
        bad = [norm(n.test)[:70] for n, t in zip(ifs, tables) if t is None]
        ctx.error('%s: the guard `%s` of %s looks at `%s` through more than comparisons with %s (cannot tell)' % (rule, bad[0], fn.qualname, var, landmarks))
    got = {pos: any(t[pos] for t in tables) for pos in tables[0]}
    diff = {pos: (got[pos], exp) for pos, exp in expected.items() if got.get(pos) != exp}
    ctx.obligation(rule, construct, not diff, {'guards': [norm(n.test)[:80] for n in ifs], 'table': got, 'expected': expected})
    if diff:
        pos = sorted(diff)[0]
        ctx.violation(rule, fn.qualname, 'the guard `%s` %s `%s` %s, but %s' % (
            ' / '.join(norm(n.test)[:60] for n in ifs), 'rejects' if (kind in ('raise', 'reject')) == diff[pos][0] else 'accepts', var, pos, what),
            fn.path, ifs[0].lineno, operand='limit:' + pos.replace(' ', '-'))


# ---------------------------------------------------------------------------------------------------------------
def per_axis_self_normalisations(fn: FuncInfo):
    """(node, X): a matrix divided by the VECTOR of its own per-column / per-row norms (`X / np.linalg.norm(X, axis=0)`, `X /= ...`):
    every column gets unit norm, so the matrix has Frobenius norm sqrt(number of columns) - it is normalised only when one column is left."""
    def axis_norm_of(e):
        if isinstance(e, ast.Call) and norm(e.func) in ('np.linalg.norm', 'numpy.linalg.norm', 'linalg.norm') and e.args:
            ax = [k.value for k in e.keywords if k.arg == 'axis'] + (list(e.args[2:3]))        # norm(x, ord, axis)
            if ax and not (isinstance(ax[0], ast.Constant) and ax[0].value is None):
                return norm(e.args[0])
        return None
    for n in walk_no_nested(fn.node):
        if isinstance(n, ast.AugAssign) and isinstance(n.op, ast.Div):
            a = axis_norm_of(n.value)
            if a is not None and a == norm(n.target):
                yield n, a
        elif isinstance(n, ast.BinOp) and isinstance(n.op, ast.Div):
            a = axis_norm_of(n.right)
            if a is not None and a == norm(n.left):
                yield n, a


def check_no_per_axis_normalisation(ctx, rule: str, module_paths, floor: int = 0) -> int:
    ctx.rule(rule, 'a precoder / filter matrix is normalised by ONE norm of the whole matrix (Frobenius), never by the vector of its own '
                   'per-column or per-row norms (that gives norm sqrt(n), right only when a single stream is left)', floor=floor)
    M = ctx.model
    n = 0
    for path in module_paths:
        mod = M.module(path)
        fns = [f for c in mod.classes.values() for f in list(c.methods.values())] + list(mod.functions.values())
        for fn in fns:
            if not any(isinstance(x, ast.Call) and norm(x.func).endswith('linalg.norm') for x in walk_no_nested(fn.node)):
                continue
            ctx.instance(rule, fn.qualname)
            n += 1
            hits = list(per_axis_self_normalisations(fn))
            ctx.obligation(rule, fn.qualname, not hits, {'normalisations': [norm(h[0])[:70] for h in hits]} if hits else None)
            for node, x in hits[:1]:
                ctx.violation(rule, fn.qualname, '`%s` divides `%s` by the vector of its own per-axis norms: each column gets unit norm and the matrix '
                              'norm sqrt(number of columns), so a precoder with two or more streams is no longer unit norm (and carries n times its '
                              'power once scaled)' % (norm(node)[:70], x), fn.path, node.lineno, operand='per-axis-norm:' + x)
    return n


# ---------------------------------------------------------------------------------------------------------------
def memory_order_flattens(fn: FuncInfo):
    """(node): x.ravel(order='K' / 'A' / 'F'), x.flatten(order=..), np.ravel(x, order=..), x.reshape(.., order='A' / 'F'): the elements
    come out in MEMORY (or column-major) order.  Per-element results computed on such a vector and put back with a C-order reshape land
    at permuted positions for every input that is not C-contiguous (a transposed view, a Fortran array)."""
    for n in walk_no_nested(fn.node):
        if not isinstance(n, ast.Call):
            continue
        f = n.func
        is_flat = (isinstance(f, ast.Attribute) and f.attr in ('ravel', 'flatten', 'reshape')) or norm(f) in ('np.ravel', 'np.reshape')
        if not is_flat:
            continue
        orders = [k.value for k in n.keywords if k.arg == 'order']
        if isinstance(f, ast.Attribute) and f.attr in ('ravel', 'flatten') and not (isinstance(f.value, ast.Name) and f.value.id in ('np', 'numpy')) \
                and len(n.args) == 1:
            orders.append(n.args[0])           # x.ravel('K')
        for o in orders:
            if isinstance(o, ast.Constant) and o.value in ('K', 'A', 'F', 'k', 'a', 'f'):
                yield n


def check_no_memory_order_flatten(ctx, rule: str, module_paths, floor: int = 0) -> int:
    ctx.rule(rule, 'arrays are flattened in C (index) order only: a memory-order / column-major flatten (order=\'K\', \'A\', \'F\') followed by '
                   'per-element work and a C-order reshape permutes the results of every non-C-contiguous input', floor=floor)
    M = ctx.model
    n = 0
    for path in module_paths:
        mod = M.module(path)
        fns = [f for c in mod.classes.values() for f in list(c.methods.values())] + list(mod.functions.values())
        for fn in fns:
            ctx.instance(rule, fn.qualname)
            n += 1
            hits = list(memory_order_flattens(fn))
            ctx.obligation(rule, fn.qualname, not hits, {'flattens': [norm(h)[:60] for h in hits]} if hits else None,
                           nontrivial=any(isinstance(x, ast.Attribute) and x.attr in ('ravel', 'flatten', 'reshape') for x in ast.walk(fn.node)))
            for node in hits[:1]:
                ctx.violation(rule, fn.qualname, '`%s` takes the elements in memory / column-major order: for a transposed view or a Fortran-ordered '
                              'array the per-element results are put back at permuted positions' % norm(node)[:60], fn.path, node.lineno,
                              operand='memory-order-flatten')
    return n


# ---------------------------------------------------------------------------------------------------------------
def whole_array_regime_tests(fn: FuncInfo):
    """(if-node, array): `if np.min(X) < c:` / `if np.all(X > c):` / `if X.max() ..` that selects between two FORMULAS applied to the
    whole of X (neither branch raises): the regime that is right for the extreme element is applied to every element, so an array that
    mixes both regimes gets the wrong formula for part of its elements (a scalar, or an array within one regime, is unaffected)."""
    RED = {'min', 'max', 'amin', 'amax', 'all', 'any', 'nanmin', 'nanmax'}

    def reduced(e):
        for x in ast.walk(e):
            if isinstance(x, ast.Call):
                f = x.func
                if isinstance(f, ast.Attribute) and f.attr in RED:
                    if isinstance(f.value, ast.Name) and f.value.id in ('np', 'numpy') and x.args:
                        arg = x.args[0]
                    elif not x.args:
                        arg = f.value
                    else:
                        continue
                    names = {n.id for n in ast.walk(arg) if isinstance(n, ast.Name)}
                    if names:
                        return names
        return None
    for n in walk_no_nested(fn.node):
        if not isinstance(n, ast.If):
            continue
        names = reduced(n.test)
        if not names:
            continue
        def exits_with_value(body):
            return [s for s in body if (isinstance(s, ast.Return) and s.value is not None) or isinstance(s, (ast.Assign, ast.AugAssign))]
        if any(isinstance(s, ast.Raise) for b in (n.body, n.orelse) for s in b):
            continue
        vals = exits_with_value(n.body)
        if not vals:
            continue
        uses = [s for s in vals if any(isinstance(x, ast.Name) and x.id in names for x in ast.walk(s.value if not isinstance(s, ast.Return) else s.value))]
        if uses and any(isinstance(x, (ast.BinOp, ast.Call)) for x in ast.walk(uses[0].value)):
            yield n, sorted(names)[0]


def check_no_whole_array_regimes(ctx, rule: str, module_paths, floor: int = 0) -> int:
    ctx.rule(rule, 'no test on a REDUCTION of an array (np.min / max / all / any) selects between two formulas that are then applied to the '
                   'whole array: the regime must be chosen per element (np.where), or the formula must be valid in every regime', floor=floor)
    M = ctx.model
    n = 0
    for path in module_paths:
        mod = M.module(path)
        fns = [f for c in mod.classes.values() for f in list(c.methods.values())] + list(mod.functions.values())
        for fn in fns:
            ctx.instance(rule, fn.qualname)
            n += 1
            hits = list(whole_array_regime_tests(fn))
            ctx.obligation(rule, fn.qualname, not hits, {'tests': [norm(h[0].test)[:60] for h in hits]} if hits else None,
                           nontrivial=any(isinstance(x, ast.If) for x in walk_no_nested(fn.node)))
            for node, a in hits[:1]:
                ctx.violation(rule, fn.qualname, '`if %s:` decides from the extreme element of `%s` which formula is applied to ALL its elements: an '
                              'array that spans both regimes gets the formula of the wrong regime for part of its elements' % (norm(node.test)[:60], a),
                              fn.path, node.lineno, operand='whole-array-regime:' + a)
    return n


# ---------------------------------------------------------------------------------------------------------------
def _is_abs_call(c) -> bool:
    return isinstance(c, ast.Call) and len(c.args) == 1 and not c.keywords and (
        (isinstance(c.func, ast.Name) and c.func.id == 'abs')
        or (isinstance(c.func, ast.Attribute) and c.func.attr in ('abs', 'absolute', 'fabs')))


def signed_offset_through_abs(fn: FuncInfo):
    """(abs call, name, line of the signed use): a local bound ONCE, to a difference `a - b` (a signed offset), is added / subtracted as
    it is to build a value (`p + d`: the code believes its sign matters) and is ALSO a factor of a product through abs() (`t * abs(d)`: the
    code believes it does not).  One of the two beliefs is wrong for d < 0.  Not counted: abs(d) in comparisons, in divisions (`d / abs(d)`,
    a sign), in a product with d itself (`d * abs(d)`, a signed square), or as an argument of anything but a product."""
    binds: Dict[str, List[ast.AST]] = {}
    for n in walk_no_nested(fn.node):
        tg = []
        if isinstance(n, ast.Assign):
            tg = [(t, n.value) for t in n.targets]
        elif isinstance(n, (ast.AugAssign, ast.AnnAssign)):
            tg = [(n.target, n.value)]
        elif isinstance(n, (ast.For, ast.comprehension)):
            tg = [(n.target, None)]
        elif isinstance(n, ast.NamedExpr):
            tg = [(n.target, n.value)]
        for t, v in tg:
            for x in ast.walk(t):
                if isinstance(x, ast.Name) and isinstance(x.ctx, ast.Store):
                    binds.setdefault(x.id, []).append(v if x is t else None)
    params = {a.arg for a in fn.node.args.args + fn.node.args.kwonlyargs + fn.node.args.posonlyargs}
    diffs = {k for k, v in binds.items() if len(v) == 1 and isinstance(v[0], ast.BinOp) and isinstance(v[0].op, ast.Sub) and k not in params}
    if not diffs:
        return
    parent = {}
    for n in walk_no_nested(fn.node):
        for c in ast.iter_child_nodes(n):
            parent[id(c)] = n
    for name in sorted(diffs):
        absuse, rawuse = [], []
        for n in walk_no_nested(fn.node):
            if not (isinstance(n, ast.Name) and n.id == name and isinstance(n.ctx, ast.Load)):
                continue
            par = parent.get(id(n))
            if _is_abs_call(par) and par.args[0] is n:
                gp = parent.get(id(par))
                if isinstance(gp, ast.BinOp) and isinstance(gp.op, ast.Mult):
                    other = gp.left if gp.right is par else gp.right
                    if not any(isinstance(x, ast.Name) and x.id == name for x in ast.walk(other)):
                        absuse.append(par)
            elif isinstance(par, ast.BinOp) and isinstance(par.op, (ast.Add, ast.Sub)):
                rawuse.append(n)
        if not (absuse and rawuse):
            continue
        # the two uses must meet in one value: the product with abs() flows (through single local assignments) into the statement that
        # adds the signed offset - unrelated quantities (an area from |d|, a position from d) are not a contradiction
        def stmt_of(x):
            while x is not None and not isinstance(x, ast.stmt):
                x = parent.get(id(x))
            return x
        for a in absuse:
            carriers, frontier = set(), [stmt_of(a)]
            reach = {id(frontier[0])}
            for _ in range(4):
                nxt = []
                for st in frontier:
                    if isinstance(st, (ast.Assign, ast.AnnAssign, ast.AugAssign)):
                        for t in (st.targets if isinstance(st, ast.Assign) else [st.target]):
                            if isinstance(t, ast.Name):
                                carriers.add(t.id)
                for st2 in walk_no_nested(fn.node):
                    if isinstance(st2, ast.stmt) and id(st2) not in reach and not isinstance(st2, (ast.If, ast.For, ast.While, ast.With, ast.Try)) \
                            and any(isinstance(x, ast.Name) and isinstance(x.ctx, ast.Load) and x.id in carriers for x in ast.walk(st2)):
                        reach.add(id(st2))
                        nxt.append(st2)
                frontier = nxt
            for r in rawuse:
                if id(stmt_of(r)) in reach:
                    yield a, name, r.lineno
                    return


def check_signed_offsets(ctx, rule: str, module_paths, floor: int = 0) -> int:
    ctx.rule(rule, 'a signed offset (a local bound once, to a difference `a - b`) that is added as it is to build a value is not also used '
                   'through abs() as a factor of another component of that computation (contradictory beliefs about its sign: wrong for '
                   'every negative offset)', floor=floor)
    M = ctx.model
    n = 0
    for path in module_paths:
        mod = M.module(path)
        fns = [f for c in mod.classes.values() for f in list(c.methods.values()) + list(c.getters.values())] + list(mod.functions.values())
        for fn in fns:
            construct = fn.qualname
            ctx.instance(rule, construct)
            n += 1
            hits = list(signed_offset_through_abs(fn))
            ctx.obligation(rule, construct, not hits, {'offset': [(h[1], norm(h[0])) for h in hits]} if hits else None, nontrivial=bool(hits))
            for node, name, ln in hits[:1]:
                ctx.violation(rule, construct, '`%s` is a signed difference that is added as it is at line %d, but `%s` uses it as a factor without its '
                              'sign: the result is mirrored whenever `%s` is negative' % (name, ln, norm(node), name), fn.path, node.lineno,
                              operand='abs-offset:' + name)
    return n
