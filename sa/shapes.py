"""E8 - symbolic shape conformance: an abstract interpreter over array shapes with symbolic dimensions.

Dimensions are monomials over symbols (Nr, Nt, n, ...) with integer coefficients; the side condition of the
property (Nr >= Nt) resolves min(Nr, Nt) = Nt.  A product/solve/elementwise operation whose operand dimensions are
different monomials is NON-CONFORMABLE for general sizes (it raises for every Nr > Nt) and is reported; an
operation the interpreter does not know yields Unknown and ends as "cannot tell", never as a violation.
"""
from __future__ import annotations

import ast
from typing import Any, Callable, Dict, List, Optional, Sequence, Tuple

from .model import ClassInfo, FuncInfo, Model, is_self_attr, norm


class ShapeUnknown(Exception):
    pass


# ----------------------------------------------------------------------------------------------- dims
class Dim:
    __slots__ = ('c', 'p')

    def __init__(self, c: int = 1, p: Optional[Dict[str, int]] = None):
        self.c = c
        self.p = {k: v for k, v in (p or {}).items() if v != 0}

    @staticmethod
    def of(x) -> 'Dim':
        if isinstance(x, Dim):
            return x
        if isinstance(x, int):
            return Dim(x)
        if isinstance(x, str):
            return Dim(1, {x: 1})
        raise ShapeUnknown('dimension %r' % (x,))

    def __mul__(self, o: 'Dim') -> 'Dim':
        p = dict(self.p)
        for k, v in o.p.items():
            p[k] = p.get(k, 0) + v
        return Dim(self.c * o.c, p)

    def div(self, o: 'Dim') -> 'Dim':
        if o.c == 0 or self.c % o.c != 0:
            raise ShapeUnknown('division %s / %s' % (self, o))
        p = dict(self.p)
        for k, v in o.p.items():
            p[k] = p.get(k, 0) - v
        if any(v < 0 for v in p.values()):
            raise ShapeUnknown('division %s / %s is not a monomial' % (self, o))
        return Dim(self.c // o.c, p)

    def __eq__(self, o) -> bool:
        return isinstance(o, Dim) and self.c == o.c and self.p == o.p

    def __hash__(self) -> int:
        return hash((self.c, tuple(sorted(self.p.items()))))

    def is_one(self) -> bool:
        return self.c == 1 and not self.p

    def __repr__(self) -> str:
        s = '*'.join(k if v == 1 else '%s^%d' % (k, v) for k, v in sorted(self.p.items()))
        if not s:
            return str(self.c)
        return s if self.c == 1 else '%d*%s' % (self.c, s)


ONE = Dim(1)


class Arr:
    def __init__(self, shape: Sequence[Dim]):
        self.shape = tuple(Dim.of(d) for d in shape)

    @property
    def ndim(self) -> int:
        return len(self.shape)

    def size(self) -> Dim:
        d = ONE
        for x in self.shape:
            d = d * x
        return d

    def __repr__(self) -> str:
        return 'Arr%s' % (self.shape,)

    def __eq__(self, o) -> bool:
        return isinstance(o, Arr) and self.shape == o.shape

    def __hash__(self) -> int:
        return hash(self.shape)


class Scalar:
    """A Python/numpy scalar; `dim` is set when it is a known dimension value (e.g. channel.shape[1])."""

    def __init__(self, dim: Optional[Dim] = None):
        self.dim = dim

    def __repr__(self) -> str:
        return 'Scalar(%s)' % (self.dim,) if self.dim is not None else 'Scalar'

    def __eq__(self, o) -> bool:
        return isinstance(o, Scalar)

    def __hash__(self) -> int:
        return 1


class Tup:
    def __init__(self, items: Sequence[Any]):
        self.items = list(items)

    def __repr__(self) -> str:
        return 'Tup%s' % (self.items,)


class Problem:
    def __init__(self, fn: FuncInfo, node: ast.AST, what: str):
        self.fn, self.node, self.what = fn, node, what

    @property
    def line(self) -> int:
        return getattr(self.node, 'lineno', self.fn.lineno)


class Interp:
    def __init__(self, model: Model, order: Optional[Tuple[str, str]] = ('Nr', 'Nt')):
        """order = (big, small): the side condition big >= small (so min(big, small) = small)."""
        self.M = model
        self.order = order
        self.problems: List[Problem] = []
        self.n_ops = 0
        self.n_products = 0
        self.depth = 0
        self.summaries: Dict[str, Callable[[List[Any], Dict[str, Any], ast.AST, FuncInfo], Any]] = {}
        self.self_class: Optional[ClassInfo] = None
        self.self_attrs: Dict[str, Any] = {}
        self.trace: List[str] = []

    # ------------------------------------------------------------------ helpers
    def dmin(self, a: Dim, b: Dim) -> Dim:
        if a == b:
            return a
        if self.order is not None:
            big, small = Dim.of(self.order[0]), Dim.of(self.order[1])
            if {a, b} == {big, small}:
                return small
        if a.is_one() or b.is_one():
            return ONE
        raise ShapeUnknown('min(%s, %s)' % (a, b))

    def problem(self, fn: FuncInfo, node: ast.AST, what: str) -> None:
        self.problems.append(Problem(fn, node, what))

    def broadcast(self, a: Any, b: Any, fn: FuncInfo, node: ast.AST) -> Any:
        if isinstance(a, Scalar) and isinstance(b, Scalar):
            return Scalar()
        if isinstance(a, Scalar):
            return b
        if isinstance(b, Scalar):
            return a
        if not (isinstance(a, Arr) and isinstance(b, Arr)):
            raise ShapeUnknown('elementwise operation on %r and %r' % (a, b))
        self.n_ops += 1
        sa, sb = list(a.shape), list(b.shape)
        while len(sa) < len(sb):
            sa.insert(0, ONE)
        while len(sb) < len(sa):
            sb.insert(0, ONE)
        out = []
        for x, y in zip(sa, sb):
            if x == y:
                out.append(x)
            elif x.is_one():
                out.append(y)
            elif y.is_one():
                out.append(x)
            else:
                self.problem(fn, node, 'elementwise operation on shapes %s and %s: %s != %s in general' % (a.shape, b.shape, x, y))
                out.append(x)
        return Arr(out)

    def matmul(self, a: Any, b: Any, fn: FuncInfo, node: ast.AST) -> Any:
        if isinstance(a, Scalar) or isinstance(b, Scalar):
            return self.broadcast(a, b, fn, node)
        if not (isinstance(a, Arr) and isinstance(b, Arr)):
            raise ShapeUnknown('product of %r and %r' % (a, b))
        self.n_products += 1
        if a.ndim == 2 and b.ndim == 2:
            if a.shape[1] != b.shape[0]:
                self.problem(fn, node, 'matrix product of shapes (%s, %s) and (%s, %s) is not conformable: inner dimensions %s and %s '
                             'differ whenever %s' % (a.shape[0], a.shape[1], b.shape[0], b.shape[1], a.shape[1], b.shape[0],
                                                     'Nr > Nt' if self.order else 'they are not equal'))
            return Arr([a.shape[0], b.shape[1]])
        if a.ndim == 2 and b.ndim == 1:
            if a.shape[1] != b.shape[0]:
                self.problem(fn, node, 'matrix-vector product of shapes %s and %s is not conformable' % (a.shape, b.shape))
            return Arr([a.shape[0]])
        if a.ndim == 1 and b.ndim == 2:
            if a.shape[0] != b.shape[0]:
                self.problem(fn, node, 'vector-matrix product of shapes %s and %s is not conformable' % (a.shape, b.shape))
            return Arr([b.shape[1]])
        if a.ndim == 1 and b.ndim == 1:
            if a.shape[0] != b.shape[0]:
                self.problem(fn, node, 'inner product of shapes %s and %s is not conformable' % (a.shape, b.shape))
            return Scalar()
        raise ShapeUnknown('product of ranks %d and %d' % (a.ndim, b.ndim))

    # ------------------------------------------------------------------ function interpretation
    def call_function(self, fn: FuncInfo, args: List[Any], kwargs: Dict[str, Any], self_val: Any = None) -> Any:
        if self.depth > 8:
            raise ShapeUnknown('call depth')
        self.depth += 1
        try:
            env: Dict[str, Any] = {}
            params = list(fn.params)
            a = fn.node.args
            defaults = dict(zip([x.arg for x in a.args][len(a.args) - len(a.defaults):], a.defaults))
            if fn.kind in ('method', 'getter', 'setter') and params:
                env[params[0]] = ('self', self_val)
                params = params[1:]
            for p, v in zip(params, args):
                env[p] = v
            for k, v in kwargs.items():
                env[k] = v
            for p in params:
                if p not in env:
                    d = defaults.get(p)
                    if d is None:
                        raise ShapeUnknown('missing argument %s of %s' % (p, fn.qualname))
                    env[p] = Scalar() if not (isinstance(d, ast.Constant) and d.value is None) else None
            rets = self.block(fn.node.body, env, fn)
            rets = [r for r in rets if r is not RAISES]
            if not rets:
                raise ShapeUnknown('%s has no returning path' % fn.qualname)
            out = rets[0]
            for r in rets[1:]:
                if not _same(out, r):
                    self.problem(fn, fn.node, 'paths of %s return different shapes: %r vs %r' % (fn.qualname, out, r))
            return out
        finally:
            self.depth -= 1

    def block(self, body: List[ast.stmt], env: Dict[str, Any], fn: FuncInfo) -> List[Any]:
        """Returns the list of returned values over all paths through body (env is updated in place for the
        fall-through path; an empty list means the block falls through)."""
        for i, s in enumerate(body):
            if isinstance(s, ast.Expr):
                if not isinstance(s.value, ast.Constant):
                    self.ev(s.value, env, fn)
                continue
            if isinstance(s, (ast.Assign, ast.AnnAssign)):
                if getattr(s, 'value', None) is None:
                    continue
                v = self.ev(s.value, env, fn)
                for t in (s.targets if isinstance(s, ast.Assign) else [s.target]):
                    self.assign(t, v, env, fn)
                    if isinstance(t, ast.Name):
                        # a named truth value (`use_x = y is not None and ...`) keeps its statically known value
                        env.pop('?truth:' + t.id, None)
                        if isinstance(s.value, (ast.BoolOp, ast.Compare, ast.UnaryOp)):
                            tv = self.static_test(s.value, env, fn)
                            if tv is not None:
                                env['?truth:' + t.id] = tv
                continue
            if isinstance(s, ast.AugAssign):
                cur = self.ev(ast.copy_location(ast.parse(norm(s.target), mode='eval').body, s.target), env, fn)
                v = self.ev(s.value, env, fn)
                self.assign(s.target, self.broadcast(cur, v, fn, s), env, fn)
                continue
            if isinstance(s, ast.Return):
                return [self.ev(s.value, env, fn) if s.value is not None else None]
            if isinstance(s, ast.Raise):
                return [RAISES]
            if isinstance(s, ast.If):
                rest = body[i + 1:]
                const = self.static_test(s.test, env, fn)
                outs: List[Any] = []
                envs = []
                for branch, taken in ((s.body, True), (s.orelse, False)):
                    if const is not None and const != taken:
                        continue
                    e2 = dict(env)
                    r = self.block(list(branch) + list(rest), e2, fn)
                    outs.extend(r)
                    envs.append(e2)
                if not outs and envs:
                    env.update(envs[0])
                return outs
            if isinstance(s, (ast.Assert, ast.Pass, ast.Import, ast.ImportFrom)):
                continue
            if isinstance(s, (ast.For, ast.While)):
                raise ShapeUnknown('loop in %s' % fn.qualname)
            raise ShapeUnknown('statement %s' % type(s).__name__)
        return []

    def static_test(self, t: ast.AST, env: Dict[str, Any], fn: FuncInfo) -> Optional[bool]:
        """`x is None` for a known-None / known-not-None argument, through not / and / or and named truth values."""
        if isinstance(t, ast.UnaryOp) and isinstance(t.op, ast.Not):
            v = self.static_test(t.operand, env, fn)
            return None if v is None else not v
        if isinstance(t, ast.BoolOp):
            vals = [self.static_test(x, env, fn) for x in t.values]
            if isinstance(t.op, ast.And):
                # left to right: a known-False conjunct decides if everything before it is known True or irrelevant
                if any(v is False for v in vals):
                    return False
                return True if all(v is True for v in vals) else None
            if any(v is True for v in vals):
                return True
            return False if all(v is False for v in vals) else None
        if isinstance(t, ast.Name) and ('?truth:' + t.id) in env:
            return env['?truth:' + t.id]
        if isinstance(t, ast.Compare) and len(t.ops) == 1 and isinstance(t.comparators[0], ast.Constant) \
                and t.comparators[0].value is None and isinstance(t.ops[0], (ast.Is, ast.IsNot)):
            val = MISSING = object()
            if isinstance(t.left, ast.Name) and t.left.id in env:
                val = env[t.left.id]
            elif isinstance(t.left, ast.Attribute) and isinstance(t.left.value, ast.Name) \
                    and isinstance(env.get(t.left.value.id), tuple) and env[t.left.value.id][0] == 'self':
                try:
                    val = self.attribute(t.left, env, fn)
                except ShapeUnknown:
                    return None
            if val is MISSING or isinstance(val, tuple):
                return None
            is_none = val is None
            return is_none if isinstance(t.ops[0], ast.Is) else not is_none
        return None

    def assign(self, t: ast.AST, v: Any, env: Dict[str, Any], fn: FuncInfo) -> None:
        if isinstance(t, ast.Name):
            env[t.id] = v
            return
        if isinstance(t, (ast.Tuple, ast.List)):
            if not isinstance(v, Tup) or len(v.items) != len(t.elts):
                raise ShapeUnknown('unpacking %r into %s' % (v, norm(t)))
            for e, x in zip(t.elts, v.items):
                self.assign(e, x, env, fn)
            return
        if isinstance(t, ast.Attribute) and t.attr == 'shape' and isinstance(t.value, ast.Name):
            # x.shape = <size or tuple>
            cur = env.get(t.value.id)
            if isinstance(cur, Arr):
                if isinstance(v, Scalar) and v.dim is not None:
                    env[t.value.id] = Arr([v.dim])
                    return
                if isinstance(v, Tup) and all(isinstance(x, Scalar) and x.dim is not None for x in v.items):
                    env[t.value.id] = Arr([x.dim for x in v.items])
                    return
            raise ShapeUnknown('shape assignment %s' % norm(t))
        if isinstance(t, ast.Attribute) and isinstance(t.value, ast.Name) and isinstance(env.get(t.value.id), tuple) \
                and env[t.value.id][0] == 'self':
            self.self_attrs[t.attr] = v
            return
        raise ShapeUnknown('store to %s' % norm(t))

    def initial_self_attr(self, attr: str) -> Any:
        """Value an attribute has after construction when every constructor assigns the literal None to it."""
        if self.self_class is None:
            raise ShapeUnknown('attribute self.%s' % attr)
        found = False
        for k in self.M.mro(self.self_class):
            init = k.methods.get('__init__')
            if init is None:
                continue
            for n in ast.walk(init.node):
                tg, val = [], None
                if isinstance(n, ast.Assign):
                    tg, val = n.targets, n.value
                elif isinstance(n, ast.AnnAssign) and n.value is not None:
                    tg, val = [n.target], n.value
                for t in tg:
                    if isinstance(t, ast.Attribute) and t.attr == attr and isinstance(t.value, ast.Name) and t.value.id == (init.self_name or 'self'):
                        if isinstance(val, ast.Constant) and val.value is None:
                            found = True
                        else:
                            raise ShapeUnknown('attribute self.%s' % attr)
        if found:
            return None
        raise ShapeUnknown('attribute self.%s' % attr)

    # ------------------------------------------------------------------ expressions
    def ev(self, e: ast.AST, env: Dict[str, Any], fn: FuncInfo) -> Any:
        if isinstance(e, ast.Constant):
            if isinstance(e.value, int) and not isinstance(e.value, bool):
                return Scalar(Dim(e.value)) if e.value > 0 else Scalar()
            return Scalar() if e.value is not None else None
        if isinstance(e, ast.Name):
            if e.id in env:
                return env[e.id]
            raise ShapeUnknown('name %s' % e.id)
        if isinstance(e, ast.UnaryOp):
            return self.ev(e.operand, env, fn)
        if isinstance(e, ast.BinOp):
            if isinstance(e.op, ast.MatMult):
                return self.matmul(self.ev(e.left, env, fn), self.ev(e.right, env, fn), fn, e)
            l, r = self.ev(e.left, env, fn), self.ev(e.right, env, fn)
            if isinstance(l, Scalar) and isinstance(r, Scalar):
                if isinstance(e.op, ast.Mult) and l.dim is not None and r.dim is not None:
                    return Scalar(l.dim * r.dim)
                if isinstance(e.op, ast.FloorDiv) and l.dim is not None and r.dim is not None:
                    return Scalar(l.dim.div(r.dim))
                return Scalar()
            return self.broadcast(l, r, fn, e)
        if isinstance(e, ast.Compare):
            for x in [e.left] + list(e.comparators):
                self.ev(x, env, fn)
            return Scalar()
        if isinstance(e, ast.BoolOp):
            # a truth value; operands after the first may not be evaluated at run time (short circuit)
            self.ev(e.values[0], env, fn)
            for x in e.values[1:]:
                try:
                    self.ev(x, env, fn)
                except ShapeUnknown:
                    pass
            return Scalar()
        if isinstance(e, ast.Tuple) or isinstance(e, ast.List):
            return Tup([self.ev(x, env, fn) for x in e.elts])
        if isinstance(e, ast.Attribute):
            return self.attribute(e, env, fn)
        if isinstance(e, ast.Subscript):
            return self.subscript(e, env, fn)
        if isinstance(e, ast.Call):
            return self.call(e, env, fn)
        if isinstance(e, ast.IfExp):
            a, b = self.ev(e.body, env, fn), self.ev(e.orelse, env, fn)
            if not _same(a, b):
                raise ShapeUnknown('conditional expression with different shapes')
            return a
        raise ShapeUnknown('expression %s' % type(e).__name__)

    def attribute(self, e: ast.Attribute, env: Dict[str, Any], fn: FuncInfo) -> Any:
        # self.X
        if isinstance(e.value, ast.Name) and isinstance(env.get(e.value.id), tuple) and env[e.value.id][0] == 'self':
            if e.attr in self.self_attrs:
                return self.self_attrs[e.attr]
            if self.self_class is not None and self.M.lookup_property(self.self_class, e.attr) is None \
                    and self.M.lookup_method(self.self_class, e.attr) is None:
                v = self.initial_self_attr(e.attr)
                self.self_attrs[e.attr] = v
                return v
            if self.self_class is not None:
                p = self.M.lookup_property(self.self_class, e.attr)
                if p is not None and p[0] is not None:
                    return self.call_function(p[0], [], {}, env[e.value.id][1])
            raise ShapeUnknown('attribute self.%s' % e.attr)
        s = norm(e)
        if s in ('np.newaxis',):
            return 'newaxis'
        if s in ('np.pi', 'math.pi', 'np.inf'):
            return Scalar()
        v = self.ev(e.value, env, fn)
        if isinstance(v, Arr):
            if e.attr == 'T':
                return Arr(tuple(reversed(v.shape)))
            if e.attr == 'shape':
                return Tup([Scalar(d) for d in v.shape])
            if e.attr == 'size':
                return Scalar(v.size())
            if e.attr in ('real', 'imag'):
                return v
            if e.attr == 'ndim':
                return Scalar(Dim(v.ndim))
        raise ShapeUnknown('attribute %s of %r' % (e.attr, v))

    def subscript(self, e: ast.Subscript, env: Dict[str, Any], fn: FuncInfo) -> Any:
        v = self.ev(e.value, env, fn)
        if isinstance(v, Tup):
            i = e.slice
            if isinstance(i, ast.Constant) and isinstance(i.value, int):
                return v.items[i.value]
            if isinstance(i, ast.UnaryOp) and isinstance(i.operand, ast.Constant):
                return v.items[-i.operand.value]
            raise ShapeUnknown('tuple index %s' % norm(i))
        if isinstance(v, Arr):
            idx = list(e.slice.elts) if isinstance(e.slice, ast.Tuple) else [e.slice]
            out: List[Dim] = []
            k = 0
            for i in idx:
                if isinstance(i, ast.Attribute) and norm(i) == 'np.newaxis' or (isinstance(i, ast.Constant) and i.value is None):
                    out.append(ONE)
                    continue
                if k >= v.ndim:
                    raise ShapeUnknown('too many indices in %s' % norm(e))
                if isinstance(i, ast.Slice):
                    if i.lower is None and i.upper is None and i.step is None:
                        out.append(v.shape[k])
                    else:
                        raise ShapeUnknown('partial slice %s' % norm(e))
                else:
                    iv = self.ev(i, env, fn)
                    if not isinstance(iv, Scalar):
                        raise ShapeUnknown('array index %s' % norm(e))
                k += 1
            out.extend(v.shape[k:])
            return Arr(out) if out else Scalar()
        raise ShapeUnknown('subscript of %r' % (v,))

    def call(self, c: ast.Call, env: Dict[str, Any], fn: FuncInfo) -> Any:
        f = c.func
        fs = norm(f)
        short = fs.split('.')[-1]
        kw = {k.arg: k.value for k in c.keywords if k.arg}
        # ---- numpy / math
        if fs in ('math.sqrt', 'np.sqrt', 'float', 'int', 'abs', 'np.abs', 'np.exp', 'np.angle', 'np.conj', 'np.conjugate', 'np.absolute', 'np.square', 'np.ascontiguousarray', 'np.real',
                  'np.imag', 'np.copy', 'np.array', 'np.asarray', 'np.log2', 'np.log10', 'linear2dB'):
            return self.ev(c.args[0], env, fn)
        if fs in ('np.eye', 'np.identity'):
            d = self.ev(c.args[0], env, fn)
            if isinstance(d, Scalar) and d.dim is not None:
                return Arr([d.dim, d.dim])
            raise ShapeUnknown('np.eye of an unknown size')
        if fs in ('np.zeros', 'np.ones', 'np.empty'):
            d = self.ev(c.args[0], env, fn)
            if isinstance(d, Scalar) and d.dim is not None:
                return Arr([d.dim])
            if isinstance(d, Tup) and all(isinstance(x, Scalar) and x.dim is not None for x in d.items):
                return Arr([x.dim for x in d.items])
            raise ShapeUnknown('allocation of unknown size')
        if fs == 'np.linalg.pinv':
            a = self.ev(c.args[0], env, fn)
            if isinstance(a, Arr) and a.ndim == 2:
                self.n_ops += 1
                return Arr([a.shape[1], a.shape[0]])
            raise ShapeUnknown('pinv of %r' % (a,))
        if fs == 'np.linalg.inv':
            a = self.ev(c.args[0], env, fn)
            if isinstance(a, Arr) and a.ndim == 2:
                if a.shape[0] != a.shape[1]:
                    self.problem(fn, c, 'inverse of a non-square (%s, %s) matrix' % a.shape)
                return a
            raise ShapeUnknown('inv of %r' % (a,))
        if fs == 'np.linalg.solve':
            a, b = self.ev(c.args[0], env, fn), self.ev(c.args[1], env, fn)
            if isinstance(a, Arr) and isinstance(b, Arr) and a.ndim == 2:
                self.n_products += 1
                if a.shape[0] != a.shape[1]:
                    self.problem(fn, c, 'solve with a non-square (%s, %s) coefficient matrix' % a.shape)
                if a.shape[0] != b.shape[0]:
                    self.problem(fn, c, 'solve: coefficient matrix (%s, %s) and right-hand side %s do not match' % (a.shape[0], a.shape[1], b.shape))
                return b
            raise ShapeUnknown('solve of %r, %r' % (a, b))
        if fs == 'np.linalg.svd':
            a = self.ev(c.args[0], env, fn)
            full = True
            if 'full_matrices' in kw:
                v = kw['full_matrices']
                if isinstance(v, ast.Constant):
                    full = bool(v.value)
                else:
                    raise ShapeUnknown('svd with non-literal full_matrices')
            elif len(c.args) > 1 and isinstance(c.args[1], ast.Constant):
                full = bool(c.args[1].value)
            if isinstance(a, Arr) and a.ndim == 2:
                self.n_ops += 1
                m, n = a.shape
                k = self.dmin(m, n)
                if full:
                    return Tup([Arr([m, m]), Arr([k]), Arr([n, n])])
                return Tup([Arr([m, k]), Arr([k]), Arr([k, n])])
            raise ShapeUnknown('svd of %r' % (a,))
        if fs == 'np.diag':
            a = self.ev(c.args[0], env, fn)
            if isinstance(a, Arr) and a.ndim == 1:
                return Arr([a.shape[0], a.shape[0]])
            if isinstance(a, Arr) and a.ndim == 2:
                return Arr([self.dmin(a.shape[0], a.shape[1])])
            raise ShapeUnknown('diag of %r' % (a,))
        if fs in ('np.dot', 'np.matmul'):
            return self.matmul(self.ev(c.args[0], env, fn), self.ev(c.args[1], env, fn), fn, c)
        if fs in ('np.sum', 'np.linalg.norm', 'np.mean'):
            a = self.ev(c.args[0], env, fn)
            if 'axis' in kw and isinstance(a, Arr) and isinstance(kw['axis'], ast.Constant) and isinstance(kw['axis'].value, int):
                ax = kw['axis'].value
                return Arr([d for i, d in enumerate(a.shape) if i != ax % a.ndim])
            return Scalar()
        if fs in ('isinstance', 'len', 'warnings.warn', 'cast'):
            if fs == 'cast':
                return self.ev(c.args[-1], env, fn)
            return Scalar()
        if short in self.summaries:
            return self.summaries[short]([self.ev(a, env, fn) for a in c.args], {k: self.ev(v, env, fn) for k, v in kw.items()}, c, fn)
        # ---- array methods
        if isinstance(f, ast.Attribute):
            recv_is_self = isinstance(f.value, ast.Name) and isinstance(env.get(f.value.id), tuple) and env[f.value.id][0] == 'self'
            if recv_is_self and self.self_class is not None:
                m = self.M.lookup_method(self.self_class, f.attr)
                if m is not None:
                    args = [self.ev(a, env, fn) for a in c.args]
                    return self.call_function(m, args, {k: self.ev(v, env, fn) for k, v in kw.items()}, env[f.value.id][1])
                raise ShapeUnknown('method self.%s' % f.attr)
            # Class.static(...)
            if isinstance(f.value, ast.Name) and f.value.id in self.M.classes:
                m = self.M.lookup_method(self.M.classes[f.value.id], f.attr)
                if m is not None:
                    args = [self.ev(a, env, fn) for a in c.args]
                    return self.call_function(m, args, {k: self.ev(v, env, fn) for k, v in kw.items()})
            v = self.ev(f.value, env, fn)
            if isinstance(v, Arr):
                if f.attr in ('conj', 'conjugate', 'copy', 'astype'):
                    return v
                if f.attr == 'transpose' and not c.args:
                    return Arr(tuple(reversed(v.shape)))
                if f.attr == 'dot':
                    return self.matmul(v, self.ev(c.args[0], env, fn), fn, c)
                if f.attr == 'flatten':
                    return Arr([v.size()])
                if f.attr == 'reshape':
                    return self.reshape(v, c, env, fn)
            if isinstance(v, Scalar) and f.attr in ('conj', 'conjugate', 'item'):
                return v
            raise ShapeUnknown('method %s of %r' % (f.attr, v))
        if isinstance(f, ast.Name):
            g = self.M.resolve_function(fn.module, f)
            if g is not None:
                return self.call_function(g, [self.ev(a, env, fn) for a in c.args], {k: self.ev(v, env, fn) for k, v in kw.items()})
        raise ShapeUnknown('call of %s' % fs)

    def reshape(self, v: Arr, c: ast.Call, env: Dict[str, Any], fn: FuncInfo) -> Arr:
        args = list(c.args)
        if len(args) == 1 and isinstance(args[0], (ast.Tuple, ast.List)):
            args = list(args[0].elts)
        dims: List[Optional[Dim]] = []
        for a in args:
            if isinstance(a, ast.UnaryOp) and isinstance(a.op, ast.USub) and isinstance(a.operand, ast.Constant) and a.operand.value == 1:
                dims.append(None)
                continue
            x = self.ev(a, env, fn)
            if isinstance(x, Scalar) and x.dim is not None:
                dims.append(x.dim)
            else:
                raise ShapeUnknown('reshape to an unknown size: %s' % norm(a))
        total = v.size()
        known = ONE
        for d in dims:
            if d is not None:
                known = known * d
        if dims.count(None) > 1:
            raise ShapeUnknown('reshape with several -1')
        if dims.count(None) == 1:
            try:
                rest = total.div(known)
            except ShapeUnknown:
                self.problem(fn, c, 'reshape of %s elements to %s: the size is not divisible' % (total, [d for d in dims]))
                rest = ONE
            dims = [rest if d is None else d for d in dims]
        elif known != total:
            self.problem(fn, c, 'reshape of %s elements to %s' % (total, dims))
        self.n_ops += 1
        return Arr([d for d in dims if d is not None])


RAISES = object()


def _same(a: Any, b: Any) -> bool:
    if isinstance(a, Arr) and isinstance(b, Arr):
        return a.shape == b.shape
    if isinstance(a, Scalar) and isinstance(b, Scalar):
        return True
    if isinstance(a, Tup) and isinstance(b, Tup):
        return len(a.items) == len(b.items) and all(_same(x, y) for x, y in zip(a.items, b.items))
    return a is b
