"""E7 - literal tables and idiom rules (evaluate literals of the source with the checker's own arithmetic)."""
from __future__ import annotations

import ast
import glob
import os
from typing import Dict, List, Optional, Set, Tuple

from .model import FuncInfo, Model, norm
from .overlay import AnalysisError

_NUMPY_NAMES: Optional[Set[str]] = None


def numpy_public_names() -> Tuple[Set[str], str]:
    """Public attribute names of the installed numpy, read from its stub + package listing (never imported)."""
    global _NUMPY_NAMES
    cands = sorted(glob.glob('/venv/lib/python3*/site-packages/numpy/__init__.pyi'))
    if not cands:
        raise AnalysisError('numpy stub (__init__.pyi) not found under /venv: cannot decide the removed-alias rule')
    stub = cands[0]
    if _NUMPY_NAMES is not None:
        return _NUMPY_NAMES, stub
    names: Set[str] = set()
    tree = ast.parse(open(stub, encoding='utf-8').read())

    def collect(body):
        for n in body:
            if isinstance(n, (ast.FunctionDef, ast.AsyncFunctionDef, ast.ClassDef)):
                names.add(n.name)
            elif isinstance(n, ast.Assign):
                for t in n.targets:
                    if isinstance(t, ast.Name):
                        names.add(t.id)
            elif isinstance(n, ast.AnnAssign) and isinstance(n.target, ast.Name):
                names.add(n.target.id)
            elif isinstance(n, ast.ImportFrom):
                for a in n.names:
                    names.add(a.asname or a.name)
            elif isinstance(n, ast.Import):
                for a in n.names:
                    names.add((a.asname or a.name).split('.')[0])
            elif isinstance(n, (ast.If, ast.Try)):
                collect(n.body)
                collect(getattr(n, 'orelse', []))
    collect(tree.body)
    d = os.path.dirname(stub)
    for e in os.listdir(d):
        if e.endswith('.py') or e.endswith('.pyi'):
            names.add(e.rsplit('.', 1)[0])
        elif os.path.isdir(os.path.join(d, e)) and not e.startswith('_'):
            names.add(e)
    if len(names) < 300:
        raise AnalysisError('numpy stub parsed to only %d names: stub layout unknown' % len(names))
    _NUMPY_NAMES = names
    return names, stub


def numpy_attr_uses(model: Model):
    """(module, function qualname or '<module>', attr, line) for every np.<attr> in the package."""
    for m in model.modules.values():
        aliases = {a for a, q in m.imports.items() if q == 'numpy'}
        if not aliases:
            continue
        owner: Dict[int, str] = {}
        for fn in model.all_functions():
            if fn.module is m:
                for n in ast.walk(fn.node):
                    owner[id(n)] = fn.qualname     # innermost wins because nested functions are visited later
        for n in ast.walk(m.tree):
            if isinstance(n, ast.Attribute) and isinstance(n.value, ast.Name) and n.value.id in aliases:
                yield m, owner.get(id(n), '<module>'), n.attr, n.lineno


def sieve(n: int) -> List[int]:
    s = bytearray([1]) * (n + 1)
    s[0:2] = b'\x00\x00'
    for i in range(2, int(n ** 0.5) + 1):
        if s[i]:
            s[i * i::i] = bytearray(len(s[i * i::i]))
    return [i for i in range(n + 1) if s[i]]
