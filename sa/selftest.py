"""Rule-sensitivity self tests: in-memory mutants of today's tree, and tiny synthetic positives.

A rule that no longer fires on a seeded violation (or fires on a benign edit) is an ANALYSIS-ERROR
(exit 2) - a defect of the checker, never a violation of the property.
"""
from __future__ import annotations

import concurrent.futures as cf
import os
import re
from typing import Any, Dict, List, Optional, Tuple

from .overlay import AnalysisError, MutantNotApplicable, Overlay
from .report import Ctx


class Mutant:
    """Data-only description of an AST-level edit of one function (picklable).

    ops: list of
       ('replace', old, new)      textual replace (exactly once) on the canonical unparsed function source
       ('regex', pattern, repl)   re.sub (count=1, MULTILINE|DOTALL)
       ('delete', pattern)        delete the first *line* (simple statement) matching the regex
    expect: regex that must match the key of a newly reported violation (None for benign edits)
    """

    def __init__(self, name: str, path: str, qualname: str, ops: List[Tuple], expect: Optional[str],
                 benign: bool = False, note: str = ''):
        self.name, self.path, self.qualname, self.ops = name, path, qualname, ops
        self.expect, self.benign, self.note = expect, benign, note

    def apply(self, overlay: Overlay) -> Overlay:
        ops = self.ops

        def edit(src: str) -> str:
            for op in ops:
                if op[0] == 'replace':
                    if src.count(op[1]) < 1:
                        raise MutantNotApplicable('text %r not found' % op[1])
                    src = src.replace(op[1], op[2], 1)
                elif op[0] == 'regex':
                    new, n = re.subn(op[1], op[2], src, count=1, flags=re.M | re.S)
                    if n == 0:
                        raise MutantNotApplicable('pattern %r not found' % op[1])
                    src = new
                elif op[0] == 'regex_all':
                    new, n = re.subn(op[1], op[2], src, flags=re.M | re.S)
                    if n == 0:
                        raise MutantNotApplicable('pattern %r not found' % op[1])
                    src = new
                elif op[0] == 'delete_at':
                    lines = src.split('\n')
                    i, text = op[1], op[2]
                    if i >= len(lines) or lines[i].strip() != text:
                        raise MutantNotApplicable('line %d is not %r' % (i, text))
                    l = lines[i]
                    lines[i] = l[:len(l) - len(l.lstrip())] + 'pass'
                    src = '\n'.join(lines)
                elif op[0] == 'delete':
                    lines = src.split('\n')
                    for i, l in enumerate(lines):
                        if re.search(op[1], l):
                            ind = l[:len(l) - len(l.lstrip())]
                            lines[i] = ind + 'pass'
                            break
                    else:
                        raise MutantNotApplicable('no line matching %r' % op[1])
                    src = '\n'.join(lines)
                else:
                    raise ValueError(op[0])
            return src

        return overlay.edit_function(self.path, self.qualname, edit, label='mutant:' + self.name)


def _run_one(args) -> Dict[str, Any]:
    modname, pid, files, root, mutant, baseline = args
    import importlib
    mod = importlib.import_module(modname)
    overlay = Overlay(files, root)
    res: Dict[str, Any] = {'mutant': mutant.name, 'function': mutant.qualname, 'benign': mutant.benign}
    try:
        mo = mutant.apply(overlay)
    except MutantNotApplicable as e:
        res.update(status='not-applicable', detail=str(e))
        return res
    try:
        ctx = Ctx(pid, mo, 'quick', 0)
        try:
            mod.check(ctx)
            ctx.check_floors()
        except AnalysisError as e:
            if not [k for k in ctx.keys() if k not in baseline]:
                raise
            res['analysis_incomplete'] = str(e)
        keys = [k for k in ctx.keys() if k not in baseline]
        res['new_keys'] = keys
        if mutant.benign:
            res['status'] = 'ok' if not keys else 'FALSE-ALARM'
        else:
            hit = [k for k in keys if re.search(mutant.expect or '', k)]
            res['status'] = 'ok' if hit else 'MISSED'
            res['report'] = hit[:3]
    except AnalysisError as e:
        res['analysis_error'] = str(e)
        if mutant.benign:
            res['status'] = 'FALSE-ALARM'
        else:
            res['status'] = 'ok' if mutant.expect == 'ANALYSIS-ERROR' else 'MISSED'
    return res


def run_mutants(mod, pid: str, overlay: Overlay, seed: int = 0, jobs: int = 0) -> Dict[str, Any]:
    mutants: List[Mutant] = list(getattr(mod, 'MUTANTS', [])) + corpus_mutants(pid)
    if not mutants:
        return {'mutants': 0, 'note': 'no mutants registered for this property'}
    base = Ctx(pid, overlay, 'quick', seed)
    mod.check(base)
    baseline = set(base.keys())
    jobs = jobs or min(16, os.cpu_count() or 1, len(mutants))
    args = [(mod.__name__, pid, overlay.files, overlay.root, m, baseline) for m in mutants]
    if jobs > 1:
        with cf.ProcessPoolExecutor(max_workers=jobs) as ex:
            results = list(ex.map(_run_one, args))
    else:
        results = [_run_one(a) for a in args]
    # the self-test expectations (which seeded edit / corpus seed is caught, which benign edit / refactoring is silent) were recorded on the
    # reference tree: on any other tree - somebody's change under review - an edit meets code it was not written for, so its outcome is
    # reported in the evidence, not enforced (the verdict on the tree itself never depends on the self-test)
    strict = True
    try:
        import json as _json
        with open(os.path.join(os.path.dirname(os.path.dirname(os.path.abspath(__file__))), 'reference_api.json')) as _f:
            strict = _json.load(_f).get('tree_digest') in (None, overlay.digest())
    except OSError:
        pass
    if not strict:
        for r in results:
            if r['status'] in ('MISSED', 'FALSE-ALARM'):          # corpus patches and hand-written edits alike
                r['status'] = 'not-enforced (%s on a tree that differs from the corpus baseline)' % r['status']
    bad = [r for r in results if r['status'] in ('MISSED', 'FALSE-ALARM')]
    summary = {
        'mutants': len(results),
        'applied': sum(1 for r in results if r['status'] != 'not-applicable'),
        'seeded_violations_detected': sum(1 for r in results if r['status'] == 'ok' and not r['benign']),
        'benign_edits_silent': sum(1 for r in results if r['status'] == 'ok' and r['benign']),
        'not_applicable': [r['mutant'] for r in results if r['status'] == 'not-applicable'],
        'corpus_expectations_enforced': strict,
        'results': results,
    }
    if bad:
        raise AnalysisError('rule-sensitivity self-test failed for %s: %s' % (
            pid, '; '.join('%s=%s%s' % (r['mutant'], r['status'],
                                        (' new=' + ','.join(r.get('new_keys', [])[:3])) if r.get('new_keys') else
                                        (' err=' + r.get('analysis_error', '')[:80]) if r.get('analysis_error') else '')
                           for r in bad)))
    return summary


def run_synthetic(mod, pid: str) -> List[Dict[str, Any]]:
    fn = getattr(mod, 'synthetic', None)
    if fn is None:
        return []
    out = []
    for name, fired in fn():
        out.append({'synthetic': name, 'fired': bool(fired)})
        if not fired:
            raise AnalysisError('synthetic positive %s of %s was not reported: the rule is blind' % (name, pid))
    return out


def synthetic_overlay(files: Dict[str, str]) -> Overlay:
    return Overlay(files, root='<synthetic>', label='synthetic')


# ---------------------------------------------------------------------------------------------
# systematic sensitivity sweep (thorough tier): auto-generated single-statement deletions
# ---------------------------------------------------------------------------------------------
def sweep_lines(overlay: Overlay, path: str, qualname: str, predicate, tag: str) -> List[Mutant]:
    """One mutant per line of the canonical source of `qualname` for which predicate(stripped_line) holds."""
    import ast as _ast
    from .overlay import find_def, strip_docstring
    tree = _ast.parse(overlay.src(path))
    node = find_def(tree, qualname)
    if node is None:
        return []
    strip_docstring(node)
    out = []
    for i, line in enumerate(_ast.unparse(node).split('\n')):
        t = line.strip()
        if i > 0 and predicate(t):
            out.append(Mutant('sweep:%s:%s:%d:%s' % (tag, qualname, i, t[:40]), path, qualname, [('delete_at', i, t)], expect=''))
    return out


def run_sweep(mod, pid: str, overlay: Overlay, jobs: int = 0) -> Dict[str, Any]:
    gen = getattr(mod, 'sweep', None)
    if gen is None:
        return {}
    mutants: List[Mutant] = gen(overlay)
    if not mutants:
        return {'generated': 0}
    base = Ctx(pid, overlay, 'quick', 0)
    mod.check(base)
    baseline = set(base.keys())
    jobs = jobs or min(16, os.cpu_count() or 1, len(mutants))
    args = [(mod.__name__, pid, overlay.files, overlay.root, m, baseline) for m in mutants]
    with cf.ProcessPoolExecutor(max_workers=jobs) as ex:
        results = list(ex.map(_run_one, args, chunksize=max(1, len(args) // (jobs * 4))))
    det = [r for r in results if r['status'] == 'ok' and r.get('new_keys')]
    und = [r for r in results if r['status'] != 'not-applicable' and not r.get('new_keys') and not r.get('analysis_error')]
    err = [r for r in results if r.get('analysis_error')]
    out = {
        'rule': 'every statement of the anchored functions that the property module classifies as protocol-relevant '
                '(invalidations, refreshes, guards, bookkeeping stores) is deleted in turn; "detected" = the check reports a new '
                'violation or refuses with ANALYSIS-ERROR; "undetected" = the deletion is outside the decided clauses or redundant',
        'generated': len(results),
        'detected': len(det),
        'refused_as_analysis_error': len(err),
        'undetected': [r['mutant'] for r in und],
        'detected_samples': [{'mutant': r['mutant'], 'keys': r['new_keys'][:2]} for r in det[:8]],
    }
    if results and not det and not err:
        raise AnalysisError('sensitivity sweep of %s: none of %d generated deletions was noticed' % (pid, len(results)))
    return out


def simple_statement(t: str) -> bool:
    """A line of canonical source that is a simple statement (deleting it keeps the function compilable)."""
    import re
    if not t or t == 'pass' or t.startswith(('if ', 'elif ', 'else:', 'while ', 'for ', 'try:', 'except', 'finally:', 'with ',
                                             'def ', 'class ', 'return', '@', '"""', "'''", 'global ', 'nonlocal ', 'assert ')):
        return False
    return not t.endswith(':')


# ---------------------------------------------------------------------------------------------
# corpus mutants: the confirmed seeded changes and behaviour-preserving refactorings kept under /verif/seeded are re-applied IN MEMORY
# (unified diff applied to the overlay's file texts; /repo is never touched) on every thorough run
# ---------------------------------------------------------------------------------------------
def apply_unified_diff(files: Dict[str, str], diff_text: str) -> Dict[str, str]:
    """Apply a git unified diff to {path: text}.  Hunks are located at their stated line, or else at the nearest position where the
    before-text matches exactly; a hunk whose before-text is not found raises MutantNotApplicable."""
    out = dict(files)
    cur: Optional[str] = None
    hunks: Dict[str, List[Tuple[int, List[str], List[str]]]] = {}
    lines = diff_text.split('\n')
    i = 0
    while i < len(lines):
        l = lines[i]
        if l.startswith('+++ '):
            tgt = l[4:].strip()
            cur = tgt[2:] if tgt.startswith('b/') else tgt
            hunks.setdefault(cur, [])
            i += 1
            continue
        m = re.match(r'@@ -(\d+)(?:,(\d+))? \+(\d+)(?:,(\d+))? @@', l)
        if m and cur is not None:
            start = int(m.group(1))
            old: List[str] = []
            new: List[str] = []
            i += 1
            while i < len(lines) and not lines[i].startswith(('@@ ', 'diff --git', '--- a/', '--- /dev/null')):
                h = lines[i]
                if h.startswith('\\'):
                    pass
                elif h.startswith('-'):
                    old.append(h[1:])
                elif h.startswith('+'):
                    new.append(h[1:])
                elif h.startswith(' ') or h == '':
                    if h == '' and i == len(lines) - 1:
                        break
                    old.append(h[1:])
                    new.append(h[1:])
                i += 1
            hunks[cur].append((start, old, new))
            continue
        i += 1
    for path, hs in hunks.items():
        if path == '/dev/null':
            continue
        text = out.get(path, '')
        flines = text.split('\n')
        offset = 0
        for start, old, new in hs:
            at = start - 1 + offset if old else max(start + offset, 0)
            cands = sorted(range(0, len(flines) - len(old) + 1), key=lambda k: abs(k - at))
            pos = next((k for k in cands if flines[k:k + len(old)] == old), None) if old else min(at, len(flines))
            if pos is None:
                # trailing context of the last hunk may run past the end of the file
                raise MutantNotApplicable('hunk at %s:%d does not apply to the current tree' % (path, start))
            flines[pos:pos + len(old)] = new
            offset += len(new) - len(old)
        out[path] = '\n'.join(flines)
    return out


class PatchMutant(Mutant):
    """A whole-patch mutant: the unified diff at `patch` (a file under /verif/seeded) applied to the overlay in memory."""

    def __init__(self, name: str, patch: str, expect: Optional[str], benign: bool = False, note: str = ''):
        super().__init__(name, patch, name, [], expect, benign, note)
        self.patch = patch

    def apply(self, overlay: Overlay) -> Overlay:
        with open(self.patch, encoding='utf-8') as fh:
            diff = fh.read()
        files = apply_unified_diff(overlay.files, diff)
        changed = [p for p in files if files[p] != overlay.files.get(p)]
        if not changed:
            raise MutantNotApplicable('patch leaves the tree unchanged')
        for p in changed:
            try:
                import ast as _ast
                _ast.parse(files[p])
            except SyntaxError as e:
                raise MutantNotApplicable('patched %s does not parse: %s' % (p, e))
        return Overlay(files, overlay.root, 'corpus:' + self.name)


def corpus_mutants(pid: str, verif_root: Optional[str] = None) -> List[Mutant]:
    """The seeded changes recorded as caught by `pid` (must still be reported) and the refactorings of `pid` not recorded as refused
    (must stay silent), from the committed corpus."""
    import json
    root = verif_root or os.path.dirname(os.path.dirname(os.path.abspath(__file__)))
    sd = os.path.join(root, 'seeded')
    out: List[Mutant] = []
    if not os.path.isdir(sd):
        return out
    for d in sorted(os.listdir(sd)):
        mp, pp = os.path.join(sd, d, 'meta.json'), os.path.join(sd, d, 'patch.diff')
        if not (os.path.isfile(mp) and os.path.isfile(pp)):
            continue
        meta = json.load(open(mp))
        if pid in meta.get('caught_by', []):
            out.append(PatchMutant('seed:' + d, pp, expect=''))
    rd = os.path.join(sd, 'refactor')
    if os.path.isdir(rd):
        for d in sorted(os.listdir(rd)):
            mp, pp = os.path.join(rd, d, 'meta.json'), os.path.join(rd, d, 'patch.diff')
            if not (os.path.isfile(mp) and os.path.isfile(pp)):
                continue
            meta = json.load(open(mp))
            if meta.get('property') == pid and pid not in meta.get('refused_by', []) and not meta.get('false_alarms'):
                out.append(PatchMutant('refactor:' + d, pp, expect=None, benign=True))
    return out
