"""E10 - matrix terms: normal forms in a non-commutative algebra with adjoint and inverse, and a small interpreter that
extracts such terms from straight-line NumPy code.

    MT = sum_i  c_i * F_i1 F_i2 ... F_ik          c_i : E9 scalar terms (commutative, real)
    F  = symbol | symbol^H | inv(MT) | pinv(MT)    the empty product is the identity

Rewrite rules (all are identities of exact linear algebra under the stated side conditions):
    (X Y)^H = Y^H X^H,  (X^H)^H = X,  inv(T)^H = inv(T^H),  inv(inv(T)) = T,  inv(c T) = c^-1 inv(T)
    inv(T) T = T inv(T) = I      (T square invertible: the side condition "full column rank" of the properties)
    pinv(T) T = I                (T of full column rank)
    U^H U = I for symbols declared to have orthonormal columns,  U U^H = I for orthonormal rows (unitary: both)
    a symbol may carry a DECOMPOSITION (H = U D V^H from svd, H = Q R P^H from the GMD contract) that is substituted on demand
An identity `lhs == rhs` is decided by normalising both sides; three outcomes as in E9: equal -> proven; different normal
forms -> not proven (reported as a violation only by rules whose specification term is exact); an operator the interpreter
does not know -> Unknown (cannot tell).  Nothing is ever evaluated on numbers.
"""
from __future__ import annotations

import ast
from fractions import Fraction
from typing import Any, Dict, List, Optional, Sequence, Set, Tuple

from . import terms as T
from .astutil import adjoint_of, matmul_operands
from .model import ClassInfo, FuncInfo, Model, is_self_attr, norm

Unknown = T.Unknown
Factor = Tuple          # ('sym', name, fl) | ('inv', mtkey, 0) | ('pinv', mtkey, fl);  fl: bit0 transpose, bit1 conjugate (3 = adjoint)
TR, CJ, ADJ = 1, 2, 3
ONE = T.Term.const(1)


class Ctx:
    """Properties of the matrix symbols of one proof."""

    def __init__(self) -> None:
        self.herm: Set[str] = set()             # X^H = X
        self.ortho_cols: Set[str] = set()       # X^H X = I
        self.ortho_rows: Set[str] = set()       # X X^H = I
        self.invertible: Set[str] = set()       # square invertible symbols: inv(X T) = inv(T) inv(X)
        self.decomp: Dict[str, List['MT']] = {}  # symbol -> alternative decompositions
        self.fresh = 0
        self.notes: List[str] = []
        self.norm_args: Dict[str, 'MT'] = {}     # name of a fro{...} scalar symbol -> its matrix argument

    def new(self, stem: str) -> str:
        self.fresh += 1
        return '%s#%d' % (stem, self.fresh)


class MT:
    __slots__ = ('terms',)

    def __init__(self, terms: Dict[Tuple[Factor, ...], T.Term]):
        self.terms: Tuple[Tuple[Tuple[Factor, ...], T.Term], ...] = tuple(
            sorted(((f, c) for f, c in terms.items() if c.terms), key=lambda x: repr(x[0])))

    @staticmethod
    def sym(name: str) -> 'MT':
        return MT({(('sym', name, 0),): ONE})

    @staticmethod
    def identity(c: T.Term = ONE) -> 'MT':
        return MT({(): c})

    @staticmethod
    def zero() -> 'MT':
        return MT({})

    def key(self) -> Tuple:
        return tuple((f, c.key()) for f, c in self.terms)

    def __eq__(self, o) -> bool:
        return isinstance(o, MT) and self.key() == o.key()

    def __hash__(self) -> int:
        return hash(self.key())

    def single(self) -> Optional[Tuple[Tuple[Factor, ...], T.Term]]:
        return self.terms[0] if len(self.terms) == 1 else None

    def pretty(self) -> str:
        def fs(f: Factor) -> str:
            if f[0] == 'dg':
                return 'D[%s]' % f[1] + ('' if f[2] == 1 else '^%s' % f[2])
            mark = {0: '', 1: '^T', 2: '^*', 3: '^H'}[int(f[2])]
            if f[0] == 'sym':
                return f[1] + mark
            return '%s(%s)%s' % (f[0], from_key(f[1]).pretty(), mark)
        parts = []
        for fac, c in self.terms:
            body = ' '.join(fs(f) for f in fac) or 'I'
            cs = c.pretty()
            parts.append(body if cs == '1' else '(%s) %s' % (cs, body))
        return ' + '.join(parts) if parts else '0'


def from_key(k: Tuple) -> MT:
    out = MT({})
    out.terms = tuple((f, T._t(c)) for f, c in k)
    return out


# ---------------------------------------------------------------------------------------------------------------
def add(a: MT, b: MT) -> MT:
    d: Dict[Tuple[Factor, ...], T.Term] = {f: c for f, c in a.terms}
    for f, c in b.terms:
        d[f] = d[f] + c if f in d else c
    return MT(d)


def scale(a: MT, k: T.Term) -> MT:
    return MT({f: c * k for f, c in a.terms})


def neg(a: MT) -> MT:
    return scale(a, T.Term.const(-1))


def apply_op(a: MT, op: int, cx: Ctx) -> MT:
    """op: TR transpose, CJ elementwise conjugate, ADJ conjugate transpose (scalar coefficients are real)."""
    if op == 0:
        return a
    d: Dict[Tuple[Factor, ...], T.Term] = {}
    for fac, c in a.terms:
        seq = reversed(fac) if op & TR else fac
        nf = tuple(_op_factor(f, op, cx) for f in seq)
        nf, k = _reduce(nf, cx)
        c2 = c * k
        d[nf] = d[nf] + c2 if nf in d else c2
    return MT(d)


def adjoint(a: MT, cx: Ctx) -> MT:
    return apply_op(a, ADJ, cx)


def _norm_flag(name: str, fl: int, cx: Ctx) -> int:
    # a Hermitian symbol: X^H = X, hence X^T = X^*  (canonical: drop the transpose bit, toggle conj accordingly)
    if name in cx.herm and fl & TR:
        fl = (fl ^ TR) ^ CJ
    return fl


def _op_factor(f: Factor, op: int, cx: Ctx) -> Factor:
    if f[0] == 'dg':
        return f                                               # real diagonal: unchanged by transpose / conjugate
    if f[0] == 'sym':
        return ('sym', f[1], _norm_flag(f[1], int(f[2]) ^ op, cx))
    inner = from_key(f[1])
    if f[0] == 'inv':
        return ('inv', apply_op(inner, op, cx).key(), 0)       # inv(T)^op = inv(T^op)
    return (f[0], f[1], int(f[2]) ^ op)                        # pinv: kept as a flag (only pinv(T) T = I is used)


def inverse(a: MT, cx: Ctx, kind: str = 'inv') -> MT:
    s = a.single()
    if s is not None:
        fac, c = s
        cinv = T.t_pow(c, T.Term.const(-1))
        if not fac and kind == 'inv':
            return MT.identity(cinv)
        if kind == 'inv' and len(fac) == 1 and fac[0][0] == 'inv' and not fac[0][2]:
            return scale(from_key(fac[0][1]), cinv)                # inv(inv(T)) = T
        if kind == 'inv' and len(fac) == 1 and fac[0][0] == 'dg':
            return MT({(('dg', fac[0][1], -fac[0][2]),): cinv})
        if kind == 'inv' and len(fac) > 1:
            # peel square invertible end factors: inv(X T) = inv(T) inv(X), inv(T X) = inv(X) inv(T)
            def invertible(f: Factor) -> bool:
                return f[0] == 'dg' or (f[0] == 'sym' and f[1] in cx.invertible) or (f[0] == 'inv')
            if invertible(fac[0]):
                head = inverse(MT({(fac[0],): ONE}), cx)
                rest = inverse(MT({fac[1:]: ONE}), cx)
                return scale(mul(rest, head, cx), cinv)
            if invertible(fac[-1]):
                tail = inverse(MT({(fac[-1],): ONE}), cx)
                rest = inverse(MT({fac[:-1]: ONE}), cx)
                return scale(mul(tail, rest, cx), cinv)
        core = MT({fac: ONE})
        return MT({((kind, core.key(), 0),): cinv})
    return MT({((kind, a.key(), 0),): ONE})


def mul(a: MT, b: MT, cx: Ctx) -> MT:
    # whole-term cancellation first: T * (inv(T) ...)  and  (... inv(T)) * T   (T may be a sum)
    sb = b.single()
    if sb is not None and sb[0] and sb[0][0][0] in ('inv',) and not sb[0][0][2] and from_key(sb[0][0][1]) == a:
        return MT({sb[0][1:]: sb[1]}) if True else b
    sa = a.single()
    if sa is not None and sa[0] and sa[0][-1][0] in ('inv', 'pinv') and not sa[0][-1][2] and from_key(sa[0][-1][1]) == b:
        return MT({sa[0][:-1]: sa[1]})
    d: Dict[Tuple[Factor, ...], T.Term] = {}
    for f1, c1 in a.terms:
        for f2, c2 in b.terms:
            nf, k = _reduce(f1 + f2, cx)
            c = c1 * c2 * k
            d[nf] = d[nf] + c if nf in d else c
    return MT(d)


def _reduce(fac: Tuple[Factor, ...], cx: Ctx) -> Tuple[Tuple[Factor, ...], T.Term]:
    """Cancel inverse / pseudo-inverse / orthonormal pairs inside one product.  -> (factors, scalar picked up)"""
    k = ONE
    fl = list(fac)
    changed = True
    while changed:
        changed = False
        for i, f in enumerate(fl):
            if f[0] == 'dg':
                if f[2] == 0:
                    del fl[i]
                    changed = True
                    break
                if i + 1 < len(fl) and fl[i + 1][0] == 'dg' and fl[i + 1][1] == f[1]:
                    e2 = f[2] + fl[i + 1][2]
                    fl[i:i + 2] = [('dg', f[1], e2)] if e2 != 0 else []
                    changed = True
                    break
                continue
            if f[0] == 'sym':
                if i + 1 < len(fl) and fl[i + 1][0] == 'sym' and fl[i + 1][1] == f[1]:
                    g = fl[i + 1]
                    a_, b_ = int(f[2]), int(g[2])
                    if a_ == b_ ^ ADJ:                       # the pair is X^op (X^op)^H-shaped
                        if a_ & TR and f[1] in cx.ortho_cols:           # U^H U  /  U^T U^*
                            del fl[i:i + 2]
                            changed = True
                            break
                        if not a_ & TR and f[1] in cx.ortho_rows:       # U U^H  /  U^* U^T
                            del fl[i:i + 2]
                            changed = True
                            break
                continue
            if f[0] == 'dg' or f[2]:
                continue
            inner = from_key(f[1])
            s = inner.single()
            if s is None:
                continue
            tf, tc = s
            n = len(tf)
            if n == 0:
                continue
            if tuple(fl[i + 1:i + 1 + n]) == tf:
                del fl[i:i + 1 + n]
                k = k * T.t_pow(tc, T.Term.const(-1))
                changed = True
                break
            if f[0] == 'inv' and i - n >= 0 and tuple(fl[i - n:i]) == tf:
                del fl[i - n:i + 1]
                k = k * T.t_pow(tc, T.Term.const(-1))
                changed = True
                break
    return tuple(fl), k


def expand(a: MT, cx: Ctx, choice: Optional[Dict[str, int]] = None, depth: int = 0) -> MT:
    """Substitute decomposed symbols (choice[name] selects among alternative decompositions) and renormalise."""
    if depth > 4:
        return a
    out = MT.zero()
    hit = False
    for fac, c in a.terms:
        cur = MT.identity(c)
        for f in fac:
            if f[0] == 'sym' and f[1] in cx.decomp:
                alts = cx.decomp[f[1]]
                d = alts[(choice or {}).get(f[1], 0) % len(alts)]
                fm = apply_op(d, int(f[2]), cx)
                hit = True
            elif f[0] == 'dg':
                fm = MT({(f,): ONE})
            elif f[0] in ('inv', 'pinv'):
                inner = expand(from_key(f[1]), cx, choice, depth + 1)
                fm = inverse(inner, cx, f[0])
                if f[2]:
                    fm = apply_op(fm, int(f[2]), cx)
                hit = hit or inner != from_key(f[1])
            else:
                fm = MT({(f,): ONE})
            cur = mul(cur, fm, cx)
        out = add(out, cur)
    return expand(out, cx, choice, depth + 1) if hit else out


def proves(lhs: MT, rhs: MT, cx: Ctx) -> Tuple[bool, MT, MT]:
    """lhs == rhs after normalisation, trying every choice among alternative decompositions."""
    if lhs == rhs:
        return True, lhs, rhs
    names = sorted(cx.decomp)
    combos: List[Dict[str, int]] = [{}]
    for n in names:
        combos = [dict(c, **{n: i}) for c in combos for i in range(len(cx.decomp[n]))]
    last = (lhs, rhs)
    for ch in combos[:16]:
        l, r = expand(lhs, cx, ch), expand(rhs, cx, ch)
        last = (l, r)
        if l == r:
            return True, l, r
    return False, last[0], last[1]


# ---------------------------------------------------------------------------------------------------------------
class Val:
    """Abstract value of an expression: kind in {'mat', 'scal', 'tuple', 'none', 'vec'}."""

    def __init__(self, kind: str, v: Any = None, extra: Any = None):
        self.kind, self.v, self.extra = kind, v, extra


class Returned(Exception):
    def __init__(self, val: Val):
        self.val = val


class NeedDecision(Exception):
    pass


class MatInterp:
    """Evaluates loop-free methods/functions to matrix terms.  `assume` maps a scalar name to 'zero' / 'pos' / 'none' so
    that tests on it are decided statically (one run per case)."""

    def __init__(self, model: Model, cx: Ctx, concrete: Optional[ClassInfo] = None, assume: Optional[Dict[str, str]] = None):
        self.M, self.cx, self.C = model, cx, concrete
        self.assume = assume or {}
        self.self_attrs: Dict[str, Val] = {}
        self.depth = 0
        self.calls: List[str] = []
        self.forced: Optional[List[bool]] = None        # decisions for data-dependent tests (path exploration)
        self.met_tests: List[str] = []

    def dim(self, i: int, e: ast.AST, env: Dict[str, Val], fn: FuncInfo) -> T.Term:
        """Symbolic size of axis i (0 rows, 1 columns) of the matrix expression e."""
        v = self.ev(e, env, fn)
        if v.kind != 'mat':
            raise Unknown('shape of a %s' % v.kind)
        s = v.v.single()
        if s is None or not s[0]:
            raise Unknown('dimension of a sum / identity expression %s' % norm(e)[:40])
        f = s[0][0] if i == 0 else s[0][-1]
        if f[0] == 'dg':
            return T.Term.sym('dim1[%s]' % f[1])
        if f[0] != 'sym':
            raise Unknown('dimension of an inverse factor')
        name, adj = f[1], int(f[2]) & TR
        axis = i if not adj else 1 - i
        # factors of a decomposition inherit the dimensions of the decomposed matrix (Nr >= Nt, economy sizes)
        if '[' in name and name.endswith(']'):
            role, tag = name.split('[', 1)
            tag = tag[:-1]
            rows = {'U': 0, 'Q': 0}
            if role in rows and axis == 0:
                return T.Term.sym('dim0[%s]' % tag)
            if role in ('VH', 'P', 'R', 'D') and axis == 1:
                return T.Term.sym('dim1[%s]' % tag)
            if role in ('P', 'VH', 'D') and axis == 0:
                return T.Term.sym('dim1[%s]' % tag)
            raise Unknown('dimension %d of %s' % (axis, name))
        return T.Term.sym('dim%d[%s]' % (axis, name))

    # ---- statements ----------------------------------------------------------------------------------------
    def call_function(self, g: FuncInfo, args: List[Val], kwargs: Dict[str, Val], recv: Optional[Val] = None) -> Val:
        if self.depth > 6:
            raise Unknown('call nesting too deep at %s' % g.qualname)
        a = g.node.args
        params = [x.arg for x in a.posonlyargs + a.args]
        env: Dict[str, Val] = {}
        if g.kind in ('method', 'getter', 'setter'):
            env[params[0]] = Val('self')
            params = params[1:]
        elif g.kind == 'classmethod':
            env[params[0]] = Val('cls')
            params = params[1:]
        if len(args) > len(params):
            raise Unknown('arity of %s' % g.qualname)
        for p, v in zip(params, args):
            env[p] = v
        for k, v in kwargs.items():
            env[k] = v
        pos = a.posonlyargs + a.args
        defaults = dict(zip([x.arg for x in pos[len(pos) - len(a.defaults):]], a.defaults))
        for p in params:
            if p not in env:
                if p not in defaults:
                    raise Unknown('missing argument %s of %s' % (p, g.qualname))
                d = defaults[p]
                env[p] = Val('none') if isinstance(d, ast.Constant) and d.value is None else Val('scal', T.from_ast(d, T.Env(None, None)))
        self.depth += 1
        self.calls.append(g.qualname)
        try:
            try:
                self.block(g.node.body, env, g)
            except Returned as r:
                return r.val
        finally:
            self.depth -= 1
        return Val('none')

    def block(self, body: List[ast.stmt], env: Dict[str, Val], fn: FuncInfo) -> None:
        for s in body:
            if isinstance(s, ast.Expr):
                if isinstance(s.value, ast.Constant):
                    continue
                continue                                    # calls for effect (warnings) are not modelled
            if isinstance(s, (ast.Assign, ast.AnnAssign)):
                if s.value is None:
                    continue
                v = self.ev(s.value, env, fn)
                for t in (s.targets if isinstance(s, ast.Assign) else [s.target]):
                    self.assign(t, v, env, fn)
                continue
            if isinstance(s, ast.AugAssign) and isinstance(s.target, ast.Name) and s.target.id in env:
                # x op= v on a local: same value as x = x op v (the in-place aspect is the business of other rules)
                fake = ast.BinOp(left=ast.Name(id=s.target.id, ctx=ast.Load()), op=s.op, right=s.value)
                ast.copy_location(fake, s)
                ast.fix_missing_locations(fake)
                env[s.target.id] = self.ev(fake, env, fn)
                continue
            if isinstance(s, ast.Return):
                raise Returned(self.ev(s.value, env, fn) if s.value is not None else Val('none'))
            if isinstance(s, ast.If):
                tv = self.static_test(s.test, env, fn)
                if tv is None and not s.orelse and s.body and isinstance(s.body[-1], ast.Raise):
                    # an input validation guard: the identity is about inputs that pass it
                    if 'input validation guards are assumed to pass' not in self.cx.notes:
                        self.cx.notes.append('input validation guards are assumed to pass')
                    continue
                if tv is None and s.orelse and ((s.body and isinstance(s.body[-1], ast.Raise)) != (isinstance(s.orelse[-1], ast.Raise))):
                    # the same guard in two-branch form: one branch only rejects, the other carries on
                    if 'input validation guards are assumed to pass' not in self.cx.notes:
                        self.cx.notes.append('input validation guards are assumed to pass')
                    self.block(s.orelse if isinstance(s.body[-1], ast.Raise) else s.body, env, fn)
                    continue
                if tv is None and getattr(self, 'forced', None) is not None:
                    # path exploration: the caller decides the data-dependent tests in order (and records which ones were met)
                    self.met_tests.append(norm(s.test)[:60])
                    if len(self.met_tests) > len(self.forced):
                        raise NeedDecision(len(self.met_tests))
                    tv = self.forced[len(self.met_tests) - 1]
                if tv is None:
                    raise Unknown('data-dependent test `%s` in %s' % (norm(s.test)[:50], fn.qualname))
                self.block(s.body if tv else s.orelse, env, fn)
                continue
            if isinstance(s, ast.Raise):
                raise Unknown('path raises in %s' % fn.qualname)
            if isinstance(s, (ast.Assert, ast.Pass)):
                continue
            raise Unknown('statement %s in %s' % (type(s).__name__, fn.qualname))

    def assign(self, t: ast.AST, v: Val, env: Dict[str, Val], fn: FuncInfo) -> None:
        if isinstance(t, ast.Name):
            env[t.id] = v
            return
        if isinstance(t, (ast.Tuple, ast.List)):
            if v.kind != 'tuple' or len(v.v) != len(t.elts):
                raise Unknown('unpacking into %s' % norm(t))
            for x, xv in zip(t.elts, v.v):
                self.assign(x, xv, env, fn)
            return
        if isinstance(t, ast.Attribute) and isinstance(t.value, ast.Name) and env.get(t.value.id) is not None \
                and env[t.value.id].kind == 'self':
            self.self_attrs[t.attr] = v
            return
        raise Unknown('store to %s' % norm(t))

    def static_test(self, t: ast.AST, env: Dict[str, Val], fn: FuncInfo) -> Optional[bool]:
        if isinstance(t, ast.UnaryOp) and isinstance(t.op, ast.Not):
            v = self.static_test(t.operand, env, fn)
            return None if v is None else not v
        if isinstance(t, ast.BoolOp):
            vals = [self.static_test(x, env, fn) for x in t.values]
            if isinstance(t.op, ast.And):
                if any(v is False for v in vals):
                    return False
                return True if all(v is True for v in vals) else None
            if any(v is True for v in vals):
                return True
            return False if all(v is False for v in vals) else None
        if isinstance(t, ast.Name) and t.id in env and env[t.id].kind == 'bool':
            return env[t.id].v
        if isinstance(t, ast.Compare) and len(t.ops) == 1:
            l, r, op = t.left, t.comparators[0], t.ops[0]
            # a matrix-valued operand has two dimensions
            if isinstance(l, ast.Attribute) and l.attr == 'ndim' and isinstance(l.value, ast.Name) and env.get(l.value.id) is not None \
                    and env[l.value.id].kind == 'mat' and isinstance(r, ast.Constant) and isinstance(r.value, int):
                if isinstance(op, ast.Eq):
                    return r.value == 2
                if isinstance(op, ast.NotEq):
                    return r.value != 2
            state = self._state_of(l, env, fn)
            if isinstance(r, ast.Constant) and r.value is None and isinstance(op, (ast.Is, ast.IsNot)) and state is not None:
                isnone = state == 'none'
                return isnone if isinstance(op, ast.Is) else not isnone
            if isinstance(r, ast.Constant) and isinstance(r.value, (int, float)) and r.value == 0 and state in ('zero', 'pos'):
                if isinstance(op, ast.Gt):
                    return state == 'pos'
                if isinstance(op, (ast.GtE,)):
                    return True
                if isinstance(op, ast.Eq):
                    return state == 'zero'
                if isinstance(op, ast.LtE):
                    return state == 'zero'
                if isinstance(op, ast.Lt):
                    return False
        return None

    def _state_of(self, e: ast.AST, env: Dict[str, Val], fn: FuncInfo) -> Optional[str]:
        """'none' / 'zero' / 'pos' for a scalar expression whose state is known."""
        if isinstance(e, ast.Name) and e.id in env:
            v = env[e.id]
            if v.kind == 'none':
                return 'none'
            if v.kind == 'scal':
                if v.extra in ('zero', 'pos'):
                    return v.extra
                if v.v.is_const():
                    return 'zero' if v.v.const_value() == 0 else ('pos' if v.v.const_value() > 0 else None)
                return 'notnone'
            if v.kind == 'mat':
                return 'notnone'
        if isinstance(e, ast.Attribute) and isinstance(e.value, ast.Name) and env.get(e.value.id) is not None \
                and env[e.value.id].kind == 'self':
            v = self.attr_value(e.attr, fn)
            if v is not None:
                if v.kind == 'none':
                    return 'none'
                if v.kind == 'scal' and v.extra in ('zero', 'pos'):
                    return v.extra
                return 'notnone'
        return None

    # ---- expressions ---------------------------------------------------------------------------------------
    def attr_value(self, attr: str, fn: FuncInfo) -> Optional[Val]:
        if attr in self.self_attrs:
            return self.self_attrs[attr]
        if attr in self.assume:
            st = self.assume[attr]
            if st == 'none':
                return Val('none')
            return Val('scal', T.Term.const(0) if st == 'zero' else T.Term.sym('self.' + attr), st)
        return None

    def ev(self, e: ast.AST, env: Dict[str, Val], fn: FuncInfo) -> Val:
        cx = self.cx
        if isinstance(e, ast.Constant):
            if e.value is None:
                return Val('none')
            if isinstance(e.value, (int, float)) and not isinstance(e.value, bool):
                return Val('scal', T.Term.const(Fraction(e.value)))
            raise Unknown('constant %r' % (e.value,))
        if isinstance(e, ast.Name):
            if e.id in env:
                return env[e.id]
            raise Unknown('name %s' % e.id)
        if isinstance(e, (ast.BoolOp, ast.Compare)) or (isinstance(e, ast.UnaryOp) and isinstance(e.op, ast.Not)):
            return Val('bool', self.static_test(e, env, fn))          # a named truth value; None = not known statically
        op, inner = _strip_ops(e)
        if op is not None:
            v = self.ev(inner, env, fn)
            if v.kind == 'scal':
                return v                                    # real scalars
            if v.kind != 'mat':
                raise Unknown('transpose/conjugate of a %s' % v.kind)
            return Val('mat', apply_op(v.v, op, cx))
        mm = matmul_operands(e)
        if mm is not None:
            a, b = self.ev(mm[0], env, fn), self.ev(mm[1], env, fn)
            if a.kind == 'mat' and b.kind == 'mat':
                return Val('mat', mul(a.v, b.v, cx))
            raise Unknown('matrix product of %s and %s' % (a.kind, b.kind))
        if isinstance(e, ast.UnaryOp) and isinstance(e.op, (ast.USub, ast.UAdd)):
            v = self.ev(e.operand, env, fn)
            if isinstance(e.op, ast.UAdd):
                return v
            if v.kind == 'mat':
                return Val('mat', neg(v.v))
            if v.kind == 'scal':
                return Val('scal', -v.v)
            raise Unknown('negation')
        if isinstance(e, ast.BinOp):
            l, r = self.ev(e.left, env, fn), self.ev(e.right, env, fn)
            # vectors of positive singular / eigen values: reciprocal and rational powers stay in the family
            if l.kind == 'scal' and r.kind == 'svals' and isinstance(e.op, ast.Div) and l.v == ONE:
                return Val('svals', (r.v[0], -r.v[1]), r.extra)
            if l.kind == 'svals' and r.kind == 'scal' and isinstance(e.op, ast.Pow) and r.v.is_const():
                return Val('svals', (l.v[0], l.v[1] * r.v.const_value()), l.extra)
            if isinstance(e.op, (ast.Add, ast.Sub)):
                if l.kind == 'mat' and r.kind == 'mat':
                    return Val('mat', add(l.v, r.v if isinstance(e.op, ast.Add) else neg(r.v)))
                if l.kind == 'scal' and r.kind == 'scal':
                    return Val('scal', l.v + r.v if isinstance(e.op, ast.Add) else l.v - r.v)
                raise Unknown('sum of %s and %s' % (l.kind, r.kind))
            if isinstance(e.op, ast.Mult):
                # broadcasting a vector of singular / eigen values against a matrix: along the LAST axis it scales the columns
                # (M @ diag(v)); with a new trailing axis (v[:, None]) it scales the rows (diag(v) @ M)
                for a_, b_ in ((l, r), (r, l)):
                    if a_.kind == 'mat' and b_.kind in ('svals', 'svcol'):
                        d_ = MT({(('dg', b_.v[0], b_.v[1]),): ONE})
                        return Val('mat', mul(a_.v, d_, cx) if b_.kind == 'svals' else mul(d_, a_.v, cx))
                if l.kind == 'scal' and r.kind == 'scal':
                    return Val('scal', l.v * r.v)
                if l.kind == 'scal' and r.kind == 'mat':
                    return Val('mat', scale(r.v, l.v))
                if l.kind == 'mat' and r.kind == 'scal':
                    return Val('mat', scale(l.v, r.v))
                raise Unknown('elementwise product of matrices')
            if isinstance(e.op, ast.Div):
                if r.kind != 'scal':
                    raise Unknown('division by a matrix')
                k = T.t_pow(r.v, T.Term.const(-1))
                if l.kind == 'scal':
                    return Val('scal', l.v * k)
                if l.kind == 'mat':
                    return Val('mat', scale(l.v, k))
            if isinstance(e.op, ast.Pow) and l.kind == 'scal' and r.kind == 'scal':
                return Val('scal', T.t_pow(l.v, r.v))
            raise Unknown('operator %s' % type(e.op).__name__)
        if isinstance(e, ast.Attribute):
            if isinstance(e.value, ast.Name) and env.get(e.value.id) is not None and env[e.value.id].kind == 'self':
                v = self.attr_value(e.attr, fn)
                if v is not None:
                    return v
                # property of the concrete class
                if self.C is not None:
                    p = self.M.lookup_property(self.C, e.attr)
                    if p is not None and p[0] is not None:
                        return self.call_function(p[0], [], {})
                raise Unknown('attribute self.%s' % e.attr)
            if e.attr == 'shape':
                b = self.ev(e.value, env, fn)
                if b.kind == 'mat':
                    return Val('tuple', [Val('scal', self.dim(0, e.value, env, fn)), Val('scal', self.dim(1, e.value, env, fn))])
            if e.attr == 'size':
                b = self.ev(e.value, env, fn)
                if b.kind == 'vecsym':
                    return Val('scal', T.Term.sym('size[%s]' % b.v))
            raise Unknown('attribute %s' % norm(e))
        if isinstance(e, ast.Subscript):
            # X.shape[i]
            if isinstance(e.value, ast.Attribute) and e.value.attr == 'shape' and isinstance(e.slice, ast.Constant) \
                    and e.slice.value in (0, 1):
                return Val('scal', self.dim(e.slice.value, e.value.value, env, fn))
            if isinstance(e.slice, ast.Constant) and isinstance(e.slice.value, int):
                b = self.ev(e.value, env, fn)
                if b.kind == 'tuple' and -len(b.v) <= e.slice.value < len(b.v):
                    return b.v[e.slice.value]
            # one ELEMENT of a matrix, picked with constant indices: an opaque scalar (it has no relation to the matrix as a whole
            # that the algebra could use, which is exactly what a formula built on it has to answer for)
            if isinstance(e.slice, ast.Tuple) and len(e.slice.elts) == 2 and all(isinstance(x, ast.Constant) and isinstance(x.value, int)
                                                                                  for x in e.slice.elts) and isinstance(e.value, ast.Name):
                b = self.ev(e.value, env, fn)
                if b.kind == 'mat':
                    return Val('scal', T.Term.sym('elem[%s,%d,%d]' % (norm(e.value), e.slice.elts[0].value, e.slice.elts[1].value)))
            # v[:, np.newaxis] of a vector of singular / eigen values: the column form
            if isinstance(e.slice, ast.Tuple) and len(e.slice.elts) == 2 and isinstance(e.slice.elts[0], ast.Slice) \
                    and e.slice.elts[0].lower is None and e.slice.elts[0].upper is None and e.slice.elts[0].step is None \
                    and ((isinstance(e.slice.elts[1], ast.Constant) and e.slice.elts[1].value is None) or norm(e.slice.elts[1]) in ('np.newaxis', 'numpy.newaxis')):
                b = self.ev(e.value, env, fn)
                if b.kind == 'svals':
                    return Val('svcol', b.v, b.extra)
            raise Unknown('subscript %s' % norm(e)[:40])
        if isinstance(e, (ast.Tuple, ast.List)):
            return Val('tuple', [self.ev(x, env, fn) for x in e.elts])
        if isinstance(e, ast.Call):
            return self.call(e, env, fn)
        raise Unknown('expression %s' % type(e).__name__)

    def call(self, c: ast.Call, env: Dict[str, Val], fn: FuncInfo) -> Val:
        cx = self.cx
        f = norm(c.func)
        short = f.split('.')[-1]
        kw = {k.arg: k.value for k in c.keywords if k.arg}
        if f in ('np.eye', 'np.identity', 'numpy.eye'):
            return Val('mat', MT.identity())
        if f in ('math.sqrt', 'np.sqrt') and len(c.args) == 1:
            v = self.ev(c.args[0], env, fn)
            if v.kind == 'svals':
                return Val('svals', (v.v[0], v.v[1] * Fraction(1, 2)), v.extra)
            if v.kind == 'scal':
                return Val('scal', T.t_pow(v.v, T.Term.const(Fraction(1, 2))))
            raise Unknown('sqrt of a matrix')
        if f in ('np.abs', 'abs', 'np.absolute', 'np.real', 'np.conj', 'np.conjugate') and len(c.args) == 1:
            v = self.ev(c.args[0], env, fn)
            if v.kind == 'scal':
                # a function of an opaque scalar is another opaque scalar
                return Val('scal', T.Term.atom(('call', short, (v.v.key(),))))
            if v.kind != 'mat' or f not in ('np.conj', 'np.conjugate'):
                raise Unknown('call %s of a %s' % (f, v.kind))
        if f in ('cast',) or f.endswith('.cast'):
            return self.ev(c.args[-1], env, fn)
        if f in ('float', 'int') and len(c.args) == 1:
            return self.ev(c.args[0], env, fn)
        if f in ('np.linalg.inv', 'np.linalg.pinv', 'inv', 'pinv') and len(c.args) == 1:
            v = self.ev(c.args[0], env, fn)
            if v.kind != 'mat':
                raise Unknown('inverse of a non-matrix')
            return Val('mat', inverse(v.v, cx, 'pinv' if short == 'pinv' else 'inv'))
        if f in ('np.linalg.solve', 'solve') and len(c.args) == 2:
            a, b = self.ev(c.args[0], env, fn), self.ev(c.args[1], env, fn)
            if a.kind == 'mat' and b.kind == 'mat':
                return Val('mat', mul(inverse(a.v, cx), b.v, cx))
            raise Unknown('solve on non-matrices')
        if f in ('np.linalg.svd', 'svd') and c.args:
            a = self.ev(c.args[0], env, fn)
            if a.kind != 'mat':
                raise Unknown('svd of a non-matrix')
            return self.svd_of(a.v, economy='full_matrices' in kw and isinstance(kw['full_matrices'], ast.Constant)
                               and kw['full_matrices'].value is False)
        if f in ('np.diag',) and len(c.args) == 1:
            v = self.ev(c.args[0], env, fn)
            if v.kind == 'svals':
                return Val('mat', MT({(('dg', v.v[0], v.v[1]),): ONE}))
            raise Unknown('diag of %s' % v.kind)
        if f in ('np.linalg.qr', 'qr') and len(c.args) == 1:
            a = self.ev(c.args[0], env, fn)
            if a.kind != 'mat':
                raise Unknown('qr of a non-matrix')
            return self.qr_of(a.v)
        if f in ('np.linalg.eig', 'np.linalg.eigh') and len(c.args) == 1:
            a = self.ev(c.args[0], env, fn)
            if a.kind != 'mat':
                raise Unknown('eig of a non-matrix')
            return self.eig_of(a.v, short)
        if f in ('np.linalg.norm', 'norm') and c.args:
            a = self.ev(c.args[0], env, fn)
            kind = c.args[1].value if len(c.args) > 1 and isinstance(c.args[1], ast.Constant) else None
            if a.kind != 'mat' or kind != 'fro':
                raise Unknown('norm other than the Frobenius norm of a matrix')
            return Val('scal', fro_norm(a.v, cx))
        if short == 'gmd' and len(c.args) == 3:
            vals = [self.ev(x, env, fn) for x in c.args]
            return self.gmd_of(vals)
        if short in ('reshape', 'ravel', 'flatten') and isinstance(c.func, ast.Attribute):
            # method and function forms: x.reshape(shape, order=), np.reshape(x, shape, order), x.ravel(order) / x.flatten(order), np.ravel(x, order)
            np_form = isinstance(c.func.value, ast.Name) and c.func.value.id in ('np', 'numpy')
            cargs = list(c.args)
            if np_form:
                if not cargs:
                    raise Unknown('reshape without an array')
                base = self.ev(cargs[0], env, fn)
                cargs = cargs[1:]
            else:
                base = self.ev(c.func.value, env, fn)
            order = 'C'
            okw = kw.get('order')
            if short == 'reshape' and np_form and len(cargs) == 2:
                okw, cargs = cargs[1], cargs[:1]
            if short in ('ravel', 'flatten'):
                if cargs:
                    okw = cargs[0]
                cargs = [ast.UnaryOp(op=ast.USub(), operand=ast.Constant(value=1))]
            if okw is not None:
                if not (isinstance(okw, ast.Constant) and okw.value in ('C', 'F')):
                    raise Unknown('reshape order')
                order = okw.value
            shape = cargs[0].elts if len(cargs) == 1 and isinstance(cargs[0], ast.Tuple) else cargs
            flat = len(shape) == 1
            if flat:
                # matrix -> vector
                if base.kind == 'mat':
                    return Val('vec', base.v, order)
                raise Unknown('flattening a %s' % base.kind)
            if base.kind == 'vecsym':
                return Val('mat', MT.sym('mat_%s[%s]' % (order, base.v)))
            raise Unknown('reshape of %s' % base.kind)
        # repo callees
        args = [self.ev(a, env, fn) for a in c.args]
        kwv = {k: self.ev(v, env, fn) for k, v in kw.items()}
        g = None
        if isinstance(c.func, ast.Attribute) and isinstance(c.func.value, ast.Name) and env.get(c.func.value.id) is not None \
                and env[c.func.value.id].kind in ('self', 'cls') and self.C is not None:
            g = self.M.lookup_method(self.C, c.func.attr)
        elif isinstance(c.func, ast.Attribute) and isinstance(c.func.value, (ast.Name, ast.Attribute)):
            k = self.M.resolve_class_expr(fn.module, c.func.value)
            if k is not None:
                g = self.M.lookup_method(k, c.func.attr)
        if g is None and isinstance(c.func, (ast.Name, ast.Attribute)):
            g = self.M.resolve_function(fn.module, c.func)
        if g is None:
            raise Unknown('call %s' % f)
        return self.call_function(g, args, kwv)

    # ---- decompositions ------------------------------------------------------------------------------------
    def _source_symbol(self, a: MT) -> Optional[str]:
        s = a.single()
        if s is not None and len(s[0]) == 1 and s[0][0][0] == 'sym' and s[0][0][2] == 0 and s[1] == ONE:
            return s[0][0][1]
        return None

    def svd_of(self, a: MT, economy: bool) -> Val:
        cx = self.cx
        src = self._source_symbol(a)
        tag = src if src is not None else cx.new('M')
        U, VH = 'U[%s]' % tag, 'VH[%s]' % tag
        cx.ortho_cols.add(U)
        if not economy:
            cx.ortho_rows.add(U)            # full U is square unitary
        # Nr >= Nt (the property's side condition): V^H is square unitary in both modes
        cx.ortho_cols.add(VH)
        cx.ortho_rows.add(VH)
        dec = mul(mul(MT.sym(U), MT({(('dg', tag, Fraction(1)),): ONE}), cx), MT.sym(VH), cx)
        if src is not None:
            alts = cx.decomp.setdefault(src, [])
            if dec not in alts:
                alts.append(dec)
        elif a.terms:
            cx.notes.append('svd of a compound expression: factors are not tied back to it')
        return Val('tuple', [Val('mat', MT.sym(U), ('svdU', tag)), Val('svals', (tag, Fraction(1)), ('svdS', tag)),
                             Val('mat', MT.sym(VH), ('svdV', tag))])

    def qr_of(self, a: MT) -> Val:
        """Q, R = qr(X) with X = Q R, Q^H Q = I, R square invertible (X of full column rank)."""
        cx = self.cx
        src = self._source_symbol(a)
        if src is None:
            raise Unknown('qr of a compound expression')
        Q, R = 'Q[%s]' % src, 'R[%s]' % src
        cx.ortho_cols.add(Q)
        cx.invertible.add(R)
        dec = mul(MT.sym(Q), MT.sym(R), cx)
        alts = cx.decomp.setdefault(src, [])
        if dec not in alts:
            alts.append(dec)
        return Val('tuple', [Val('mat', MT.sym(Q)), Val('mat', MT.sym(R))])

    def eig_of(self, a: MT, which: str) -> Val:
        """L, V = eig(C) for a HERMITIAN positive definite C: C = V diag(L) V^H with unitary V (contract; noted)."""
        cx = self.cx
        src = self._source_symbol(a)
        if src is None:
            raise Unknown('eig of a compound expression')
        V = 'V[%s]' % src
        cx.ortho_cols.add(V)
        cx.ortho_rows.add(V)
        dec = mul(mul(MT.sym(V), MT({(('dg', src, Fraction(1)),): ONE}), cx), adjoint(MT.sym(V), cx), cx)
        alts = cx.decomp.setdefault(src, [])
        if dec not in alts:
            alts.append(dec)
        cx.notes.append('np.linalg.%s of a Hermitian positive definite matrix is taken to return orthonormal eigenvectors' % which)
        return Val('tuple', [Val('svals', (src, Fraction(1)), ('eigL', src)), Val('mat', MT.sym(V))])

    def gmd_of(self, vals: List[Val]) -> Val:
        """Q, R, P = gmd(U, S, V_H) with  U diag(S) V_H = Q R P^H,  Q^H Q = I,  P^H P = P P^H = I  (the GMD contract;
        whether util.misc.gmd honours it is a numeric question that is not decided here)."""
        cx = self.cx
        tags = {v.extra[1] for v in vals if isinstance(v.extra, tuple)}
        roles = [v.extra[0] if isinstance(v.extra, tuple) else None for v in vals]
        if len(tags) != 1 or roles != ['svdU', 'svdS', 'svdV']:
            raise Unknown('gmd is not given the (U, S, V_H) of one svd, in that order')
        tag = tags.pop()
        Q, R, P = 'Q[%s]' % tag, 'R[%s]' % tag, 'P[%s]' % tag
        cx.ortho_cols.add(Q)
        cx.ortho_cols.add(P)
        cx.ortho_rows.add(P)
        dec = mul(mul(MT.sym(Q), MT.sym(R), cx), adjoint(MT.sym(P), cx), cx)
        if tag in cx.decomp or True:
            alts = cx.decomp.setdefault(tag, [])
            if dec not in alts:
                alts.append(dec)
        cx.notes.append('GMD contract assumed: U diag(S) V^H = Q R P^H with orthonormal Q, unitary P')
        return Val('tuple', [Val('mat', MT.sym(Q)), Val('mat', MT.sym(R)), Val('mat', MT.sym(P))])


def fro_norm(a: MT, cx: Ctx) -> T.Term:
    """||a||_F as a scalar atom over a canonical representative: ||-X|| = ||X||, ||U X|| = ||X V^H|| = ||X|| for factors
    with orthonormal columns on the left / orthonormal rows... (unitary end factors common to every term are stripped)."""
    terms = list(a.terms)
    if not terms:
        return T.Term.const(0)
    while True:
        firsts = {f[0] for f, _ in terms if f}
        if len(firsts) == 1 and all(f for f, _ in terms):
            h = next(iter(firsts))
            if h[0] == 'sym' and ((h[2] == 0 and h[1] in cx.ortho_cols) or (h[2] == ADJ and h[1] in cx.ortho_rows)):
                terms = [(f[1:], c) for f, c in terms]
                continue
        lasts = {f[-1] for f, _ in terms if f}
        if len(lasts) == 1 and all(f for f, _ in terms):
            h = next(iter(lasts))
            if h[0] == 'sym' and ((h[2] == ADJ and h[1] in cx.ortho_cols) or (h[2] == 0 and h[1] in cx.ortho_rows)):
                terms = [(f[:-1], c) for f, c in terms]
                continue
        break
    m = MT({f: c for f, c in terms})
    # canonical sign: the first term (in the canonical order) has a coefficient whose leading constant is positive
    if m.terms:
        c0 = m.terms[0][1]
        lead = c0.terms[0][1] if c0.terms else Fraction(1)
        if lead < 0:
            m = neg(m)
    name = 'fro{%s}' % m.pretty()
    cx.norm_args[name] = m
    return T.Term.sym(name)


def _strip_ops(e: ast.AST) -> Tuple[Optional[int], ast.AST]:
    """(op, X) if e is X.T / X.transpose() / X.conj() / X.conjugate() / np.conj(X) / np.transpose(X) chains; op = xor of bits."""
    op = 0
    seen = False
    while True:
        if isinstance(e, ast.Attribute) and e.attr == 'T':
            op ^= TR
            e = e.value
            seen = True
            continue
        if isinstance(e, ast.Attribute) and e.attr == 'H':
            op ^= ADJ
            e = e.value
            seen = True
            continue
        if isinstance(e, ast.Call) and isinstance(e.func, ast.Attribute) and not e.args and not e.keywords \
                and e.func.attr in ('transpose', 'conj', 'conjugate'):
            op ^= TR if e.func.attr == 'transpose' else CJ
            e = e.func.value
            seen = True
            continue
        if isinstance(e, ast.Call) and norm(e.func) in ('np.conj', 'np.conjugate', 'np.transpose') and len(e.args) == 1 and not e.keywords:
            op ^= TR if norm(e.func) == 'np.transpose' else CJ
            e = e.args[0]
            seen = True
            continue
        break
    return (op if seen else None), e


def explore_paths(model: Model, fn: FuncInfo, args: List['Val'], cx: 'Ctx', limit: int = 8):
    """[(decisions, tests met, returned Val or Unknown)] for every path of fn obtained by deciding its data-dependent tests both ways."""
    out = []
    work = [[]]
    while work and len(out) < limit:
        dec = work.pop()
        it = MatInterp(model, cx, None)
        it.forced = list(dec)
        it.met_tests = []
        try:
            v = it.call_function(fn, list(args), {})
            out.append((dec, list(it.met_tests), v))
        except NeedDecision:
            work.append(dec + [True])
            work.append(dec + [False])
        except Unknown as e:
            out.append((dec, list(it.met_tests), e))
    return out
