"""E5 - path rules: structured forward abstract interpretation with raise-point tracking.

Equivalent to a forward dataflow over the statement CFG with exception edges (DESIGN.md E2/E5):
`return` states are collected as normal exits; while a `try` body is interpreted, the state in front of every
call that may raise class X is recorded and routed to the innermost enclosing handler that catches X (by the
exception hierarchy), else to the function's exceptional exits; loops iterate to the fixpoint of the domain.
"""
from __future__ import annotations

import ast
from typing import Any, Callable, Dict, List, Optional, Set, Tuple

from .model import FuncInfo, Model, norm

BUILTIN_EXC_PARENTS = {
    'BaseException': [],
    'Exception': ['BaseException'],
    'ValueError': ['Exception'], 'TypeError': ['Exception'], 'KeyError': ['LookupError'],
    'IndexError': ['LookupError'], 'LookupError': ['Exception'], 'RuntimeError': ['Exception'],
    'NotImplementedError': ['RuntimeError'], 'AssertionError': ['Exception'], 'AttributeError': ['Exception'],
    'OSError': ['Exception'], 'IOError': ['OSError'], 'EnvironmentError': ['OSError'],
    'FileNotFoundError': ['OSError'], 'PermissionError': ['OSError'], 'EOFError': ['Exception'],
    'UnicodeDecodeError': ['ValueError'], 'ZeroDivisionError': ['ArithmeticError'], 'ArithmeticError': ['Exception'],
    'KeyboardInterrupt': ['BaseException'], 'StopIteration': ['Exception'], 'ImportError': ['Exception'],
    'UnpicklingError': ['Exception'], 'JSONDecodeError': ['ValueError'],
}
ALIASES = {'IOError': 'OSError', 'EnvironmentError': 'OSError'}


class ExcHierarchy:
    def __init__(self, model: Optional[Model] = None):
        self.parents: Dict[str, List[str]] = {k: list(v) for k, v in BUILTIN_EXC_PARENTS.items()}
        if model is not None:
            for c in model.classes.values():
                bases = [b.split('.')[-1] for b in c.base_exprs]
                if any(b in self.parents or b.endswith('Error') or b.endswith('Exception') for b in bases):
                    self.parents[c.name] = bases
            # transitive: repo classes deriving from repo exception classes
            changed = True
            while changed:
                changed = False
                for c in model.classes.values():
                    if c.name not in self.parents and any(b.split('.')[-1] in self.parents for b in c.base_exprs):
                        self.parents[c.name] = [b.split('.')[-1] for b in c.base_exprs]
                        changed = True

    def ancestors(self, name: str) -> Set[str]:
        name = ALIASES.get(name, name)
        out = {name}
        todo = [name]
        while todo:
            x = todo.pop()
            for p in self.parents.get(x, ['Exception'] if x not in ('BaseException',) else []):
                p = ALIASES.get(p, p)
                if p not in out:
                    out.add(p)
                    todo.append(p)
        return out

    def catches(self, handler_type: Optional[ast.AST], raised: str) -> bool:
        if handler_type is None:
            return True
        names = [norm(e).split('.')[-1] for e in (handler_type.elts if isinstance(handler_type, ast.Tuple) else [handler_type])]
        anc = self.ancestors(raised)
        return any(ALIASES.get(n, n) in anc for n in names)


def calls_in_order(e: ast.AST) -> List[ast.Call]:
    """Calls of an expression in evaluation order (arguments before the call that consumes them)."""
    out: List[ast.Call] = []

    def rec(n: ast.AST) -> None:
        if isinstance(n, (ast.Lambda, ast.FunctionDef, ast.AsyncFunctionDef, ast.ClassDef)):
            return
        for c in ast.iter_child_nodes(n):
            rec(c)
        if isinstance(n, ast.Call):
            out.append(n)

    rec(e)
    return out


class PathInterp:
    """Subclass and override the hooks; states are immutable-by-convention dicts (copy before changing)."""

    def __init__(self, fn: FuncInfo, hierarchy: Optional[ExcHierarchy] = None):
        self.fn = fn
        self.h = hierarchy or ExcHierarchy()
        self.exits: List[Tuple[Any, ast.AST]] = []          # (state, return node)
        self.exc_exits: List[Tuple[Any, str, ast.AST]] = []  # (state, exception class, node)
        self._try: List[Dict[str, Any]] = []
        self.loop_break: List[List[Any]] = []
        self.loop_continue: List[List[Any]] = []
        self.max_iter = 12

    # ---- hooks -------------------------------------------------------------------------------
    def join(self, a: Any, b: Any) -> Any:
        raise NotImplementedError

    def on_call(self, c: ast.Call, st: Any) -> Any:
        return st

    def may_raise(self, c: ast.Call, st: Any) -> List[str]:
        return []

    def on_assign(self, s: ast.stmt, st: Any) -> Any:
        return st

    def on_test(self, test: ast.expr, st: Any) -> Tuple[Any, Any]:
        return st, st

    def on_loop_head(self, s: ast.stmt, st: Any, first: bool) -> None:
        pass

    def on_back_edge(self, s: ast.stmt, st: Any) -> None:
        pass

    def on_loop_exit(self, s: ast.stmt, st: Any) -> None:
        pass

    def on_return(self, s: ast.Return, st: Any) -> Any:
        return st

    def on_raise(self, s: ast.Raise, st: Any) -> None:
        pass

    def on_stmt(self, s: ast.stmt, st: Any) -> Any:
        return st

    # ---- driver ------------------------------------------------------------------------------
    def run(self, st0: Any) -> Any:
        out = self.block(self.fn.node.body, st0)
        if out is not None:
            self.exits.append((out, self.fn.node))
        return out

    def _j(self, a: Any, b: Any) -> Any:
        if a is None:
            return b
        if b is None:
            return a
        return self.join(a, b)

    def expr(self, e: Optional[ast.AST], st: Any) -> Any:
        if e is None or st is None:
            return st
        for c in calls_in_order(e):
            for exc in self.may_raise(c, st):
                self._route(exc, st, c)
            st = self.on_call(c, st)
            if st is None:
                return None
        return st

    def _route(self, exc: str, st: Any, node: ast.AST) -> None:
        for frame in reversed(self._try):
            if frame['in_body']:
                for h in frame['node'].handlers:
                    if self.h.catches(h.type, exc):
                        frame['entries'].setdefault(id(h), []).append(st)
                        return
                # not caught here; finally (if any) is transparent for our forward facts
        self.exc_exits.append((st, exc, node))

    def block(self, body: List[ast.stmt], st: Any) -> Any:
        for s in body:
            if st is None:
                return None
            st = self.stmt(s, st)
        return st

    def stmt(self, s: ast.stmt, st: Any) -> Any:
        st = self.on_stmt(s, st)
        if st is None:
            return None
        if isinstance(s, ast.Expr):
            return self.expr(s.value, st)
        if isinstance(s, (ast.Assign, ast.AnnAssign, ast.AugAssign)):
            v = getattr(s, 'value', None)
            st = self.expr(v, st)
            if st is None:
                return None
            for t in (s.targets if isinstance(s, ast.Assign) else [s.target]):
                st = self.expr(t, st)
            return self.on_assign(s, st)
        if isinstance(s, ast.Return):
            st = self.expr(s.value, st)
            if st is not None:
                st = self.on_return(s, st)
                self.exits.append((st, s))
            return None
        if isinstance(s, ast.Raise):
            st = self.expr(s.exc, st)
            if st is not None:
                self.on_raise(s, st)
                name = 'Exception'
                if s.exc is not None:
                    e = s.exc.func if isinstance(s.exc, ast.Call) else s.exc
                    name = norm(e).split('.')[-1]
                self._route(name, st, s)
            return None
        if isinstance(s, ast.Assert):
            st = self.expr(s.test, st)
            if st is not None:
                self._route('AssertionError', st, s)
                t, _ = self.on_test(s.test, st)
                return t
            return None
        if isinstance(s, ast.If):
            st = self.expr(s.test, st)
            if st is None:
                return None
            t, f = self.on_test(s.test, st)
            a = self.block(s.body, t) if t is not None else None
            b = self.block(s.orelse, f) if f is not None else None
            return self._j(a, b)
        if isinstance(s, ast.While):
            return self._loop(s, st)
        if isinstance(s, ast.For):
            st = self.expr(s.iter, st)
            return self._loop(s, st)
        if isinstance(s, ast.Try):
            return self._try_stmt(s, st)
        if isinstance(s, ast.With):
            for it in s.items:
                st = self.expr(it.context_expr, st)
                if st is None:
                    return None
            return self.block(s.body, st)
        if isinstance(s, ast.Break):
            if self.loop_break:
                self.loop_break[-1].append(st)
            return None
        if isinstance(s, ast.Continue):
            if self.loop_continue:
                self.loop_continue[-1].append(st)
            return None
        return st

    def _loop(self, s: ast.stmt, st: Any) -> Any:
        if st is None:
            return None
        head = st
        exit_state = None
        self.loop_break.append([])
        first = True
        for _ in range(self.max_iter):
            self.on_loop_head(s, head, first)
            first = False
            cur = head
            if isinstance(s, ast.While):
                cur = self.expr(s.test, cur)
                if cur is None:
                    break
                t, f = self.on_test(s.test, cur)
            elif isinstance(s, ast.For) and isinstance(s.iter, ast.Call) and norm(s.iter.func) in ('itertools.count', 'count', 'itertools.repeat',
                                                                                                     'itertools.cycle') \
                    and (norm(s.iter.func) != 'itertools.repeat' or len(s.iter.args) == 1):
                t, f = cur, None            # an endless iterator: the loop is left only through break / return / raise
            else:
                t, f = cur, cur
            exit_state = self._j(exit_state, f)
            self.loop_continue.append([])
            body = self.block(s.body, t) if t is not None else None
            for c in self.loop_continue.pop():
                body = self._j(body, c)
            if body is not None:
                self.on_back_edge(s, body)
            new = self._j(head, body)
            if new == head:
                break
            head = new
        brk = self.loop_break.pop()
        out = exit_state
        if out is not None:
            self.on_loop_exit(s, out)
        if getattr(s, 'orelse', None) and out is not None:
            out = self.block(s.orelse, out)
        for b in brk:
            out = self._j(out, b)
        return out

    def _try_stmt(self, s: ast.Try, st: Any) -> Any:
        frame = {'node': s, 'entries': {}, 'in_body': True}
        self._try.append(frame)
        a = self.block(s.body, st)
        frame['in_body'] = False
        res = self.block(s.orelse, a) if (a is not None and s.orelse) else a
        self._try.pop()
        for h in s.handlers:
            entry = None
            for e in frame['entries'].get(id(h), []):
                entry = self._j(entry, e)
            if entry is not None:
                res = self._j(res, self.block(h.body, entry))
        if s.finalbody:
            res = self.block(s.finalbody, res) if res is not None else None
        return res


# ---------------------------------------------------------------------------------------------
def normalize_compare(c: ast.Compare) -> Optional[Tuple[str, str, str]]:
    """(left, op, right) with op in {'<','<=','==','!='} after flipping > and >=."""
    if len(c.ops) != 1:
        return None
    l, r, op = norm(c.left), norm(c.comparators[0]), c.ops[0]
    if isinstance(op, ast.Lt):
        return l, '<', r
    if isinstance(op, ast.LtE):
        return l, '<=', r
    if isinstance(op, ast.Gt):
        return r, '<', l
    if isinstance(op, ast.GtE):
        return r, '<=', l
    if isinstance(op, ast.Eq):
        return l, '==', r
    if isinstance(op, ast.NotEq):
        return l, '!=', r
    return None


def conjuncts(test: ast.expr) -> List[ast.expr]:
    if isinstance(test, ast.BoolOp) and isinstance(test.op, ast.And):
        out: List[ast.expr] = []
        for v in test.values:
            out.extend(conjuncts(v))
        return out
    return [test]


def negate_compare(t: Tuple[str, str, str]) -> Tuple[str, str, str]:
    l, op, r = t
    return {'<': (r, '<=', l), '<=': (r, '<', l), '==': (l, '!=', r), '!=': (l, '==', r)}[op]


def implied_compares(test: ast.expr) -> List[Tuple[str, str, str]]:
    """Comparisons that hold whenever `test` is true (conjuncts, `not` pushed through one comparison)."""
    out = []
    for c in conjuncts(test):
        neg = False
        while isinstance(c, ast.UnaryOp) and isinstance(c.op, ast.Not):
            c, neg = c.operand, not neg
        if isinstance(c, ast.Compare):
            t = normalize_compare(c)
            if t is not None:
                out.append(negate_compare(t) if neg else t)
    return out


# ---------------------------------------------------------------------------------------------
class FlagInterp(PathInterp):
    """Disjunctive flag domain: a state is a frozenset of frozensets of flags (one per path class).

    test_rules : list of (predicate(test_expr) -> bool, flags_on_true, flags_on_false)
    stmt_rules : list of (predicate(stmt) -> bool, flags_added)
    call_rules : list of (predicate(call) -> bool, flags_added)
    raise_rules: exception classes a call may raise: list of (predicate(call) -> bool, [classes])
    """

    def __init__(self, fn: FuncInfo, hierarchy: Optional[ExcHierarchy] = None, test_rules=(), stmt_rules=(),
                 call_rules=(), raise_rules=(), kill_rules=(), decompose: bool = False, expand=None):
        """kill_rules: list of (predicate(stmt) -> bool, flags_removed) applied before stmt_rules.
        decompose: tests are split along not/and/or (short-circuit edges) and test_rules see the atoms.
        expand: optional f(expr) -> expr applied to every test first (e.g. astutil.expander: named sub-tests)."""
        super().__init__(fn, hierarchy)
        self.test_rules, self.stmt_rules, self.call_rules, self.raise_rules = test_rules, stmt_rules, call_rules, raise_rules
        self.kill_rules, self.decompose, self.expand = kill_rules, decompose, expand
        self.unrecognised_atoms: List[ast.AST] = []
        self.events: List[Tuple[str, ast.AST, Any]] = []
        self.raises: List[Tuple[ast.Raise, Any]] = []

    @staticmethod
    def start() -> Any:
        return frozenset([frozenset()])

    def join(self, a, b):
        return a | b

    @staticmethod
    def add(st, flags) -> Any:
        flags = frozenset(flags)
        return frozenset(el | flags for el in st)

    def on_test(self, test, st):
        if self.expand is not None:
            test = self.expand(test)
        if self.decompose:
            return self._edges(test, st)
        return self._atom(test, st)

    def _atom(self, test, st):
        t, f = st, st
        hit = False
        for pred, ft, ff in self.test_rules:
            if pred(test):
                hit = True
                t, f = self.add(t, ft), self.add(f, ff)
        if not hit:
            self.unrecognised_atoms.append(test)
        return t, f

    def _edges(self, test, st):
        if st is None:
            return None, None
        if isinstance(test, ast.UnaryOp) and isinstance(test.op, ast.Not):
            t, f = self._edges(test.operand, st)
            return f, t
        if isinstance(test, ast.BoolOp) and isinstance(test.op, ast.And):
            t, facc = st, None
            for v in test.values:
                if t is None:
                    break
                tv, fv = self._edges(v, t)
                facc = self._j(facc, fv)
                t = tv
            return t, facc
        if isinstance(test, ast.BoolOp) and isinstance(test.op, ast.Or):
            f, tacc = st, None
            for v in test.values:
                if f is None:
                    break
                tv, fv = self._edges(v, f)
                tacc = self._j(tacc, tv)
                f = fv
            return tacc, f
        if isinstance(test, ast.Constant) and isinstance(test.value, bool):
            return (st, None) if test.value else (None, st)
        return self._atom(test, st)

    def on_stmt(self, s, st):
        for pred, flags in self.kill_rules:
            if pred(s):
                fl = frozenset(flags)
                st = frozenset(el - fl for el in st)
        for pred, flags in self.stmt_rules:
            if pred(s):
                self.events.append(('stmt', s, st))
                st = self.add(st, flags)
        return st

    def on_call(self, c, st):
        for pred, flags in self.call_rules:
            if pred(c):
                self.events.append(('call', c, st))
                st = self.add(st, flags)
        return st

    def may_raise(self, c, st):
        out: List[str] = []
        for pred, classes in self.raise_rules:
            if pred(c):
                out.extend(classes)
        return out

    def on_raise(self, s, st):
        self.raises.append((s, st))


def guards_and_stores(fn: FuncInfo, param_names: Set[str], selfname: str = 'self'):
    """Top-down scan of a setter-like function: raising guards that read a parameter, and self stores.

    Returns (guards, stores): guards = [(lineno, test_src)], stores = [(lineno, attr, stmt_src)].
    A guard is `if T: ...raise` (the true branch always ends in raise) or `assert T`, with T reading a parameter.
    """
    from .model import is_self_attr, walk_no_nested
    guards: List[Tuple[int, str]] = []
    stores: List[Tuple[int, str, str]] = []

    def reads_param(e: ast.AST) -> bool:
        return any(isinstance(n, ast.Name) and n.id in param_names for n in ast.walk(e))

    def always_raises(body: List[ast.stmt]) -> bool:
        if not body:
            return False
        last = body[-1]
        if isinstance(last, ast.Raise):
            return True
        if isinstance(last, ast.If) and last.orelse:
            return always_raises(last.body) and always_raises(last.orelse)
        return False

    for n in walk_no_nested(fn.node):
        if isinstance(n, ast.If) and reads_param(n.test) and (always_raises(n.body) or always_raises(n.orelse)):
            guards.append((n.lineno, norm(n.test)))
        elif isinstance(n, ast.Assert) and reads_param(n.test):
            guards.append((n.lineno, norm(n.test)))
        elif isinstance(n, (ast.Assign, ast.AnnAssign, ast.AugAssign)):
            for t in (n.targets if isinstance(n, ast.Assign) else [n.target]):
                a = is_self_attr(t, selfname)
                if a is not None:
                    stores.append((n.lineno, a, norm(n)))
    return sorted(guards), sorted(stores)
