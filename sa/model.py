"""E1 - program model: modules, imports, classes, MRO, properties, call resolution.

Everything is resolved from the syntax trees of the overlay; nothing is imported.
"""
from __future__ import annotations

import ast
from typing import Dict, Iterable, Iterator, List, Optional, Tuple

from .overlay import AnalysisError, Overlay

MUTATORS = frozenset(
    'append extend update remove pop sort fill clear insert add discard popitem setdefault reverse '
    'resize itemset put'.split())
# NOTE: setflags(write=False) is deliberately absent: it changes writability, not content.


class FuncInfo:
    def __init__(self, node: ast.FunctionDef, module: 'Module', cls: Optional['ClassInfo'],
                 kind: str, parent: Optional['FuncInfo'] = None):
        self.node = node
        self.name = node.name
        self.module = module
        self.cls = cls
        self.kind = kind  # method | getter | setter | static | classmethod | function | nested
        self.parent = parent
        self.nested: Dict[str, FuncInfo] = {}
        for n in node.body:
            self._collect_nested(n)

    def _collect_nested(self, n: ast.AST) -> None:
        if isinstance(n, (ast.FunctionDef, ast.AsyncFunctionDef)):
            self.nested[n.name] = FuncInfo(n, self.module, self.cls, 'nested', self)
            return
        if isinstance(n, (ast.ClassDef, ast.Lambda)):
            return
        for c in ast.iter_child_nodes(n):
            if isinstance(c, ast.stmt):
                self._collect_nested(c)

    @property
    def qualname(self) -> str:
        base = self.name
        if self.kind == 'setter':
            base += '@setter'
        elif self.kind == 'getter':
            base += '@getter'
        if self.parent is not None:
            return self.parent.qualname + '.' + base
        if self.cls is not None:
            return self.cls.name + '.' + base
        return base

    @property
    def path(self) -> str:
        return self.module.path

    @property
    def lineno(self) -> int:
        return self.node.lineno

    @property
    def params(self) -> List[str]:
        a = self.node.args
        return [x.arg for x in a.posonlyargs + a.args + a.kwonlyargs]

    @property
    def self_name(self) -> Optional[str]:
        if self.kind in ('method', 'getter', 'setter') and self.params:
            return self.params[0]
        if self.kind == 'nested' and self.parent is not None:
            return self.parent.self_name
        return None

    def __repr__(self) -> str:
        return '<Func %s>' % self.qualname


class ClassInfo:
    def __init__(self, node: ast.ClassDef, module: 'Module'):
        self.node = node
        self.name = node.name
        self.module = module
        self.qualname = module.name + '.' + node.name
        self.base_exprs = [ast.unparse(b) for b in node.bases]
        self.bases: List[Optional[ClassInfo]] = []  # filled by Model
        self.methods: Dict[str, FuncInfo] = {}
        self.getters: Dict[str, FuncInfo] = {}
        self.setters: Dict[str, FuncInfo] = {}
        self.getter_alias: Dict[str, str] = {}      # vertices = property(_get_vertex_positions)
        self.setter_from: Dict[str, str] = {}       # name -> 'Base.prop' for @Base.prop.setter
        self.class_attrs: Dict[str, ast.expr] = {}
        for n in node.body:
            if isinstance(n, (ast.FunctionDef, ast.AsyncFunctionDef)):
                decs = [ast.unparse(d) for d in n.decorator_list]
                if 'property' in decs:
                    self.getters[n.name] = FuncInfo(n, module, self, 'getter')
                elif any(d.endswith('.setter') for d in decs):
                    self.setters[n.name] = FuncInfo(n, module, self, 'setter')
                    d = [d for d in decs if d.endswith('.setter')][0][:-len('.setter')]
                    if '.' in d:
                        self.setter_from[n.name] = d
                elif 'staticmethod' in decs:
                    self.methods[n.name] = FuncInfo(n, module, self, 'static')
                elif 'classmethod' in decs:
                    self.methods[n.name] = FuncInfo(n, module, self, 'classmethod')
                else:
                    self.methods[n.name] = FuncInfo(n, module, self, 'method')
            elif isinstance(n, ast.Assign) and len(n.targets) == 1 and isinstance(n.targets[0], ast.Name):
                v = n.value
                if isinstance(v, ast.Call) and ast.unparse(v.func) == 'property' and v.args \
                        and isinstance(v.args[0], ast.Name):
                    self.getter_alias[n.targets[0].id] = v.args[0].id
                else:
                    self.class_attrs[n.targets[0].id] = v
            elif isinstance(n, ast.AnnAssign) and isinstance(n.target, ast.Name) and n.value is not None:
                self.class_attrs[n.target.id] = n.value

    def defines_property(self, name: str) -> bool:
        return name in self.getters or name in self.setters or name in self.getter_alias

    def __repr__(self) -> str:
        return '<Class %s>' % self.name


class Module:
    def __init__(self, path: str, tree: ast.Module, src: str):
        self.path = path
        self.tree = tree
        self.src = src
        name = path[:-3].replace('/', '.')
        if name.endswith('.__init__'):
            name = name[:-len('.__init__')]
            self.package = name
        else:
            self.package = name.rsplit('.', 1)[0] if '.' in name else ''
        self.name = name
        self.imports: Dict[str, str] = {}
        self.functions: Dict[str, FuncInfo] = {}
        self.classes: Dict[str, ClassInfo] = {}
        self.assigns: Dict[str, ast.expr] = {}
        self.assign_counts: Dict[str, int] = {}
        for n in ast.walk(tree):
            if isinstance(n, ast.Import):
                for a in n.names:
                    self.imports[a.asname or a.name.split('.')[0]] = a.name if a.asname else a.name.split('.')[0]
            elif isinstance(n, ast.ImportFrom):
                base = n.module or ''
                if n.level:
                    pk = self.package.split('.') if self.package else []
                    pk = pk[:len(pk) - (n.level - 1)] if n.level > 1 else pk
                    base = '.'.join(pk + ([n.module] if n.module else []))
                for a in n.names:
                    self.imports[a.asname or a.name] = (base + '.' + a.name) if base else a.name
        for n in tree.body:
            if isinstance(n, (ast.FunctionDef, ast.AsyncFunctionDef)):
                self.functions[n.name] = FuncInfo(n, self, None, 'function')
            elif isinstance(n, ast.ClassDef):
                self.classes[n.name] = ClassInfo(n, self)
            elif isinstance(n, ast.Assign):
                for t in n.targets:
                    if isinstance(t, ast.Name):
                        self.assigns[t.id] = n.value
                        self.assign_counts[t.id] = self.assign_counts.get(t.id, 0) + 1
            elif isinstance(n, ast.AnnAssign) and isinstance(n.target, ast.Name) and n.value is not None:
                self.assigns[n.target.id] = n.value
                self.assign_counts[n.target.id] = self.assign_counts.get(n.target.id, 0) + 1
        # names rebound anywhere else at module level (loops, augmented assignments, `global`) are not constants
        for n in ast.walk(tree):
            if isinstance(n, ast.Global):
                for g in n.names:
                    self.assign_counts[g] = self.assign_counts.get(g, 0) + 2
        for n in tree.body:
            if isinstance(n, (ast.AugAssign, ast.For, ast.While, ast.If, ast.With, ast.Try)):
                for x in ast.walk(n):
                    if isinstance(x, ast.Name) and isinstance(x.ctx, ast.Store):
                        self.assign_counts[x.id] = self.assign_counts.get(x.id, 0) + 2

    def resolve(self, expr: ast.expr) -> Optional[str]:
        """Dotted qualified name of a Name / Attribute chain, through the import table."""
        parts: List[str] = []
        e = expr
        while isinstance(e, ast.Attribute):
            parts.append(e.attr)
            e = e.value
        if not isinstance(e, ast.Name):
            return None
        head = e.id
        if head in self.imports:
            q = self.imports[head]
        elif head in self.classes or head in self.functions or head in self.assigns:
            q = self.name + '.' + head
        else:
            q = head
        return '.'.join([q] + list(reversed(parts)))


class Model:
    def __init__(self, overlay: Overlay, prefix: str = 'pyphysim/', flatten: bool = True):
        self.overlay = overlay
        self.modules: Dict[str, Module] = {}
        self.by_path: Dict[str, Module] = {}
        for path in sorted(overlay.files):
            if not path.startswith(prefix):
                continue
            # a PRIVATE copy of the syntax tree: the model normalises its trees in place (splicing, call style, gathers ...), and several
            # models may be built over one overlay (self-test baseline, corpus evaluation)
            overlay.tree(path)          # raises AnalysisError for a file that does not parse
            m = Module(path, ast.parse(overlay.files[path], filename=path), overlay.files[path])
            self.modules[m.name] = m
            self.by_path[path] = m
        self.classes: Dict[str, ClassInfo] = {}
        self.class_by_qual: Dict[str, ClassInfo] = {}
        for m in self.modules.values():
            for c in m.classes.values():
                if c.name in self.classes:
                    # ambiguity of short names would make receiver resolution unsound
                    raise AnalysisError('duplicate class name %s (%s, %s)' %
                                        (c.name, c.qualname, self.classes[c.name].qualname))
                self.classes[c.name] = c
                self.class_by_qual[c.qualname] = c
        for c in self.classes.values():
            for b in c.node.bases:
                c.bases.append(self._resolve_class(c.module, b))
        self._mro: Dict[str, List[ClassInfo]] = {}
        self._subs: Optional[Dict[str, List[ClassInfo]]] = None
        # calls of helpers introduced after the reference tree are spliced into their callers (see inline.py)
        self.flat = None
        if prefix == 'pyphysim/' and flatten and not str(getattr(overlay, 'root', '<')).startswith('<'):
            from .inline import flatten_model
            self.flat = flatten_model(self)

    # ------------------------------------------------------------ resolution
    def _resolve_class(self, mod: Module, expr: ast.expr) -> Optional[ClassInfo]:
        q = mod.resolve(expr)
        if q is None:
            return None
        if q in self.class_by_qual:
            return self.class_by_qual[q]
        # `from . import singleuser` then singleuser.SuChannel / package re-exports
        tail = q.rsplit('.', 1)[-1]
        c = self.classes.get(tail)
        if c is not None and (q.endswith(c.qualname) or c.qualname.endswith(q) or
                              q.split('.')[0] == c.qualname.split('.')[0]):
            return c
        return None

    def resolve_class_expr(self, mod: Module, expr: ast.expr) -> Optional[ClassInfo]:
        return self._resolve_class(mod, expr)

    def resolve_function(self, mod: Module, expr: ast.expr, _depth: int = 0) -> Optional[FuncInfo]:
        """A module-level function of the package referenced by Name/Attribute."""
        q = mod.resolve(expr)
        if q is None:
            return None
        if '.' in q:
            mname, fname = q.rsplit('.', 1)
            m = self.modules.get(mname)
            if m is not None and fname in m.functions:
                return m.functions[fname]
            # module-level alias of a (static) method or function: `calcP = Projection.calcP`
            if m is not None and fname in m.assigns and m.assign_counts.get(fname, 0) == 1 and _depth < 3:
                v = m.assigns[fname]
                if isinstance(v, ast.Attribute) and isinstance(v.value, (ast.Name, ast.Attribute)):
                    k = self._resolve_class(m, v.value)
                    if k is not None:
                        return self.lookup_method(k, v.attr)
                if isinstance(v, (ast.Name, ast.Attribute)):
                    return self.resolve_function(m, v, _depth + 1)
            # re-exported through a package __init__
            if m is not None and fname in m.imports:
                q2 = m.imports[fname]
                mname2, fname2 = q2.rsplit('.', 1)
                m2 = self.modules.get(mname2)
                if m2 is not None and fname2 in m2.functions:
                    return m2.functions[fname2]
        return None

    def resolve_call(self, fn: FuncInfo, call: ast.Call) -> Optional[FuncInfo]:
        """Static callee of a call inside fn: self.m / cls.m / super().m / ClassName.m / module function.

        For self/cls receivers the method found on fn's own class is returned only if no subclass overrides it
        (otherwise dispatch is not decided statically and None is returned).
        """
        f = call.func
        if isinstance(f, ast.Attribute) and fn.cls is not None:
            recv = f.value
            sname = fn.self_name
            if isinstance(recv, ast.Name) and ((sname and recv.id == sname) or recv.id in ('cls', '__class__')):
                m = self.lookup_method(fn.cls, f.attr)
                if m is None:
                    return None
                for sub in self.subclasses(fn.cls):
                    if f.attr in sub.methods:
                        return None
                return m
            if isinstance(recv, ast.Call) and isinstance(recv.func, ast.Name) and recv.func.id == 'type' and \
                    len(recv.args) == 1 and isinstance(recv.args[0], ast.Name) and recv.args[0].id == sname:
                m = self.lookup_method(fn.cls, f.attr)
                if m is None or any(f.attr in sub.methods for sub in self.subclasses(fn.cls)):
                    return None
                return m
        if isinstance(f, ast.Attribute):
            c = self._resolve_class(fn.module, f.value) if isinstance(f.value, (ast.Name, ast.Attribute)) else None
            if c is not None:
                return self.lookup_method(c, f.attr)
        if isinstance(f, (ast.Name, ast.Attribute)):
            return self.resolve_function(fn.module, f)
        return None

    def module_constant(self, mod: Module, name: str) -> Optional[ast.expr]:
        """Value expression of a module-level name bound exactly once (a constant), possibly imported."""
        if name in mod.assigns and mod.assign_counts.get(name, 0) == 1:
            return mod.assigns[name]
        if name in mod.imports:
            q = mod.imports[name]
            if '.' in q:
                mname, n2 = q.rsplit('.', 1)
                m2 = self.modules.get(mname)
                if m2 is not None and n2 in m2.assigns and m2.assign_counts.get(n2, 0) == 1:
                    return m2.assigns[n2]
        return None

    def cls(self, name: str) -> ClassInfo:
        c = self.classes.get(name) or self.class_by_qual.get(name)
        if c is None:
            raise AnalysisError('anchor class missing: %s' % name)
        return c

    def module(self, path_or_name: str) -> Module:
        m = self.by_path.get(path_or_name) or self.modules.get(path_or_name)
        if m is None:
            raise AnalysisError('anchor module missing: %s' % path_or_name)
        return m

    def func(self, path: str, qualname: str) -> FuncInfo:
        """`Class.meth`, `Class.prop@getter|@setter`, `func`, or nested `Class.meth.inner`."""
        m = self.module(path)
        parts = qualname.split('.')
        fi: Optional[FuncInfo] = None
        if parts[0].split('@')[0] in m.classes and len(parts) > 1:
            c = m.classes[parts[0]]
            nm, _, kind = parts[1].partition('@')
            if kind == 'getter':
                fi = c.getters.get(nm)
            elif kind == 'setter':
                fi = c.setters.get(nm)
            else:
                fi = c.methods.get(nm) or c.getters.get(nm)
            rest = parts[2:]
        else:
            fi = m.functions.get(parts[0])
            rest = parts[1:]
        for r in rest:
            if fi is None:
                break
            fi = fi.nested.get(r)
        if fi is None:
            raise AnalysisError('anchor function missing: %s:%s' % (path, qualname))
        return fi

    # ------------------------------------------------------------ MRO
    def mro(self, c: ClassInfo) -> List[ClassInfo]:
        if c.name in self._mro:
            return self._mro[c.name]

        def merge(seqs: List[List[ClassInfo]]) -> List[ClassInfo]:
            res: List[ClassInfo] = []
            seqs = [list(s) for s in seqs if s]
            while seqs:
                for s in seqs:
                    h = s[0]
                    if not any(h in t[1:] for t in seqs):
                        break
                else:
                    raise AnalysisError('inconsistent MRO for %s' % c.name)
                res.append(h)
                seqs = [[x for x in s if x is not h] for s in seqs]
                seqs = [s for s in seqs if s]
            return res

        bs = [b for b in c.bases if b is not None]
        out = [c] + merge([self.mro(b) for b in bs] + [bs])
        self._mro[c.name] = out
        return out

    def subclasses(self, c: ClassInfo) -> List[ClassInfo]:
        return [k for k in self.classes.values() if k is not c and c in self.mro(k)]

    def is_subclass(self, c: ClassInfo, base: ClassInfo) -> bool:
        return base in self.mro(c)

    # ------------------------------------------------------------ lookup
    def lookup_method(self, c: ClassInfo, name: str, after: Optional[ClassInfo] = None) -> Optional[FuncInfo]:
        m = self.mro(c)
        if after is not None:
            if after not in m:
                return None
            m = m[m.index(after) + 1:]
        for k in m:
            if name in k.methods:
                return k.methods[name]
            if k.defines_property(name):
                return None
        return None

    def lookup_property(self, c: ClassInfo, name: str, after: Optional[ClassInfo] = None
                        ) -> Optional[Tuple[Optional[FuncInfo], Optional[FuncInfo], ClassInfo]]:
        """(getter, setter, owner) of property `name` as seen on an instance of c, or None."""
        m = self.mro(c)
        if after is not None:
            if after not in m:
                return None
            m = m[m.index(after) + 1:]
        for k in m:
            if name in k.methods or (name in k.class_attrs and not k.defines_property(name)):
                return None
            if k.defines_property(name):
                getter = k.getters.get(name)
                setter = k.setters.get(name)
                if getter is None and name in k.getter_alias:
                    getter = k.methods.get(k.getter_alias[name])
                if getter is None and name in k.setter_from:
                    bexpr = k.setter_from[name]
                    bname, _, pname = bexpr.rpartition('.')
                    bc = self.classes.get(bname.split('.')[-1])
                    if bc is not None:
                        r = self.lookup_property(bc, pname)
                        if r is not None:
                            getter = r[0]
                return getter, setter, k
        return None

    def all_functions(self) -> Iterator[FuncInfo]:
        def rec(f: FuncInfo) -> Iterator[FuncInfo]:
            yield f
            for n in f.nested.values():
                yield from rec(n)
        for m in self.modules.values():
            for f in m.functions.values():
                yield from rec(f)
            for c in m.classes.values():
                for d in (c.methods, c.getters, c.setters):
                    for f in d.values():
                        yield from rec(f)


# ---------------------------------------------------------------------------
# small AST helpers shared by the engines
# ---------------------------------------------------------------------------

def is_self_attr(e: ast.AST, selfname: str = 'self') -> Optional[str]:
    if isinstance(e, ast.Attribute) and isinstance(e.value, ast.Name) and e.value.id == selfname:
        return e.attr
    return None


def root_name(e: ast.AST) -> Optional[str]:
    """Root Name of an attribute/subscript/call chain: a.b[c].d() -> a."""
    while True:
        if isinstance(e, (ast.Attribute, ast.Subscript, ast.Starred)):
            e = e.value
        elif isinstance(e, ast.Call):
            e = e.func
        else:
            break
    return e.id if isinstance(e, ast.Name) else None


def call_name(c: ast.Call) -> str:
    f = c.func
    if isinstance(f, ast.Attribute):
        return f.attr
    if isinstance(f, ast.Name):
        return f.id
    return ''


def eval_order(e: ast.AST) -> List[ast.AST]:
    """Sub-expressions in evaluation order (post-order; lambdas/comprehension bodies included)."""
    out: List[ast.AST] = []

    def rec(n: ast.AST) -> None:
        if isinstance(n, (ast.Lambda, ast.FunctionDef, ast.AsyncFunctionDef, ast.ClassDef)):
            return
        for c in ast.iter_child_nodes(n):
            rec(c)
        out.append(n)

    rec(e)
    return out


def walk_no_nested(node: ast.AST) -> Iterator[ast.AST]:
    """ast.walk that does not descend into nested function/class definitions."""
    todo = list(ast.iter_child_nodes(node))
    while todo:
        n = todo.pop()
        yield n
        if isinstance(n, (ast.FunctionDef, ast.AsyncFunctionDef, ast.ClassDef, ast.Lambda)):
            continue
        todo.extend(ast.iter_child_nodes(n))


def norm(e: ast.AST) -> str:
    return ast.unparse(e)
