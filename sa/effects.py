"""E6 - parameter effect analysis: an operand parameter is neither mutated nor alias-captured."""
from __future__ import annotations

import ast
from typing import Dict, List, Optional, Set, Tuple

from .model import MUTATORS, FuncInfo, Model, is_self_attr, norm, root_name, walk_no_nested

COPY_FUNCS = {'copy', 'deepcopy', 'list', 'dict', 'set', 'tuple', 'sorted', 'array', 'asarray_copy', 'frozenset',
              'int', 'float', 'str', 'bool', 'len', 'sum', 'min', 'max', 'abs', 'union1d', 'concatenate', 'hstack',
              'vstack'}


# ndarray methods that return a VIEW sharing the data of their receiver (a new array object, same memory)
VIEW_METHODS = {'view', 'reshape', 'ravel', 'transpose', 'squeeze', 'swapaxes', 'diagonal'}


class Effect:
    def __init__(self, kind: str, fn: FuncInfo, node: ast.AST, what: str, chain: Tuple[str, ...] = ()):
        self.kind, self.fn, self.node, self.what, self.chain = kind, fn, node, what, chain

    @property
    def line(self) -> int:
        return getattr(self.node, 'lineno', self.fn.lineno)


def _methods_named(model: Model, name: str) -> List[FuncInfo]:
    out = []
    for c in model.classes.values():
        if name in c.methods:
            out.append(c.methods[name])
    return out


def _self_mutating(model: Model, fn: FuncInfo, seen: Optional[Set[int]] = None) -> bool:
    """Does method fn (transitively through self calls) store to / mutate attributes of its receiver?"""
    seen = seen if seen is not None else set()
    if id(fn.node) in seen:
        return False
    seen.add(id(fn.node))
    sn = fn.self_name
    if sn is None:
        return False
    for n in walk_no_nested(fn.node):
        if isinstance(n, (ast.Attribute, ast.Subscript)) and isinstance(n.ctx, (ast.Store, ast.Del)) \
                and root_name(n) == sn:
            return True
        if isinstance(n, ast.Call) and isinstance(n.func, ast.Attribute):
            if n.func.attr in MUTATORS and root_name(n.func.value) == sn and not isinstance(n.func.value, ast.Name):
                return True
            if is_self_attr(n.func, sn) and fn.cls is not None:
                m = model.lookup_method(fn.cls, n.func.attr)
                if m is not None and _self_mutating(model, m, seen):
                    return True
    return False


def _returns_alias(model: Model, fn: FuncInfo) -> bool:
    """Does the method return one of its receiver's own containers (not a fresh object)?"""
    sn = fn.self_name
    if sn is None:
        return False
    for n in walk_no_nested(fn.node):
        if isinstance(n, ast.Return) and n.value is not None:
            v = n.value
            if isinstance(v, (ast.Attribute, ast.Subscript)) and root_name(v) == sn:
                return True
    return False


def analyse_operand(model: Model, fn: FuncInfo, operand: str, check_capture: bool = True,
                    depth: int = 0, chain: Tuple[str, ...] = ()) -> List[Effect]:
    """Effects of fn on its parameter `operand`: 'mutation' and (optionally) 'capture' events."""
    out: List[Effect] = []
    if depth > 3:
        return out
    chain = chain + (fn.qualname,)
    sn = fn.self_name
    # operand-rooted aliases (flow-insensitive closure)
    tainted: Set[str] = {operand}
    changed = True
    while changed:
        changed = False
        for n in walk_no_nested(fn.node):
            tgts: List[ast.AST] = []
            val: Optional[ast.AST] = None
            if isinstance(n, ast.Assign):
                tgts, val = n.targets, n.value
            elif isinstance(n, ast.AnnAssign) and n.value is not None:
                tgts, val = [n.target], n.value
            elif isinstance(n, ast.For):
                tgts, val = [n.target], n.iter
            elif isinstance(n, ast.comprehension):
                tgts, val = [n.target], n.iter
            if val is None:
                continue
            if _is_alias_expr(model, val, tainted):
                for t in tgts:
                    for nm in ast.walk(t):
                        if isinstance(nm, ast.Name) and isinstance(nm.ctx, ast.Store) and nm.id not in tainted:
                            tainted.add(nm.id)
                            changed = True

    def rooted(e: ast.AST) -> bool:
        r = root_name(e)
        return r is not None and r in tainted

    view_names: Set[str] = set()
    for n in walk_no_nested(fn.node):
        if isinstance(n, ast.Assign) and len(n.targets) == 1 and isinstance(n.targets[0], ast.Name) and isinstance(n.value, ast.Call) \
                and isinstance(n.value.func, ast.Attribute) and n.value.func.attr in VIEW_METHODS and rooted(n.value.func.value):
            view_names.add(n.targets[0].id)

    for n in walk_no_nested(fn.node):
        # ---- direct mutation through the operand
        if isinstance(n, (ast.Attribute, ast.Subscript)) and isinstance(n.ctx, (ast.Store, ast.Del)) and rooted(n):
            if isinstance(n, ast.Attribute) and isinstance(n.value, ast.Name) and n.value.id in view_names and n.attr in ('shape', 'strides'):
                continue        # re-shaping one's own view object does not touch the operand
            out.append(Effect('mutation', fn, n, 'store through operand: `%s`' % norm(n), chain))
        if isinstance(n, ast.AugAssign) and isinstance(n.target, ast.Name) and n.target.id in tainted \
                and n.target.id != operand:
            out.append(Effect('mutation', fn, n, 'augmented assignment to an alias of the operand: `%s`' % norm(n), chain))
        if isinstance(n, ast.Call) and isinstance(n.func, ast.Attribute):
            recv = n.func.value
            if rooted(recv):
                if n.func.attr in MUTATORS:
                    out.append(Effect('mutation', fn, n, 'in-place call on operand state: `%s`' % norm(n)[:80], chain))
                else:
                    for m in _methods_named(model, n.func.attr):
                        if _self_mutating(model, m):
                            out.append(Effect('mutation', fn, n, 'operand.%s(...) mutates its receiver (%s)'
                                              % (n.func.attr, m.qualname), chain))
                            break
        # ---- operand passed on to repo code
        if isinstance(n, ast.Call):
            callees: List[FuncInfo] = []
            f = n.func
            if isinstance(f, ast.Attribute) and not rooted(f.value):
                if sn is not None and is_self_attr(f, sn) and fn.cls is not None:
                    m = model.lookup_method(fn.cls, f.attr)
                    callees = [m] if m is not None else []
                else:
                    callees = _methods_named(model, f.attr)
            elif isinstance(f, ast.Name):
                g = model.resolve_function(fn.module, f)
                callees = [g] if g is not None else []
            for g in callees:
                params = [p for p in g.params if p != g.self_name]
                for i, a in enumerate(n.args):
                    if i < len(params) and _is_alias_expr(model, a, tainted):
                        recv_is_self = isinstance(f, ast.Attribute) and sn is not None and root_name(f.value) == sn
                        out.extend(analyse_operand(model, g, params[i],
                                                   check_capture and (recv_is_self or _self_rooted_recv(f, fn)),
                                                   depth + 1, chain))
        # ---- alias capture into receiver state
        if check_capture and sn is not None:
            tgts = []
            val = None
            if isinstance(n, ast.Assign):
                tgts, val = n.targets, n.value
            elif isinstance(n, ast.AnnAssign) and n.value is not None:
                tgts, val = [n.target], n.value
            if val is not None and any(isinstance(t, (ast.Attribute, ast.Subscript)) and root_name(t) == sn for t in tgts):
                for part in _captured_parts(val):
                    if _is_alias_expr(model, part, tainted) and not _scalar_valued(model, fn, part, operand):
                        out.append(Effect('capture', fn, n, 'operand state stored into the receiver without a copy: `%s`'
                                          % norm(n)[:90], chain))
                        break
            if isinstance(n, ast.Call) and isinstance(n.func, ast.Attribute) and n.func.attr in ('append', 'extend', 'insert', 'add', 'update', 'setdefault') \
                    and root_name(n.func.value) == sn and not isinstance(n.func.value, ast.Name):
                for a in n.args:
                    if isinstance(a, ast.Name) and a.id in tainted and n.func.attr in ('append', 'insert', 'add'):
                        out.append(Effect('capture', fn, n, 'operand object inserted into receiver state: `%s`'
                                          % norm(n)[:90], chain))
    return out


def scalar_attr(model: Model, cls, attr: str) -> bool:
    """attr is only ever initialised with constants in the constructors of cls (ints, floats, None, str)."""
    found = False
    for k in model.mro(cls):
        init = k.methods.get('__init__')
        if init is None:
            continue
        sn = init.self_name or 'self'
        for n in ast.walk(init.node):
            tgts, val = [], None
            if isinstance(n, ast.Assign):
                tgts, val = n.targets, n.value
            elif isinstance(n, ast.AnnAssign) and n.value is not None:
                tgts, val = [n.target], n.value
            for t in tgts:
                if is_self_attr(t, sn) == attr:
                    found = True
                    if not isinstance(val, ast.Constant) and not (
                            isinstance(val, ast.UnaryOp) and isinstance(val.operand, ast.Constant)):
                        return False
    return found


def _operand_class(model: Model, fn: FuncInfo, operand: str):
    a = fn.node.args
    for p in a.posonlyargs + a.args + a.kwonlyargs:
        if p.arg == operand and p.annotation is not None:
            nm = norm(p.annotation).strip('"\'')
            if nm in model.classes:
                return model.classes[nm]
    return fn.cls


def _scalar_valued(model: Model, fn: FuncInfo, e: ast.AST, operand: str) -> bool:
    if isinstance(e, ast.Attribute) and isinstance(e.value, ast.Name) and e.value.id == operand:
        c = _operand_class(model, fn, operand)
        if c is not None:
            return scalar_attr(model, c, e.attr)
    return False


def _self_rooted_recv(f: ast.AST, fn: FuncInfo) -> bool:
    return isinstance(f, ast.Attribute) and fn.self_name is not None and root_name(f.value) == fn.self_name


def _captured_parts(val: ast.AST) -> List[ast.AST]:
    """Sub-expressions whose identity survives into the stored value: the value itself, list/tuple elements."""
    if isinstance(val, (ast.List, ast.Tuple, ast.Set)):
        out: List[ast.AST] = []
        for e in val.elts:
            out.extend(_captured_parts(e))
        return out
    if isinstance(val, ast.IfExp):
        return _captured_parts(val.body) + _captured_parts(val.orelse)
    if isinstance(val, (ast.ListComp, ast.SetComp, ast.GeneratorExp)):
        return _captured_parts(val.elt)
    if isinstance(val, ast.DictComp):
        return _captured_parts(val.value)
    return [val]


def _is_alias_expr(model: Model, e: ast.AST, tainted: Set[str]) -> bool:
    """e denotes (part of) the operand's own state: name / attribute / subscript chains, alias-returning calls."""
    if isinstance(e, ast.Name):
        return e.id in tainted
    if isinstance(e, (ast.Attribute, ast.Subscript, ast.Starred)):
        return _is_alias_expr(model, e.value, tainted)
    if isinstance(e, ast.Call):
        f = e.func
        fname = f.attr if isinstance(f, ast.Attribute) else (f.id if isinstance(f, ast.Name) else '')
        # copy.copy(obj) is SHALLOW: the new object shares every container / array attribute of obj
        if fname == 'copy' and e.args and ((isinstance(f, ast.Attribute) and isinstance(f.value, ast.Name) and f.value.id == 'copy')
                                           or isinstance(f, ast.Name)):
            return _is_alias_expr(model, e.args[0], tainted)
        if fname in COPY_FUNCS:
            return False
        if isinstance(f, ast.Attribute) and _is_alias_expr(model, f.value, tainted):
            cands = _methods_named(model, f.attr)
            if cands:
                return any(_returns_alias(model, m) for m in cands)
            return f.attr in ('values', 'items', 'keys', '__iter__', 'get') or f.attr in VIEW_METHODS
        if fname in ('iter', 'enumerate', 'zip', 'reversed'):
            return any(_is_alias_expr(model, a, tainted) for a in e.args)
    return False
