"""E4 - derived-state freshness (DSF).

A syntax-directed abstract interpreter proving the inductive step of the class invariant
"no derived attribute is stale": for every public entry point of a concrete class, starting from
all-CLEAN (all-NONE for the constructor), no derived attribute is DIRTY at a normal exit.

Lattice per derived attribute:  NONE (definitely None)  <  CLEAN (None or consistent)  <  DIRTY.
See DESIGN.md section 2 / E4 for the transfer function and the refinements R1-R3.
"""
from __future__ import annotations

import ast
from typing import Any, Dict, FrozenSet, List, Optional, Set, Tuple

from .model import (MUTATORS, ClassInfo, FuncInfo, Model, call_name, eval_order, is_self_attr, norm,
                    walk_no_nested)
from .overlay import AnalysisError

NONE, CLEAN, DIRTY = 0, 1, 2
NAND = '\x00nand'      # pseudo-attribute of the state: pairs 'a|b' of derived attributes known NOT to be both non-None
LEVEL = {0: 'NONE', 1: 'CLEAN', 2: 'DIRTY'}

# state: attr -> (level, pins, cause)
#   pins: None = every dependency matters; frozenset = reads(E) of the explicit assignment made in the
#         current function (a source not read by E does not dirty the value)
#   cause: (path, line, text, function) of the store that dirtied the attribute
State = Dict[str, Tuple[int, Optional[FrozenSet[str]], Optional[Tuple[str, int, str, str]]]]


class Spec:
    def __init__(self, attr: str, kind: str, deps: Set[str], sites: List[str], reason: str):
        self.attr, self.kind, self.deps, self.sites, self.reason = attr, kind, set(deps), sites, reason


class Family:
    """Derived-attribute table of one class family (Appendix A.1 of DESIGN.md)."""

    def __init__(self, name: str, classes: List[str], specs: List[Spec],
                 suppress: Optional[Dict[Tuple[str, str], str]] = None,
                 holders: Optional[Dict[str, str]] = None,
                 undiscovered_ok: Optional[Dict[str, str]] = None):
        self.name = name
        self.classes = classes
        self.specs = {s.attr: s for s in specs}
        self.suppress = suppress or {}
        self.holders = holders or {}           # sub-object holder attr -> class name of the sub-object
        self.undiscovered_ok = undiscovered_ok or {}


ASSUMED: Set[str] = set()        # assumptions the interpreter relied on (flushed into the evidence by analyse_class)


def _join(a: Optional[State], b: Optional[State]) -> Optional[State]:
    if a is None:
        return b
    if b is None:
        return a
    out: State = {}
    for d in a:
        if d == NAND:
            # "not both non-None" facts hold after the join only if they hold on both sides
            fa, fb = a[d][1] or frozenset(), (b.get(d) or (NONE, frozenset(), None))[1] or frozenset()
            out[d] = (NONE, fa & fb, None)
            continue
        la, pa, ca = a[d]
        lb, pb, cb = b[d]
        lvl = max(la, lb)
        pins = None if (pa is None or pb is None) else (pa | pb)
        cause = ca if la >= lb else cb
        if lvl != DIRTY:
            cause = None
        out[d] = (lvl, pins, cause)
    return out


def _sig(st: State) -> Tuple:
    return tuple(sorted((d, v[0], tuple(sorted(v[1])) if v[1] is not None else None) for d, v in st.items()))


class DSF:
    def __init__(self, model: Model, concrete: ClassInfo, family: Family):
        self.M = model
        self.C = concrete
        self.fam = family
        self.derived = {a: set(s.deps) for a, s in family.specs.items()}
        self._reads_cache: Dict[Tuple[int, bool], Set[str]] = {}
        self.fn_stack: List[FuncInfo] = []
        self.locals: Dict[str, Any] = {}
        self._compute_lazy_deps()
        self.tdeps: Dict[str, Set[str]] = {}
        for d in self.derived:
            seen: Set[str] = set()
            todo = list(self.derived[d])
            while todo:
                x = todo.pop()
                if x in seen:
                    continue
                seen.add(x)
                todo.extend(self.derived.get(x, ()))
            seen.discard(d)
            self.tdeps[d] = seen
        # interpretation context
        self.stack: List[Tuple] = []
        self.getter_fill: List[Set[str]] = []      # memo attrs whose defining getter is active
        self.exits: List[State] = []
        self.try_acc: List[Optional[State]] = []
        self.n_stores = 0
        self.n_calls = 0
        self.touched: Set[str] = set()

    # ------------------------------------------------------------------ deps of lazy memos
    def memo_getter(self, attr: str) -> Optional[FuncInfo]:
        """The getter (as seen on the concrete class) that fills lazy memo `attr`."""
        for k in self.M.mro(self.C):
            for g in k.getters.values():
                if attr in lazy_memos_of(g):
                    r = self.M.lookup_property(self.C, g.name)
                    if r is not None and r[0] is g:
                        return g
        return None

    def _compute_lazy_deps(self) -> None:
        for a, spec in self.fam.specs.items():
            if spec.kind != 'lazy':
                continue
            g = self.memo_getter(a)
            if g is None:
                # the concrete class overrides the getter without the memo (e.g. ExtInt.H): the memo is unused
                continue
            computed = self.fn_reads(g) - {a}
            missing = spec.deps - computed - set(self.derived)
            if missing:
                raise AnalysisError('DSF table out of date: getter %s no longer reads declared source(s) %s of %s'
                                    % (g.qualname, sorted(missing), a))
            # sources the code reads beyond the declared ones are honoured too (new dependency)
            extra = {x for x in computed if x.startswith('_')} - spec.deps
            self.derived[a] |= extra

    # ------------------------------------------------------------------ read sets
    def expr_reads(self, node: ast.AST, depth: int = 0) -> Set[str]:
        out: Set[str] = set()
        owner = self.fn_stack[-1] if self.fn_stack else None
        selfname = owner.self_name if owner is not None else 'self'
        for n in ast.walk(node):
            a = is_self_attr(n, selfname or 'self')
            if a is None:
                if isinstance(n, ast.Name) and isinstance(n.ctx, ast.Load) and n.id in self.locals \
                        and isinstance(self.locals[n.id], (set, frozenset)):
                    out |= self.locals[n.id]
                continue
            p = self.M.lookup_property(self.C, a)
            if p is not None and p[0] is not None and depth < 8:
                out |= self.fn_reads(p[0], depth + 1)
                continue
            m = self.M.lookup_method(self.C, a)
            if m is not None and depth < 8:
                out |= self.fn_reads(m, depth + 1)
                continue
            out.add(a)
        return out

    def fn_reads(self, fn: FuncInfo, depth: int = 0) -> Set[str]:
        key = (id(fn.node), True)
        if key in self._reads_cache:
            return self._reads_cache[key]
        self._reads_cache[key] = set()
        saved = self.fn_stack
        self.fn_stack = saved + [fn]
        saved_locals = self.locals
        self.locals = {}
        r: Set[str] = set()
        for s in fn.node.body:
            r |= self.expr_reads(s, depth)
        self.locals = saved_locals
        self.fn_stack = saved
        self._reads_cache[key] = r
        return r

    # ------------------------------------------------------------------ state helpers
    def init_state(self, level: int) -> State:
        return {d: (level, None, None) for d in self.derived}

    def _cause(self, node: ast.AST) -> Tuple[str, int, str, str]:
        from .inline import real_line
        fn = self.fn_stack[-1]
        return (fn.path, real_line(getattr(node, 'lineno', fn.lineno)), norm(node)[:100], fn.qualname)

    def write_dep(self, st: State, attr: str, node: ast.AST) -> State:
        self.touched.add(attr)
        out = dict(st)
        fnq = self.fn_stack[-1].qualname if self.fn_stack else ''
        fnq_plain = fnq.replace('@setter', '').replace('@getter', '')
        for d in self.derived:
            if d == attr or attr not in self.tdeps[d]:
                continue
            if (fnq_plain, d) in self.fam.suppress:
                continue
            lvl, pins, cause = out[d]
            if lvl == CLEAN and (pins is None or attr in pins):
                out[d] = (DIRTY, None, self._cause(node))
        return out

    def in_fill(self, d: str) -> bool:
        return any(d in s for s in self.getter_fill)

    def assign_derived(self, st: State, d: str, value: Optional[ast.AST], node: ast.AST) -> State:
        self.touched.add(d)
        out = dict(st)
        if NAND in out and out[NAND][1]:
            out[NAND] = (NONE, frozenset(p for p in out[NAND][1] if d not in p.split('|')), None)
        if isinstance(value, ast.Constant) and value.value is None:
            out[d] = (NONE, None, None)            # R2: a reset does not dirty dependents
            return out
        reads = frozenset(self.expr_reads(value)) if value is not None else frozenset()
        out[d] = (CLEAN, reads, None)
        if self.in_fill(d):
            return out                              # R1: a fill is not a source write
        return self.write_dep(out, d, node)

    # ------------------------------------------------------------------ functions
    def run_fn(self, fn: FuncInfo, st: State) -> State:
        key = (id(fn.node), _sig(st), tuple(sorted(x for s in self.getter_fill for x in s)))
        if key in self.stack:
            return st
        self.stack.append(key)
        self.fn_stack.append(fn)
        self.n_calls += 1
        saved_exits, saved_locals = self.exits, self.locals
        self.exits, self.locals = [], {}
        fills = lazy_memos_of(fn) if fn.kind == 'getter' or fn.name.startswith('_get') else set()
        self.getter_fill.append(set(fills) & set(self.derived))
        try:
            out = self.block(fn.node.body, st)
            res = out
            for e in self.exits:
                res = _join(res, e)
        finally:
            self.getter_fill.pop()
            self.exits, self.locals = saved_exits, saved_locals
            self.fn_stack.pop()
            self.stack.pop()
        if res is None:
            return None  # type: ignore  # every path raises
        # pins protect only within the function that made the explicit assignment
        return {d: (v[0], None, v[2]) for d, v in res.items()}

    def call_fn(self, fn: FuncInfo, st: State) -> Optional[State]:
        r = self.run_fn(fn, st)
        return r

    def block(self, stmts: List[ast.stmt], st: Optional[State]) -> Optional[State]:
        for s in stmts:
            if st is None:
                return None
            st = self.stmt(s, st)
            if st is not None and self.try_acc:
                self.try_acc[-1] = _join(self.try_acc[-1], st)
        return st

    # ------------------------------------------------------------------ statements
    def stmt(self, s: ast.stmt, st: State) -> Optional[State]:
        if isinstance(s, ast.Expr):
            return self.expr(s.value, st)
        if isinstance(s, ast.Assign):
            self.note_local(s)
            st2 = self.expr(s.value, st)
            for t in s.targets:
                if st2 is None:
                    return None
                st2 = self.store(t, s.value, st2, s)
            return st2
        if isinstance(s, ast.AnnAssign):
            if s.value is None:
                return st
            st2 = self.expr(s.value, st)
            return self.store(s.target, s.value, st2, s) if st2 is not None else None
        if isinstance(s, ast.AugAssign):
            st2 = self.expr(s.value, st)
            if st2 is None:
                return None
            load = ast.copy_location(ast.parse(norm(s.target), mode='eval').body, s.target)
            st2 = self.expr(load, st2)
            return self.store(s.target, None, st2, s, aug=True) if st2 is not None else None
        if isinstance(s, ast.Return):
            st2 = self.expr(s.value, st) if s.value is not None else st
            if st2 is not None:
                self.exits.append(st2)
            return None
        if isinstance(s, ast.Raise):
            return None
        if isinstance(s, ast.Assert):
            return self.expr(s.test, st)
        if isinstance(s, ast.Delete):
            for t in s.targets:
                a = self._self_attr_root(t)
                if a is not None and st is not None:
                    st = self.write_dep(st, a[0], s)
            return st
        if isinstance(s, ast.If):
            st2 = self.expr(s.test, st)
            if st2 is None:
                return None
            t, f = self.refine(s.test, st2)
            a = self.block(s.body, t)
            b = self.block(s.orelse, f) if s.orelse else f
            return _join(a, b)
        if isinstance(s, (ast.For, ast.While)):
            cur: Optional[State] = st
            if isinstance(s, ast.For):
                cur = self.expr(s.iter, cur)
                if cur is None:
                    return None
                at_least_once = self.bind_loop_targets(s)
            else:
                at_least_once = False
            first_body = None
            for _ in range(8):
                head = cur
                if isinstance(s, ast.While):
                    head = self.expr(s.test, head)
                    if head is None:
                        break
                body = self.block(s.body, head)
                if at_least_once and first_body is None:
                    # a loop over a non-empty literal sequence of sub-objects runs its body at least once: the state
                    # after the loop is a state after the body, never the state before it
                    first_body = body
                    cur = body
                    if cur is None:
                        break
                    continue
                new = _join(cur, body)
                if new is not None and cur is not None and _sig(new) == _sig(cur):
                    cur = new
                    break
                cur = new
            if isinstance(s, ast.While) and cur is not None:
                cur = self.expr(s.test, cur)
            return self.block(s.orelse, cur) if s.orelse else cur
        if isinstance(s, ast.Try):
            self.try_acc.append(st)
            a = self.block(s.body, st)
            acc = self.try_acc.pop()
            res = self.block(s.orelse, a) if (a is not None and s.orelse) else a
            for h in s.handlers:
                res = _join(res, self.block(h.body, acc))
            if s.finalbody:
                res = self.block(s.finalbody, res if res is not None else acc)
            return res
        if isinstance(s, ast.With):
            cur = st
            for it in s.items:
                cur = self.expr(it.context_expr, cur)
                if cur is None:
                    return None
            return self.block(s.body, cur)
        # nested defs, pass, import, global, ... : no effect on the tracked state
        return st

    def _holder_seq(self, e: ast.AST, depth: int = 0) -> Optional[List[str]]:
        """[holder attrs] if e is a literal tuple/list of self attributes, or a property/local that returns one."""
        fn = self.fn_stack[-1]
        selfname = fn.self_name or 'self'
        if isinstance(e, (ast.Tuple, ast.List)) and e.elts:
            hs = [is_self_attr(x, selfname) for x in e.elts]
            return hs if all(h is not None for h in hs) else None       # type: ignore
        a = is_self_attr(e, selfname)
        if a is not None and depth < 3:
            p = self.M.lookup_property(self.C, a)
            g = p[0] if p is not None else None
            if g is not None:
                rets = [n for n in walk_no_nested(g.node) if isinstance(n, ast.Return) and n.value is not None]
                if len(rets) == 1 and isinstance(rets[0].value, (ast.Tuple, ast.List)) and rets[0].value.elts:
                    hs = [is_self_attr(x, g.self_name or 'self') for x in rets[0].value.elts]
                    return hs if all(h is not None for h in hs) else None   # type: ignore
        if isinstance(e, ast.Name) and isinstance(self.locals.get(e.id), tuple) and self.locals[e.id][0] == 'holders':
            return list(self.locals[e.id][1])
        return None

    def bind_loop_targets(self, s: ast.For) -> bool:
        """`for x in (self._a, self._b)` / `for x, v in zip(self._holders, values)`: x aliases every listed sub-object
        (an unconditional store `x.attr = v` in the body stores to the attribute of each of them); other targets carry
        the read set of the iterable they are drawn from."""
        pairs: List[Tuple[ast.AST, ast.AST]] = []
        it = s.iter
        if isinstance(it, ast.Call) and norm(it.func) == 'enumerate' and it.args and isinstance(s.target, ast.Tuple) and len(s.target.elts) == 2:
            pairs.append((s.target.elts[1], it.args[0]))
        elif isinstance(it, ast.Call) and norm(it.func) == 'zip' and isinstance(s.target, ast.Tuple) and len(s.target.elts) == len(it.args):
            pairs.extend(zip(s.target.elts, it.args))
        else:
            pairs.append((s.target, it))
        simple_body = not any(isinstance(n, (ast.Break, ast.Continue, ast.Return)) for b in s.body for n in ast.walk(b))
        once = False
        for tg, src in pairs:
            if not isinstance(tg, ast.Name):
                continue
            hs = self._holder_seq(src)
            if hs is not None and simple_body:
                self.locals[tg.id] = ('holders', tuple(hs), id(s))
                once = True
                if len(pairs) > 1:
                    ASSUMED.add('a zip over a literal sequence of sub-objects visits every one of them (the other iterables '
                                'are at least as long)')
            else:
                self.locals[tg.id] = frozenset(self.expr_reads(src))
        return once

    def note_local(self, s: ast.Assign) -> None:
        """Record local facts: dispatch dicts, must-aliases of self attributes, read sets of locals."""
        if len(s.targets) != 1 or not isinstance(s.targets[0], ast.Name):
            return
        n = s.targets[0].id
        v = s.value
        fn = self.fn_stack[-1]
        selfname = fn.self_name or 'self'
        if isinstance(v, ast.Dict) and v.values:
            cands = []
            for x in v.values:
                a = is_self_attr(x, selfname)
                if a is not None:
                    cands.append(('self', a))
                elif isinstance(x, ast.Name) and x.id in fn.nested:
                    cands.append(('nested', x.id))
                else:
                    cands = []
                    break
            if cands:
                self.locals[n] = ('dict', cands)
                return
        if isinstance(v, ast.Subscript) and isinstance(v.value, ast.Name) \
                and isinstance(self.locals.get(v.value.id), tuple) and self.locals[v.value.id][0] == 'dict':
            self.locals[n] = ('callable', self.locals[v.value.id][1])
            return
        if isinstance(v, ast.Call) and isinstance(v.func, ast.Attribute) and v.func.attr == 'get' \
                and isinstance(v.func.value, ast.Name) \
                and isinstance(self.locals.get(v.func.value.id), tuple) and self.locals[v.func.value.id][0] == 'dict':
            cands = list(self.locals[v.func.value.id][1])
            if len(v.args) > 1:
                x = v.args[1]
                a = is_self_attr(x, selfname)
                if a is not None:
                    cands.append(('self', a))
                elif isinstance(x, ast.Name) and x.id in fn.nested:
                    cands.append(('nested', x.id))
            self.locals[n] = ('callable', cands)
            return
        a = is_self_attr(v, selfname)
        if a is not None:
            self.locals[n] = ('alias', self._underlying(a))
            return
        self.locals[n] = frozenset(self.expr_reads(v))

    def refine(self, test: ast.expr, st: State) -> Tuple[State, State]:
        fn = self.fn_stack[-1]
        selfname = fn.self_name or 'self'

        def pat(t: ast.expr) -> Optional[Tuple[str, bool]]:
            if isinstance(t, ast.Compare) and len(t.ops) == 1 and isinstance(t.comparators[0], ast.Constant) \
                    and t.comparators[0].value is None and isinstance(t.ops[0], (ast.Is, ast.IsNot)):
                a = is_self_attr(t.left, selfname)
                if a is not None:
                    return a, isinstance(t.ops[0], ast.Is)
            return None

        neg = False
        while isinstance(test, ast.UnaryOp) and isinstance(test.op, ast.Not):
            test, neg = test.operand, not neg
        conj = test.values if isinstance(test, ast.BoolOp) and isinstance(test.op, ast.And) else [test]
        t, f = dict(st), dict(st)
        # `if a is not None and b is not None:` - on the FALSE edge the two are not both non-None
        pats = [pat(c) for c in conj]
        if len(conj) == 2 and all(p is not None and not p[1] and p[0] in self.derived for p in pats):
            pair = '|'.join(sorted((pats[0][0], pats[1][0])))
            f[NAND] = (NONE, (f.get(NAND, (NONE, frozenset(), None))[1] or frozenset()) | {pair}, None)
        # `if a is None:` false edge (a is not None) / `if a is not None:` true edge, with a recorded pair (a, b): b is None
        if len(conj) == 1 and pats[0] is not None and pats[0][0] in self.derived:
            a0, isnone0 = pats[0]
            edge = f if isnone0 else t
            for pr in (st.get(NAND, (NONE, frozenset(), None))[1] or frozenset()):
                x, y = pr.split('|')
                if a0 in (x, y):
                    edge[y if a0 == x else x] = (NONE, None, None)
        for c in conj:
            p = pat(c)
            if p is None or p[0] not in self.derived:
                continue
            a, isnone = p
            if isnone:
                t[a] = (NONE, None, None)          # holds for every conjunct on the true edge
            elif len(conj) == 1:
                f[a] = (NONE, None, None)          # `a is not None` failed: a is None
        if neg:
            t, f = f, t
        return t, f

    # ------------------------------------------------------------------ stores
    def _underlying(self, a: str) -> str:
        """Attribute behind a property that returns (possibly after filling) `self._x`."""
        p = self.M.lookup_property(self.C, a)
        if p is None or p[0] is None:
            return a
        g = p[0]
        rets = [n for n in walk_no_nested(g.node) if isinstance(n, ast.Return) and n.value is not None]
        names = {is_self_attr(r.value, g.self_name or 'self') for r in rets}
        if len(names) == 1 and None not in names:
            return names.pop()  # type: ignore
        return a

    def _self_attr_root(self, t: ast.AST) -> Optional[Tuple[str, bool, bool]]:
        """(attr, element?, via_property?) if t is self.X, self.X[...], alias[...]; else None."""
        fn = self.fn_stack[-1]
        selfname = fn.self_name or 'self'
        elem = False
        while isinstance(t, ast.Subscript):
            t = t.value
            elem = True
        a = is_self_attr(t, selfname)
        if a is not None:
            return a, elem, self.M.lookup_property(self.C, a) is not None
        if elem and isinstance(t, ast.Name):
            loc = self.locals.get(t.id)
            if isinstance(loc, tuple) and loc[0] == 'alias':
                return loc[1], True, False
        return None

    def store(self, t: ast.AST, value: Optional[ast.AST], st: State, node: ast.AST,
              aug: bool = False) -> Optional[State]:
        if isinstance(t, (ast.Tuple, ast.List)):
            cur: Optional[State] = st
            for e in t.elts:
                if cur is None:
                    return None
                cur = self.store(e, None, cur, node)
            return cur
        if isinstance(t, ast.Starred):
            return self.store(t.value, None, st, node)
        self.n_stores += 1
        fn = self.fn_stack[-1]
        selfname = fn.self_name or 'self'
        r = self._self_attr_root(t)
        if r is None:
            # loop variable aliasing the sub-objects of a literal sequence: x.attr = v stores to every holder's attr
            if isinstance(t, ast.Attribute) and isinstance(t.value, ast.Name):
                loc = self.locals.get(t.value.id)
                if isinstance(loc, tuple) and loc and loc[0] == 'holders':
                    cur2: Optional[State] = st
                    for h in loc[1]:
                        pa = h + '.' + t.attr
                        if cur2 is None:
                            break
                        if pa in self.derived:
                            cur2 = self.assign_derived(cur2, pa, value, node)
                        elif h in self.fam.holders:
                            cur2 = self._sub_store(h, t.attr, cur2, node)
                    return cur2
            # sub-object pseudo attribute: self._sec1.pos = ...
            if isinstance(t, ast.Attribute):
                h = is_self_attr(t.value, selfname)
                if h is not None:
                    pa = h + '.' + t.attr
                    if pa in self.derived:
                        return self.assign_derived(st, pa, value, node)
                    if h in self.fam.holders:
                        return self._sub_store(h, t.attr, st, node)
            return st
        a, elem, via_prop = r
        if via_prop:
            p = self.M.lookup_property(self.C, a)
            assert p is not None
            if not elem:
                if p[1] is None:
                    return st          # no setter: AttributeError at run time, not a state change
                return self.call_fn(p[1], st)
            a = self._underlying(a)
        if a in self.derived:
            if not elem:
                if isinstance(value, ast.Name) and isinstance(self.locals.get(value.id), (set, frozenset)):
                    out = dict(st)
                    self.touched.add(a)
                    out[a] = (CLEAN, frozenset(self.locals[value.id]), None)
                    return out if self.in_fill(a) else self.write_dep(out, a, node)
                return self.assign_derived(st, a, value, node)
            # element store into a derived container: consistent w.r.t. what the element expression reads
            out = dict(st)
            self.touched.add(a)
            lvl, pins, cause = out[a]
            reads = frozenset(self.expr_reads(value)) if value is not None else frozenset()
            if lvl == DIRTY:
                pass
            else:
                out[a] = (CLEAN, (pins | reads | {a}) if pins is not None else None, None) \
                    if lvl == CLEAN else (CLEAN, reads | {a}, None)
            return out if self.in_fill(a) else self.write_dep(out, a, node)
        # holder (re)assignment defines every sub-object pseudo attribute
        if not elem:
            subs = [d for d in self.derived if d.startswith(a + '.')]
            if subs:
                out = dict(st)
                for d in subs:
                    out[d] = (CLEAN, frozenset(), None)
                st = out
        return self.write_dep(st, a, node)

    def _sub_store(self, holder: str, attr: str, st: State, node: ast.AST) -> State:
        return st

    # ------------------------------------------------------------------ expressions
    def expr(self, e: Optional[ast.AST], st: Optional[State]) -> Optional[State]:
        if e is None or st is None:
            return st
        fn = self.fn_stack[-1]
        selfname = fn.self_name or 'self'
        for n in eval_order(e):
            if st is None:
                return None
            if isinstance(n, ast.Call):
                st = self.call(n, st)
            elif isinstance(n, ast.Attribute) and isinstance(n.ctx, ast.Load):
                a = is_self_attr(n, selfname)
                if a is not None:
                    p = self.M.lookup_property(self.C, a)
                    if p is not None and p[0] is not None:
                        st = self.call_fn(p[0], st)
        return st

    def call(self, c: ast.Call, st: State) -> Optional[State]:
        f = c.func
        fn = self.fn_stack[-1]
        selfname = fn.self_name or 'self'
        owner = fn.cls
        # self.m(...)
        if isinstance(f, ast.Attribute):
            a = is_self_attr(f, selfname)
            if a is not None:
                m = self.M.lookup_method(self.C, a)
                if m is not None:
                    return self.call_fn(m, st)
                return st
            # in-place mutation of a self attribute: self._x.append(...), alias.fill(...)
            if f.attr in MUTATORS:
                r = self._self_attr_root(ast.Subscript(value=f.value, slice=ast.Constant(0), ctx=ast.Load()))
                if r is not None:
                    attr = self._underlying(r[0]) if r[2] else r[0]
                    if attr in self.derived and self.in_fill(attr):
                        return st
                    return self.write_dep(st, attr, c)
            # super().m(...) / super(Cls, self).m(...)
            if isinstance(f.value, ast.Call) and isinstance(f.value.func, ast.Name) and f.value.func.id == 'super' \
                    and owner is not None:
                m = self.M.lookup_method(self.C, f.attr, after=owner)
                if m is not None:
                    return self.call_fn(m, st)
                return st
            # Base.m(self, ...)
            if isinstance(f.value, (ast.Name, ast.Attribute)) and c.args and isinstance(c.args[0], ast.Name) \
                    and c.args[0].id == selfname:
                base = self.M.resolve_class_expr(fn.module, f.value)
                if base is not None:
                    m = self.M.lookup_method(base, f.attr)
                    if m is not None:
                        return self.call_fn(m, st)
                    return st
            # Base.prop.fset(self, v) / Base.prop.fget(self)
            if f.attr in ('fset', 'fget') and isinstance(f.value, ast.Attribute):
                base = self.M.resolve_class_expr(fn.module, f.value.value)
                if base is not None:
                    p = self.M.lookup_property(base, f.value.attr)
                    if p is not None:
                        g = p[1] if f.attr == 'fset' else p[0]
                        if g is not None:
                            return self.call_fn(g, st)
                    return st
            return st
        if isinstance(f, ast.Name):
            loc = self.locals.get(f.id)
            if isinstance(loc, tuple) and loc[0] == 'callable':
                return self._dispatch(loc[1], st)
            if f.id in fn.nested:
                return self.call_fn(fn.nested[f.id], st)
            if fn.parent is not None and f.id in fn.parent.nested:
                return self.call_fn(fn.parent.nested[f.id], st)
            return st
        if isinstance(f, ast.Subscript) and isinstance(f.value, ast.Name):
            loc = self.locals.get(f.value.id)
            if isinstance(loc, tuple) and loc[0] == 'dict':
                return self._dispatch(loc[1], st)
        return st

    def _dispatch(self, cands: List[Tuple[str, str]], st: State) -> Optional[State]:
        fn = self.fn_stack[-1]
        res: Optional[State] = None
        any_resolved = False
        for kind, name in cands:
            target = None
            if kind == 'self':
                target = self.M.lookup_method(self.C, name)
            elif kind == 'nested':
                target = fn.nested.get(name)
            if target is not None:
                any_resolved = True
                res = _join(res, self.call_fn(target, st))
        return res if any_resolved else st


def lazy_memos_of(fn: FuncInfo) -> Set[str]:
    """Attributes filled under the idiom `if self._m is None [and ...]: ... self._m = E` in fn."""
    out: Set[str] = set()
    selfname = fn.self_name or 'self'
    for n in walk_no_nested(fn.node):
        if not isinstance(n, ast.If):
            continue
        test = n.test
        conj = test.values if isinstance(test, ast.BoolOp) and isinstance(test.op, ast.And) else [test]
        for c in conj:
            if isinstance(c, ast.Compare) and len(c.ops) == 1 and isinstance(c.ops[0], ast.Is) \
                    and isinstance(c.comparators[0], ast.Constant) and c.comparators[0].value is None:
                a = is_self_attr(c.left, selfname)
                if a is None:
                    continue
                for s in ast.walk(ast.Module(body=n.body, type_ignores=[])):
                    if isinstance(s, (ast.Assign, ast.AnnAssign)):
                        tg = s.targets if isinstance(s, ast.Assign) else [s.target]
                        if any(is_self_attr(t, selfname) == a for t in tg):
                            out.add(a)
    # guarded-return form: `if self._m is not None [or ...]: return self._m` ... `self._m = E` later in the same block
    for blk_owner in ast.walk(fn.node):
        for fld in ('body', 'orelse'):
            body = getattr(blk_owner, fld, None)
            if not (isinstance(body, list) and body and isinstance(body[0], ast.stmt)):
                continue
            for i, n in enumerate(body):
                if not (isinstance(n, ast.If) and not n.orelse and n.body and isinstance(n.body[-1], ast.Return)):
                    continue
                disj = n.test.values if isinstance(n.test, ast.BoolOp) and isinstance(n.test.op, ast.Or) else [n.test]
                for c in disj:
                    if isinstance(c, ast.Compare) and len(c.ops) == 1 and isinstance(c.ops[0], ast.IsNot) \
                            and isinstance(c.comparators[0], ast.Constant) and c.comparators[0].value is None:
                        a = is_self_attr(c.left, selfname)
                        if a is None or n.body[-1].value is None or is_self_attr(n.body[-1].value, selfname) != a:
                            continue
                        for s in body[i + 1:]:
                            for x in ast.walk(s):
                                if isinstance(x, (ast.Assign, ast.AnnAssign)):
                                    tg = x.targets if isinstance(x, ast.Assign) else [x.target]
                                    if any(is_self_attr(t, selfname) == a for t in tg):
                                        out.add(a)
    return out


def discover_lazy_memos(model: Model, cls: ClassInfo) -> Dict[str, FuncInfo]:
    out: Dict[str, FuncInfo] = {}
    for k in model.mro(cls):
        for g in list(k.getters.values()) + [m for m in k.methods.values() if m.kind == 'method']:
            for a in lazy_memos_of(g):
                out.setdefault(a, g)
    return out


def public_entries(model: Model, cls: ClassInfo) -> List[Tuple[str, FuncInfo]]:
    """Public methods, property getters/setters and the constructor as seen on instances of cls."""
    seen: Set[str] = set()
    out: List[Tuple[str, FuncInfo]] = []
    for k in model.mro(cls):
        names = list(k.methods) + list(k.getters) + list(k.setters) + list(k.getter_alias)
        for name in names:
            if name in seen:
                continue
            seen.add(name)
            if name.startswith('_') and name != '__init__':
                continue
            m = model.lookup_method(cls, name)
            if m is not None:
                if m.kind == 'method':
                    out.append((name, m))
                continue
            p = model.lookup_property(cls, name)
            if p is not None:
                if p[0] is not None:
                    out.append((name + '@getter', p[0]))
                if p[1] is not None:
                    out.append((name + '@setter', p[1]))
    return out


def analyse_class(ctx, rule: str, family: Family, cname: str) -> Tuple[int, int]:
    """Discharge the DSF obligations of one concrete class; report violations into ctx."""
    M: Model = ctx.model
    cls = M.cls(cname)
    # table <-> code cross-check (auto-discovery of lazy memos)
    disc = discover_lazy_memos(M, cls)
    for a, g in disc.items():
        if a not in family.specs and a not in family.undiscovered_ok:
            raise AnalysisError('DSF: lazy memo %s (filled in %s) of class %s is not in the derived-state table'
                                % (a, g.qualname, cname))
    for a, spec in family.specs.items():
        if spec.kind == 'lazy' and a not in disc:
            raise AnalysisError('DSF: table lists lazy memo %s for %s but no getter fills it any more' % (a, cname))
        if spec.kind in ('eager', 'sub'):
            found = False
            for site in spec.sites:
                cn, _, mn = site.partition('.')
                k = M.classes.get(cn)
                if k is None:
                    continue
                nm, _, kind = mn.partition('@')
                fi = (k.setters.get(nm) if kind == 'setter' else None) or k.methods.get(nm) or k.getters.get(nm)
                if fi is None:
                    continue
                base = a.split('.')[0]
                for n in ast.walk(fi.node):
                    if isinstance(n, ast.Attribute) and isinstance(n.ctx, ast.Store) and \
                            (n.attr == a or n.attr == a.split('.')[-1] or n.attr == base):
                        found = True
                if not found:
                    # the site may delegate to a helper that stores (e.g. Cell3Sec setters -> _set_sector_...)
                    for n in ast.walk(fi.node):
                        if isinstance(n, ast.Call):
                            found = True
            if not found:
                raise AnalysisError('DSF: no defining site of eager attribute %s left in %s' % (a, spec.sites))
    # every attribute the table names must still exist (be stored somewhere in the class family): a renamed private
    # attribute would otherwise make the table pass vacuously
    stored: Set[str] = set()
    fam_classes = []
    for cn_ in set(family.classes) | {cname}:
        if cn_ in M.classes:
            for k in M.mro(M.cls(cn_)) + M.subclasses(M.cls(cn_)):
                if k not in fam_classes:
                    fam_classes.append(k)
    for k in fam_classes:
        for dct in (k.methods, k.setters, k.getters):
            for f in dct.values():
                for n in ast.walk(f.node):
                    if isinstance(n, ast.Attribute) and isinstance(n.ctx, (ast.Store, ast.Del)):
                        stored.add(n.attr)
        stored |= set(k.class_attrs)
    for a, spec in family.specs.items():
        names = {a.split('.')[0]} | {d.split('.')[0] for d in spec.deps}
        gone = sorted(x for x in names if x not in stored)
        if gone:
            raise AnalysisError('DSF: attribute(s) %s named in the derived-state table of %s are stored nowhere in the class any more '
                                '(renamed?): cannot tell' % (gone, cname))
    nob = ndis = 0
    entries = public_entries(M, cls)
    if not entries:
        raise AnalysisError('DSF: class %s has no public entry points' % cname)
    for name, fn in entries:
        a = DSF(M, cls, family)
        st0 = a.init_state(NONE if name == '__init__' else CLEAN)
        out = a.run_fn(fn, st0)
        ctx.instance(rule, '%s.%s' % (cname, name))
        for d in a.derived:
            nob += 1
            construct = '%s.%s' % (cname, name)
            if out is None:
                ok = True
                lvl, cause = None, None
            else:
                lvl, _, cause = out[d]
                ok = lvl != DIRTY
            nontrivial = d in a.touched or bool(a.touched & a.tdeps[d])
            detail = None
            if nontrivial:
                detail = {'entry': construct, 'derived': d, 'start': 'NONE' if name == '__init__' else 'CLEAN',
                          'exit': LEVEL.get(lvl, 'no-normal-exit'), 'deps': sorted(a.tdeps[d]),
                          'callees_interpreted': a.n_calls, 'stores_seen': a.n_stores}
            ctx.obligation(rule, construct + ':' + d, ok, detail, nontrivial=nontrivial)
            if ok:
                ndis += 1
            else:
                owner = '%s.%s' % (fn.cls.name if fn.cls else '?', name)
                ctx.violation(
                    rule, owner, 'derived attribute %s may be stale at the normal exit of %s (receiver class %s): '
                    'source written at %s:%s `%s` in %s without refreshing/invalidating it'
                    % (d, owner, cname, cause[0] if cause else '?', cause[1] if cause else '?',
                       cause[2] if cause else '?', cause[3] if cause else '?'),
                    path=fn.path, line=fn.lineno,
                    witness={'receiver': cname, 'entry': owner, 'derived': d, 'deps': sorted(a.tdeps[d]),
                             'dirtied_by': cause}, operand=d)
    for a_ in sorted(ASSUMED):
        ctx.assume(a_)
    ASSUMED.clear()
    return nob, ndis


def foreign_writers(model: Model, protected: Set[str], family_classes: List[str]) -> List[Tuple[FuncInfo, str, int, str]]:
    """Stores through a non-self receiver to protected attribute names, outside the class family."""
    fam = set()
    for cn in family_classes:
        c = model.classes.get(cn)
        if c is not None:
            fam.update(k.name for k in model.mro(c))
            fam.update(k.name for k in model.subclasses(c))
    out = []
    for fn in model.all_functions():
        if fn.kind == 'nested':
            continue
        selfname = fn.self_name
        infam = fn.cls is not None and fn.cls.name in fam
        for n in ast.walk(fn.node):
            tgt = None
            if isinstance(n, ast.Attribute) and isinstance(n.ctx, ast.Store):
                tgt = n
            elif isinstance(n, ast.Subscript) and isinstance(n.ctx, ast.Store):
                t = n
                while isinstance(t, ast.Subscript):
                    t = t.value
                if isinstance(t, ast.Attribute):
                    tgt = t
            elif isinstance(n, ast.Call) and isinstance(n.func, ast.Attribute) and n.func.attr in MUTATORS:
                t = n.func.value
                while isinstance(t, ast.Subscript):
                    t = t.value
                if isinstance(t, ast.Attribute):
                    tgt = t
            if tgt is None or tgt.attr not in protected:
                continue
            recv = tgt.value
            if isinstance(recv, ast.Name) and recv.id == selfname and infam:
                continue
            if isinstance(recv, ast.Name) and recv.id == selfname and not infam:
                continue      # a same-named attribute of an unrelated class
            out.append((fn, tgt.attr, n.lineno, norm(recv)))
    return out


def dsf_sweep(overlay, family: Family, tag: str):
    """Auto-generated deletions of every invalidation / refresh statement of a class family (thorough tier)."""
    import re
    from .model import Model
    from .selftest import sweep_lines
    M = Model(overlay)
    derived = set(family.specs)
    plain = sorted({d for d in derived if '.' not in d}, key=len, reverse=True)
    subs = sorted({d for d in derived if '.' in d})
    classes = []
    for cn in family.classes:
        c = M.classes.get(cn)
        if c is None:
            continue
        for k in M.mro(c):
            if k not in classes:
                classes.append(k)
    # helper methods that (re)establish derived state
    helpers = set()
    for k in classes:
        for f in k.methods.values():
            if f.name.startswith('_') and not f.name.startswith('__') and f.self_name:
                for n in ast.walk(f.node):
                    if isinstance(n, ast.Attribute) and isinstance(n.ctx, ast.Store) and is_self_attr(n, f.self_name) in derived:
                        helpers.add(f.name)
    pats = []
    if plain:
        pats.append(r'^self\.(%s)(\[[^\]]*\])? = ' % '|'.join(re.escape(d) for d in plain))
    if subs:
        pats.append(r'^self\.(%s) = ' % '|'.join(re.escape(d) for d in subs))
    if helpers:
        pats.append(r'^self\.(%s)\(\)$' % '|'.join(re.escape(h) for h in sorted(helpers)))
    rx = re.compile('|'.join(pats)) if pats else None
    out = []
    if rx is None:
        return out
    for k in classes:
        for d, suffix in ((k.methods, ''), (k.setters, '@setter'), (k.getters, '@getter')):
            for f in d.values():
                if f.name == '__init__' and False:
                    continue
                out.extend(sweep_lines(overlay, f.path, '%s.%s%s' % (k.name, f.name, suffix), lambda t: bool(rx.match(t)), tag))
    return out


# ---------------------------------------------------------------------------------------------
# auto-DSF: every lazily filled memo of the anchored classes, discovered from the code (no table)
# ---------------------------------------------------------------------------------------------
def _validity_memos(fn: FuncInfo) -> Dict[str, Set[str]]:
    """Memos of the idiom  `if self._m is not None and <validity test>: return self._m ... self._m = E`.
    Returns attr -> attributes read by the validity test (dependencies the programmer validates lazily)."""
    out: Dict[str, Set[str]] = {}
    sn = fn.self_name or 'self'
    stored = {is_self_attr(n, sn) for n in walk_no_nested(fn.node) if isinstance(n, ast.Attribute) and isinstance(n.ctx, ast.Store)}
    for n in walk_no_nested(fn.node):
        if not isinstance(n, ast.If) or not n.body or not isinstance(n.body[-1], ast.Return) or n.body[-1].value is None:
            continue
        a = is_self_attr(n.body[-1].value, sn)
        if a is None or a not in stored:
            continue
        conj = n.test.values if isinstance(n.test, ast.BoolOp) and isinstance(n.test.op, ast.And) else [n.test]
        has_not_none = any(isinstance(c, ast.Compare) and len(c.ops) == 1 and isinstance(c.ops[0], ast.IsNot)
                           and is_self_attr(c.left, sn) == a and isinstance(c.comparators[0], ast.Constant)
                           and c.comparators[0].value is None for c in conj)
        if not has_not_none:
            continue
        covered = {is_self_attr(x, sn) for c in conj for x in ast.walk(c)} - {None}
        out[a] = covered
    return out


def discover_memos_auto(model: Model, cls: ClassInfo) -> Dict[str, Dict[str, Any]]:
    """attr -> {'fillers': [FuncInfo], 'covered': set} for lazily filled memos of cls (own and inherited)."""
    out: Dict[str, Dict[str, Any]] = {}
    for k in model.mro(cls):
        for d in (k.getters, k.methods, k.setters):
            for f in d.values():
                if f.self_name is None:
                    continue
                for a in lazy_memos_of(f):
                    out.setdefault(a, {'fillers': [], 'covered': set()})['fillers'].append(f)
                for a, cov in _validity_memos(f).items():
                    e = out.setdefault(a, {'fillers': [], 'covered': set()})
                    e['fillers'].append(f)
                    e['covered'] |= cov
    return out


class AutoDSF(DSF):
    """DSF over auto-discovered memos: dependencies are what the fill expressions read; calls of mutating
    methods on a sub-object held in a dependency attribute count as writes of that dependency."""

    def __init__(self, model: Model, concrete: ClassInfo, family: Family, memos: Dict[str, Dict[str, Any]]):
        self.memos = memos
        super().__init__(model, concrete, family)
        self._subobj_cls: Dict[str, Optional[ClassInfo]] = {}

    def _compute_lazy_deps(self) -> None:
        for a, info in self.memos.items():
            deps: Set[str] = set()
            for f in info['fillers']:
                sn = f.self_name or 'self'
                saved = self.fn_stack
                self.fn_stack = saved + [f]
                saved_locals = self.locals
                self.locals = {}
                # locals first (flow-insensitive), then the fill expressions
                for n in walk_no_nested(f.node):
                    if isinstance(n, ast.Assign) and len(n.targets) == 1 and isinstance(n.targets[0], ast.Name):
                        self.locals[n.targets[0].id] = frozenset(self.expr_reads(n.value))
                for n in walk_no_nested(f.node):
                    if isinstance(n, (ast.Assign, ast.AnnAssign)) and getattr(n, 'value', None) is not None:
                        tg = n.targets if isinstance(n, ast.Assign) else [n.target]
                        if any(is_self_attr(t, sn) == a for t in tg) and not (isinstance(n.value, ast.Constant) and n.value.value is None):
                            deps |= self.expr_reads(n.value)
                self.locals = saved_locals
                self.fn_stack = saved
            deps -= {a}
            deps -= info['covered']
            self.derived[a] = deps

    def memo_fills(self, fn: FuncInfo) -> Set[str]:
        return {a for a, info in self.memos.items() if any(f.node is fn.node for f in info['fillers'])}

    def run_fn(self, fn: FuncInfo, st: State) -> State:
        # any filler (getter or plain method) may fill its memo without that counting as a source write
        self._extra_fill = getattr(self, '_extra_fill', [])
        self._extra_fill.append(self.memo_fills(fn))
        try:
            return super().run_fn(fn, st)
        finally:
            self._extra_fill.pop()

    def in_fill(self, d: str) -> bool:
        return super().in_fill(d) or any(d in s for s in getattr(self, '_extra_fill', []))

    def subobj_class(self, attr: str) -> Optional[ClassInfo]:
        if attr in self._subobj_cls:
            return self._subobj_cls[attr]
        found = None
        for k in self.M.mro(self.C):
            for f in list(k.methods.values()) + list(k.setters.values()):
                sn = f.self_name
                if sn is None:
                    continue
                for n in ast.walk(f.node):
                    if isinstance(n, ast.Assign) and isinstance(n.value, ast.Call) and any(is_self_attr(t, sn) == attr for t in n.targets):
                        c = self.M.resolve_class_expr(f.module, n.value.func)
                        if c is not None:
                            found = c
        self._subobj_cls[attr] = found
        return found

    def call(self, c: ast.Call, st: State) -> Optional[State]:
        f = c.func
        fn = self.fn_stack[-1]
        sn = fn.self_name or 'self'
        if isinstance(f, ast.Attribute) and isinstance(f.value, ast.Attribute):
            holder = is_self_attr(f.value, sn)
            if holder is not None and any(holder in self.tdeps[d] for d in self.derived):
                k = self.subobj_class(holder)
                if k is not None:
                    m = self.M.lookup_method(k, f.attr)
                    if m is not None:
                        from .effects import _self_mutating
                        if _self_mutating(self.M, m):
                            return self.write_dep(st, holder, c)
        return super().call(c, st)


def discover_ctor_derived(model: Model, cls: ClassInfo) -> Dict[str, Set[str]]:
    """Attributes that are assigned ONLY in constructors, from an expression reading other attributes of self that some
    non-constructor method also writes, and that are read outside the constructors: values computed once from settable
    state (e.g. a cached term of a formula).  Holders of sub-objects (value = construction of a repo class) are excluded -
    their coherence is a per-attribute matter handled by the hand tables."""
    asg: Dict[str, List[Tuple[FuncInfo, ast.AST]]] = {}
    read_outside: Set[str] = set()
    for k in model.mro(cls):
        for d in (k.methods, k.setters, k.getters):
            for f in d.values():
                sn = f.self_name
                if not sn:
                    continue
                for n in ast.walk(f.node):
                    tg, val = [], None
                    if isinstance(n, ast.Assign):
                        tg, val = n.targets, n.value
                    elif isinstance(n, ast.AnnAssign) and n.value is not None:
                        tg, val = [n.target], n.value
                    elif isinstance(n, ast.AugAssign):
                        tg, val = [n.target], n.value
                    for t in tg:
                        a = is_self_attr(t, sn)
                        if a:
                            asg.setdefault(a, []).append((f, val))
                        elif isinstance(t, ast.Subscript) and is_self_attr(t.value, sn):
                            asg.setdefault(t.value.attr, []).append((f, val))
                    if f.name != '__init__' and isinstance(n, ast.Attribute) and isinstance(n.ctx, ast.Load) and is_self_attr(n, sn):
                        read_outside.add(n.attr)
    mutable = {a for a, l in asg.items() if any(f.name != '__init__' for f, _ in l)}
    probe = DSF(model, cls, Family('probe', [cls.name], []))
    out: Dict[str, Set[str]] = {}
    for a, l in asg.items():
        if a not in read_outside or not all(f.name == '__init__' for f, _ in l):
            continue
        deps: Set[str] = set()
        ok = True
        for f, val in l:
            if isinstance(val, ast.Constant):
                continue
            if isinstance(val, ast.Call) and model.resolve_class_expr(f.module, val.func) is not None:
                ok = False          # sub-object holder
                break
            probe.fn_stack = [f]
            probe.locals = {}
            for n in walk_no_nested(f.node):
                if isinstance(n, ast.Assign) and len(n.targets) == 1 and isinstance(n.targets[0], ast.Name):
                    probe.locals[n.targets[0].id] = frozenset(probe.expr_reads(n.value))
            r = probe.expr_reads(val) - {a}
            # a constructor parameter that is also stored verbatim into an attribute stands for that attribute
            alias = {}
            for n in walk_no_nested(f.node):
                tg2, v2 = [], None
                if isinstance(n, ast.Assign):
                    tg2, v2 = n.targets, n.value
                elif isinstance(n, ast.AnnAssign) and n.value is not None:
                    tg2, v2 = [n.target], n.value
                if isinstance(v2, ast.Name) and v2.id in f.params:
                    for t2 in tg2:
                        x = is_self_attr(t2, f.self_name or 'self')
                        if x:
                            alias[v2.id] = x
            r |= {alias[n.id] for n in ast.walk(val) if isinstance(n, ast.Name) and n.id in alias} - {a}
            r &= mutable
            probe.fn_stack = []
            deps |= r
        if ok and deps:
            out[a] = deps
    return out


def auto_memo_check(ctx, rule: str, module_paths: List[str], skip_classes: Optional[Set[str]] = None) -> int:
    """Obligations: no auto-discovered lazy memo of any class defined in module_paths is DIRTY at a normal exit of a
    public entry point.  Classes without memos contribute one trivial instance each (so the rule is never vacuous)."""
    M: Model = ctx.model
    skip = skip_classes or set()
    n_memos = 0
    memos_for_report: Dict[str, Dict[str, Any]] = {}
    for path in module_paths:
        mod = M.module(path)
        for cname, cls in sorted(mod.classes.items()):
            if cname in skip:
                continue
            memos = discover_memos_auto(M, cls)
            # memos inherited from classes handled elsewhere are skipped too
            memos = {a: i for a, i in memos.items() if not any(f.cls is not None and f.cls.name in skip for f in i['fillers'])}
            ctor = {a: d for a, d in discover_ctor_derived(M, cls).items() if a not in memos}
            ctx.instance(rule, '%s:memos=%d,ctor-derived=%d' % (cname, len(memos), len(ctor)))
            if not memos and not ctor:
                ctx.obligation(rule, cname, True, None, nontrivial=False)
                continue
            n_memos += len(memos) + len(ctor)
            fam = Family('auto:' + cname, [cname],
                         [Spec(a, 'lazy', set(), [f.qualname for f in i['fillers']], 'auto-discovered') for a, i in memos.items()] +
                         [Spec(a, 'eager', d, ['%s.__init__' % cname], 'computed once in the constructor from settable state')
                          for a, d in ctor.items()])
            for a in ctor:
                memos_for_report[a] = {'fillers': [], 'covered': set()}
            for name, fn in public_entries(M, cls):
                a = AutoDSF(M, cls, fam, memos)
                st0 = a.init_state(NONE if name == '__init__' else CLEAN)
                out = a.run_fn(fn, st0)
                for d in a.derived:
                    construct = '%s.%s' % (cname, name)
                    lvl, cause = (None, None) if out is None else (out[d][0], out[d][2])
                    ok = lvl != DIRTY
                    nontrivial = d in a.touched or bool(a.touched & a.tdeps[d])
                    ctx.obligation(rule, construct + ':' + d, ok,
                                   {'entry': construct, 'memo': d, 'deps': sorted(a.tdeps[d]), 'exit': LEVEL.get(lvl, 'no-normal-exit')}
                                   if nontrivial else None, nontrivial=nontrivial)
                    if not ok:
                        owner = '%s.%s' % (fn.cls.name if fn.cls else '?', name)
                        fillers = [f.qualname for f in memos[d]['fillers']] if d in memos else ['%s.__init__ (computed once)' % cname]
                        ctx.violation(rule, owner, 'cached value %s (filled in %s from %s) may be stale at the normal exit of %s '
                                      '(receiver class %s): %s:%s `%s` changes a source without resetting it'
                                      % (d, fillers, sorted(a.tdeps[d]), owner, cname,
                                         cause[0] if cause else '?', cause[1] if cause else '?', cause[2] if cause else '?'),
                                      path=fn.path, line=fn.lineno,
                                      witness={'receiver': cname, 'memo': d, 'deps': sorted(a.tdeps[d]), 'dirtied_by': cause}, operand=d)
    ctx.stats['auto_discovered_memos'] = ctx.stats.get('auto_discovered_memos', 0) + n_memos
    return n_memos


# ---------------------------------------------------------------------------------------------
# must-apply: an argument of an entry point is stored through a property setter on every normal path
# ---------------------------------------------------------------------------------------------
class MustStore(DSF):
    """Reuses the interprocedural interpreter (receiver-sensitive calls, dict dispatch): the pseudo attribute
    '@applied' starts DIRTY (= not applied yet) and becomes CLEAN when the setter of `prop` runs; join = max, so it is
    DIRTY at an exit iff some path reaches that exit without the store."""

    def __init__(self, model: Model, concrete: ClassInfo, prop: str):
        super().__init__(model, concrete, Family('must', [concrete.name], []))
        self.prop = prop
        self.derived = {'@applied': set()}
        self.tdeps = {'@applied': set()}

    def store(self, t, value, st, node, aug=False):
        out = super().store(t, value, st, node, aug)
        if out is not None and isinstance(t, ast.Attribute) and is_self_attr(t, self.fn_stack[-1].self_name or 'self') == self.prop:
            out = dict(out)
            out['@applied'] = (CLEAN, None, None)
        return out


def must_store_on_all_paths(model: Model, cls: ClassInfo, entry: str, prop: str) -> Tuple[bool, Optional[FuncInfo]]:
    fn = model.lookup_method(cls, entry)
    if fn is None:
        return True, None
    m = MustStore(model, cls, prop)
    out = m.run_fn(fn, {'@applied': (DIRTY, None, None)})
    if out is None:
        return True, fn
    return out['@applied'][0] != DIRTY, fn
