"""CLI:  python -m sa.run <ID> [--tier quick|thorough] [--replay <path>]

exit 0  all obligations discharged (known findings printed as KNOWN-FINDING lines)
exit 1  VIOLATION property=<id> replay=<path>   for every violation not in known_findings.json
exit 2  ANALYSIS-ERROR ...  (anchor missing, unknown idiom, instance floor not met, self-test failed, crash)
"""
from __future__ import annotations

import argparse
import importlib
import json
import os
import sys
import time
import traceback

from .overlay import AnalysisError, Overlay
from .report import Ctx, split_known, write_evidence, write_replay

PROPS = ['C%02d' % i for i in range(1, 21)]


def load_prop(pid: str):
    try:
        return importlib.import_module('sa.props.%s' % pid.lower())
    except ModuleNotFoundError as e:
        if e.name and e.name.startswith('sa.props'):
            raise AnalysisError('no checker is built for property %s' % pid)
        raise


def run_checks(mod, pid: str, overlay: Overlay, tier: str, seed: int, only_key=None) -> Ctx:
    ctx = Ctx(pid, overlay, tier, seed, only_key=only_key)
    try:
        mod.check(ctx)
        ctx.check_floors()
    except AnalysisError as e:
        # a definite violation found before the analysis had to give up is still a violation; the part that could
        # not be decided is reported next to it
        if not split_known(pid, ctx.violations)[0]:
            raise               # nothing but listed known findings: the run as a whole cannot tell
        ctx.note('analysis incomplete: %s' % e)
        ctx.stats['analysis_incomplete'] = str(e)
    return ctx


def main(argv=None) -> int:
    ap = argparse.ArgumentParser()
    ap.add_argument('prop')
    ap.add_argument('--tier', default=os.environ.get('VERIF_TIER', 'quick'), choices=['quick', 'thorough'])
    ap.add_argument('--replay', default=None)
    ap.add_argument('--no-evidence', action='store_true')
    args = ap.parse_args(argv)
    pid = args.prop.upper()
    seed = int(os.environ.get('VERIF_SEED', '0') or 0)
    t0 = time.time()
    try:
        if pid not in PROPS:
            raise AnalysisError('unknown property id %s' % pid)
        mod = load_prop(pid)
        overlay = Overlay.load()
        only_key = None
        if args.replay:
            with open(args.replay) as fh:
                only_key = json.load(fh)['key']
        ctx = run_checks(mod, pid, overlay, args.tier, seed)
        extra = {}
        # the tiny synthetic positives: rules whose expected violation count is zero must still be able to fire
        from . import selftest
        syn = selftest.run_synthetic(mod, pid)
        extra['synthetic_positives'] = syn
        if args.tier == 'thorough':
            try:
                extra['self_test'] = selftest.run_mutants(mod, pid, overlay, seed)
                sw = selftest.run_sweep(mod, pid, overlay)
                if sw:
                    extra['sensitivity_sweep'] = sw
            except AnalysisError as e:
                # the self-test compares against the reports of the tree as it is: on a tree that already violates the property a seeded
                # edit may coincide with the reported violation.  The violation is what this run reports; the self-test is void.
                if not split_known(pid, ctx.violations)[0]:
                    raise
                extra['self_test'] = {'void': 'tree already violates the property', 'detail': str(e)[:400]}
            if hasattr(mod, 'thorough'):
                mod.thorough(ctx)
        new, known, _ = split_known(pid, ctx.violations)
        if only_key is not None:
            hit = [v for v in ctx.violations if v.key == only_key]
            print('REPLAY key=%s reproduced=%s' % (only_key, bool(hit)))
            for v in hit:
                print('  %s:%s %s' % (v.path, v.line, v.msg))
            return 1 if hit else 0
        wall = time.time() - t0
        paths = {}
        for v in new:
            paths[v.key] = write_replay(pid, v, overlay)
        if not args.no_evidence:
            write_evidence(ctx, wall, new, known, extra, getattr(mod, 'EXPLANATION', ''))
        n_inst = sum(len(v) for v in ctx.instances.values())
        print('property=%s tier=%s rules=%d instances=%d obligations=%d discharged=%d wall=%.2fs digest=%s'
              % (pid, args.tier, len(ctx.rules), n_inst, ctx.n_obligations, ctx.n_discharged, wall,
                 overlay.digest()))
        for r in ctx.rules:
            print('  rule %-8s instances=%-3d %s' % (r, len(ctx.instances.get(r, [])), ctx.rules[r][:110]))
        if ctx.stats.get('analysis_incomplete'):
            print('ANALYSIS-INCOMPLETE property=%s %s' % (pid, ctx.stats['analysis_incomplete']))
        for v in known:
            print('KNOWN-FINDING: property=%s %s -- %s (%s:%s)' % (pid, v.key, v.msg, v.path, v.line))
        for v in new:
            print('%s:%s: [%s] %s' % (v.path, v.line, v.key, v.msg))
            print('VIOLATION property=%s replay=%s' % (pid, paths[v.key]))
        return 1 if new else 0
    except AnalysisError as e:
        print('ANALYSIS-ERROR property=%s %s' % (pid, e))
        return 2
    except Exception:  # noqa: BLE001 - a crash of the analysis must never look like a violation
        tb = traceback.format_exc()
        print('ANALYSIS-ERROR property=%s internal error:\n%s' % (pid, tb))
        return 2


if __name__ == '__main__':
    sys.exit(main())
