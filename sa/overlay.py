"""Source overlay: path -> source text, read from /repo's *current working tree*.

Every engine works on an Overlay; self-tests derive modified overlays in memory
(no scratch copy of the repository is written to disk).
"""
from __future__ import annotations

import ast
import hashlib
import os
import textwrap
from typing import Callable, Dict, Iterable, Optional

REPO = os.environ.get('VERIF_REPO', '/repo')


class AnalysisError(Exception):
    """The analysis cannot tell (anchor vanished, idiom unknown, floor not met)."""


class Overlay:
    def __init__(self, files: Dict[str, str], root: str = REPO, label: str = 'worktree'):
        self.files = dict(files)
        self.root = root
        self.label = label
        self._trees: Dict[str, ast.Module] = {}

    # ------------------------------------------------------------------ load
    @classmethod
    def load(cls, root: str = REPO, subdirs: Iterable[str] = ('pyphysim',)) -> 'Overlay':
        files: Dict[str, str] = {}
        for sd in subdirs:
            base = os.path.join(root, sd)
            if not os.path.isdir(base):
                raise AnalysisError('source directory missing: %s' % base)
            for dp, dns, fns in os.walk(base):
                dns[:] = sorted(d for d in dns if d != '__pycache__')
                for fn in sorted(fns):
                    if fn.endswith('.py'):
                        p = os.path.join(dp, fn)
                        with open(p, encoding='utf-8') as fh:
                            files[os.path.relpath(p, root)] = fh.read()
        if not files:
            raise AnalysisError('no python sources under %s' % root)
        return cls(files, root)

    # ------------------------------------------------------------------ access
    def src(self, path: str) -> str:
        if path not in self.files:
            raise AnalysisError('anchor file missing: %s' % path)
        return self.files[path]

    def tree(self, path: str) -> ast.Module:
        if path not in self._trees:
            try:
                self._trees[path] = ast.parse(self.src(path), filename=path)
            except SyntaxError as e:  # a tree that does not compile is not analysable
                raise AnalysisError('cannot parse %s: %s' % (path, e))
        return self._trees[path]

    def digest(self, paths: Optional[Iterable[str]] = None) -> str:
        h = hashlib.sha256()
        for p in sorted(paths if paths is not None else self.files):
            h.update(p.encode())
            h.update(b'\0')
            h.update(self.files.get(p, '').encode())
            h.update(b'\0')
        return h.hexdigest()[:16]

    # ------------------------------------------------------------------ edits
    def with_file(self, path: str, new_src: str, label: str = 'mutant') -> 'Overlay':
        files = dict(self.files)
        files[path] = new_src
        return Overlay(files, self.root, label)

    def edit_function(self, path: str, qualname: str,
                      fn: Callable[[str], str], label: str = 'mutant') -> 'Overlay':
        """Rewrite one function: `fn` maps the *unparsed* (docstring-free,
        canonically formatted) source of the function to new source.

        The canonical form makes edits independent of the repository's
        formatting, comments and docstrings.  `qualname` is `Class.meth`,
        `Class.prop@setter`, `Class.prop@getter`, or `func`.
        """
        tree = ast.parse(self.src(path))
        node = find_def(tree, qualname)
        if node is None:
            raise MutantNotApplicable('no such function %s in %s' % (qualname, path))
        strip_docstring(node)
        old = ast.unparse(node)
        new = fn(old)
        if new == old:
            raise MutantNotApplicable('edit of %s left the source unchanged' % qualname)
        lines = self.src(path).splitlines(keepends=True)
        start = min([node.lineno] + [d.lineno for d in node.decorator_list]) - 1
        end = node.end_lineno
        indent = ' ' * node.col_offset
        new_block = textwrap.indent(new, indent) + '\n'
        new_src = ''.join(lines[:start]) + new_block + ''.join(lines[end:])
        try:
            ast.parse(new_src)
        except SyntaxError as e:
            raise MutantNotApplicable('mutant does not parse: %s' % e)
        return self.with_file(path, new_src, label)


class MutantNotApplicable(Exception):
    pass


def strip_docstring(node: ast.AST) -> None:
    body = getattr(node, 'body', None)
    if body and isinstance(body[0], ast.Expr) and isinstance(body[0].value, ast.Constant) \
            and isinstance(body[0].value.value, str):
        if len(body) > 1:
            del body[0]
        else:
            body[0] = ast.Pass()


def _decorator_kind(fn: ast.FunctionDef) -> str:
    for d in fn.decorator_list:
        s = ast.unparse(d)
        if s == 'property':
            return 'getter'
        if s.endswith('.setter'):
            return 'setter'
    return 'plain'


def find_def(tree: ast.AST, qualname: str) -> Optional[ast.FunctionDef]:
    want_kind = None
    if '@' in qualname:
        qualname, want_kind = qualname.split('@')
    parts = qualname.split('.')

    def search(body, parts):
        head, rest = parts[0], parts[1:]
        for n in body:
            if isinstance(n, ast.ClassDef) and n.name == head and rest:
                r = search(n.body, rest)
                if r is not None:
                    return r
            if isinstance(n, (ast.FunctionDef, ast.AsyncFunctionDef)) and n.name == head:
                if rest:
                    r = search(n.body, rest)
                    if r is not None:
                        return r
                else:
                    k = _decorator_kind(n)
                    if want_kind is None and k != 'setter':
                        return n
                    if want_kind == k:
                        return n
        return None

    return search(tree.body, parts)
