"""Looking through helpers introduced after the reference tree (extract-method refactorings).

The rules of /verif/sa/props anchor on the functions of the reference tree (reference_api.json: the qualified names
present when the rule instances were confirmed by hand).  A function that is NOT in that list was introduced by a later
change; a call to it that resolves statically is replaced, in the caller's syntax tree, by the callee's body
(parameters substituted by the argument expressions, clashing locals renamed, `return e` turned into the assignment
the call fed).  The rules then see the same statements they would have seen before the extraction, and a defect hidden
in a new helper is seen in the context of its caller.  Helpers that cannot be spliced (returns inside loops, generators,
recursion, star arguments, calls inside comprehensions / short-circuit operands) are left as calls.

Nothing here depends on line numbers; spliced statements take the line of the call they replace.
"""
from __future__ import annotations

import ast
import copy
import json
import os
from typing import Dict, List, Optional, Set, Tuple

REFERENCE = os.path.join(os.path.dirname(os.path.dirname(os.path.abspath(__file__))), 'reference_api.json')


def attr_signatures(model, cls) -> Dict[str, Set[str]]:
    """attribute -> {"<function>:S" | "<function>:L"}: in which functions of the class the attribute of self is stored / read.
    The signature does not depend on the attribute's name, so a consistently renamed private attribute keeps it."""
    out: Dict[str, Set[str]] = {}
    for d in (cls.methods, cls.getters, cls.setters):
        for f in d.values():
            sn = f.self_name
            if sn is None:
                continue
            for n in ast.walk(f.node):
                if isinstance(n, ast.Attribute) and isinstance(n.value, ast.Name) and n.value.id == sn:
                    kind = 'S' if isinstance(n.ctx, (ast.Store, ast.Del)) else 'L'
                    out.setdefault(n.attr, set()).add('%s:%s' % (f.qualname, kind))
    return out


def load_reference_attrs() -> Dict[str, Dict[str, Set[str]]]:
    try:
        with open(REFERENCE) as f:
            d = json.load(f)
    except OSError:
        return {}
    return {c: {a: set(v) for a, v in m.items()} for c, m in d.get('attrs', {}).items()}


def undo_private_renames(model) -> Dict[str, str]:
    """Map consistently renamed PRIVATE attributes back to their reference names, in place.

    For a class of the reference tree: a reference attribute that is no longer mentioned, and a new attribute (unknown
    to the reference, underscore-prefixed) with exactly the same store/read signature over the class's functions, are
    the same attribute under two names.  The new name is rewritten to the reference name everywhere (it must be new to
    the whole reference, so no other attribute is captured)."""
    ref = load_reference_attrs()
    if not ref:
        return {}
    all_ref_names = {a for m in ref.values() for a in m}
    renames: Dict[str, str] = {}
    for c in model.classes.values():
        if c.qualname not in ref:
            continue
        cur = attr_signatures(model, c)
        old = {a: sig for a, sig in ref[c.qualname].items() if a not in cur and a.startswith('_')}
        new = {a: sig for a, sig in cur.items() if a not in ref[c.qualname] and a not in all_ref_names and a.startswith('_')}
        if not old or not new:
            continue
        for o, osig in old.items():
            cands = [n for n, nsig in new.items() if nsig == osig]
            back = [o2 for o2, s2 in old.items() if s2 == osig]
            if len(cands) == 1 and len(back) == 1 and renames.get(cands[0], o) == o:
                renames[cands[0]] = o
    if not renames:
        return {}
    for m in model.modules.values():
        for n in ast.walk(m.tree):
            if isinstance(n, ast.Attribute) and n.attr in renames:
                n.attr = renames[n.attr]
    return renames


def local_shape(fnode) -> Tuple[str, Optional[List[str]]]:
    """(digest, locals in order of first occurrence) of a function with its LOCAL names abstracted: two functions that differ only by a
    consistent renaming of locals (names bound in the function that are neither parameters nor declared global / nonlocal) have the same
    digest.  Nested functions and lambdas keep their own scopes: a function containing one is not abstracted (digest of the plain dump)."""
    import hashlib
    node = copy.deepcopy(fnode)
    if node.body and isinstance(node.body[0], ast.Expr) and isinstance(node.body[0].value, ast.Constant) and isinstance(node.body[0].value.value, str):
        node.body = node.body[1:] or [ast.Pass()]
    if any(isinstance(n, (ast.FunctionDef, ast.AsyncFunctionDef, ast.Lambda, ast.ClassDef)) and n is not node for n in ast.walk(node)):
        return hashlib.sha256(ast.dump(node).encode()).hexdigest()[:16], None         # not abstracted: no local names recorded
    a = node.args
    params = {x.arg for x in a.posonlyargs + a.args + a.kwonlyargs} | ({a.vararg.arg} if a.vararg else set()) | ({a.kwarg.arg} if a.kwarg else set())
    decl = {nm for n in ast.walk(node) if isinstance(n, (ast.Global, ast.Nonlocal)) for nm in n.names}
    imported = {(al.asname or al.name).split('.')[0] for n in ast.walk(node) if isinstance(n, (ast.Import, ast.ImportFrom)) for al in n.names}
    stored = {n.id for n in ast.walk(node) if isinstance(n, ast.Name) and isinstance(n.ctx, (ast.Store, ast.Del))}
    stored |= {n.name for n in ast.walk(node) if isinstance(n, ast.ExceptHandler) and n.name}
    loc = stored - params - decl - imported
    order: List[str] = []

    class V(ast.NodeVisitor):
        def visit_Name(self, n):
            if n.id in loc:
                if n.id not in order:
                    order.append(n.id)
                n.id = 'L%d' % order.index(n.id)

        def visit_ExceptHandler(self, n):
            if n.name in loc:
                if n.name not in order:
                    order.append(n.name)
                n.name = 'L%d' % order.index(n.name)
            self.generic_visit(n)
    for st in node.body:
        V().visit(st)
    node.name = '_'
    node.decorator_list = []
    node.returns = None
    for x in ast.walk(node):
        if isinstance(x, ast.arg):
            x.annotation = None
        if isinstance(x, ast.AnnAssign):
            x.annotation = ast.Constant(value=None)
    return hashlib.sha256(ast.dump(node).encode()).hexdigest()[:16], order


def undo_local_renames(model) -> int:
    """A function whose body equals the reference function up to a consistent renaming of its locals gets the reference names back, in
    place (first pass of the model build, on the trees as parsed).  Rules that know a local by its name then see the name they were
    confirmed on; a function that was changed in any other way is left as it is."""
    try:
        with open(REFERENCE) as f:
            ref = json.load(f).get('local_shapes', {})
    except OSError:
        return 0
    n_done = 0
    for fn in model.all_functions():
        if fn.kind == 'nested':
            continue
        r = ref.get('%s::%s' % (fn.path, fn.qualname))
        if not r:
            continue
        dg, order = local_shape(fn.node)
        if order is None or r[1] is None or dg != r[0] or order == r[1] or len(order) != len(r[1]) or len(set(r[1])) != len(r[1]):
            continue
        ren = dict(zip(order, r[1]))
        # two-step renaming (a -> b while b -> c)
        for n in ast.walk(fn.node):
            if isinstance(n, ast.Name) and n.id in ren:
                n.id = '\x00' + ren[n.id]
            elif isinstance(n, ast.ExceptHandler) and n.name in ren:
                n.name = '\x00' + ren[n.name]
        for n in ast.walk(fn.node):
            if isinstance(n, ast.Name) and n.id.startswith('\x00'):
                n.id = n.id[1:]
            elif isinstance(n, ast.ExceptHandler) and n.name and n.name.startswith('\x00'):
                n.name = n.name[1:]
        n_done += 1
    return n_done


def load_reference_names() -> Tuple[Dict[str, Set[str]], Dict[str, Set[str]]]:
    try:
        with open(REFERENCE) as f:
            d = json.load(f)
    except OSError:
        return {}, {}
    return ({k: set(v) for k, v in d.get('module_names', {}).items()}, {k: set(v) for k, v in d.get('class_names', {}).items()})


PURE_ROOTS = {'np', 'numpy', 'math', 'cmath'}
PURE_BUILTINS = {'int', 'float', 'complex', 'str', 'bool', 'bytes', 'tuple', 'frozenset', 'list', 'set', 'dict', 'range', 'len', 'abs', 'min', 'max',
                 'True', 'False', 'None'}


def _pure_constant(e: ast.AST, known: Set[str], budget: List[int]) -> bool:
    """a literal, or a small expression over literals, numpy / math names and constants already known to be pure"""
    budget[0] -= 1
    if budget[0] < 0:
        return False
    if isinstance(e, ast.Constant):
        return True
    if isinstance(e, (ast.Tuple, ast.List, ast.Set)):
        return all(_pure_constant(x, known, budget) for x in e.elts)
    if isinstance(e, ast.Dict):
        return all(k is not None and _pure_constant(k, known, budget) for k in e.keys) and all(_pure_constant(v, known, budget) for v in e.values)
    if isinstance(e, ast.UnaryOp):
        return _pure_constant(e.operand, known, budget)
    if isinstance(e, ast.BinOp):
        return _pure_constant(e.left, known, budget) and _pure_constant(e.right, known, budget)
    if isinstance(e, ast.Name):
        return e.id in known or e.id in PURE_BUILTINS or e.id in PURE_ROOTS
    if isinstance(e, ast.Attribute):
        r = e
        while isinstance(r, ast.Attribute):
            r = r.value
        return isinstance(r, ast.Name) and r.id in PURE_ROOTS
    if isinstance(e, ast.Call):
        return not e.keywords and _pure_constant(e.func, known, budget) and all(_pure_constant(a, known, budget) for a in e.args) \
            and not (isinstance(e.func, ast.Attribute) and e.func.attr in ('random', 'rand', 'randn', 'empty', 'zeros', 'ones', 'array', 'arange'))
    return False


def inline_new_constants(model) -> Dict[str, int]:
    """Module-level and class-level CONSTANTS that the reference tree does not have (a literal / table moved out of a method body into a
    named constant) are substituted back at their uses, in place, so that the rules see the literal they were confirmed on.

    Substituted: `NAME = <pure constant expression>` bound exactly once at module level (resp. in a class body), never assigned anywhere
    else (no `global`, no `X.NAME = ..` store in the package), with NAME unknown to the reference module (resp. class family).  Uses:
    the bare name in the functions of the module (not shadowed), `self.NAME` / `cls.NAME` / `type(self).NAME` in the methods of the class
    and its subclasses that do not rebind it, `ClassName.NAME` anywhere in the package."""
    ref_mod, ref_cls = load_reference_names()
    if not ref_mod and not ref_cls:
        return {}
    done: Dict[str, int] = {}
    stored_attrs: Set[str] = set()
    for m in model.modules.values():
        for n in ast.walk(m.tree):
            if isinstance(n, ast.Attribute) and isinstance(n.ctx, (ast.Store, ast.Del)):
                stored_attrs.add(n.attr)
    all_ref_cls_names = {a for v in ref_cls.values() for a in v}
    # names (bare or attribute) that are MUTATED somewhere: element / slice stores, augmented assignment, mutating method calls - a
    # class-level memo dictionary is state, not a constant
    MUTATORS = {'append', 'extend', 'update', 'setdefault', 'pop', 'popitem', 'clear', 'add', 'remove', 'discard', 'insert', 'sort', 'reverse',
                'fill', 'resize', 'itemset', 'put', 'setflags', '__setitem__'}
    mutated: Set[str] = set()

    def _nm(e):
        return e.attr if isinstance(e, ast.Attribute) else e.id if isinstance(e, ast.Name) else None
    for m in model.modules.values():
        for n in ast.walk(m.tree):
            if isinstance(n, ast.Subscript) and isinstance(n.ctx, (ast.Store, ast.Del)):
                b_ = n.value
                while isinstance(b_, ast.Subscript):
                    b_ = b_.value
                if _nm(b_):
                    mutated.add(_nm(b_))
            elif isinstance(n, ast.AugAssign):
                t_ = n.target
                while isinstance(t_, ast.Subscript):
                    t_ = t_.value
                if _nm(t_):
                    mutated.add(_nm(t_))
            elif isinstance(n, ast.Call) and isinstance(n.func, ast.Attribute) and n.func.attr in MUTATORS and _nm(n.func.value):
                mutated.add(_nm(n.func.value))
            elif isinstance(n, ast.keyword) and n.arg == 'out' and _nm(n.value):
                mutated.add(_nm(n.value))

    def once(body) -> Dict[str, ast.expr]:
        cnt: Dict[str, int] = {}
        val: Dict[str, ast.expr] = {}
        for st in body:
            if isinstance(st, (ast.Assign, ast.AnnAssign, ast.AugAssign)):
                tg = st.targets if isinstance(st, ast.Assign) else [st.target]
                for t in tg:
                    for x in ast.walk(t):
                        if isinstance(x, ast.Name):
                            cnt[x.id] = cnt.get(x.id, 0) + 1
                if isinstance(st, (ast.Assign, ast.AnnAssign)) and len(tg) == 1 and isinstance(tg[0], ast.Name) and st.value is not None:
                    val[tg[0].id] = st.value
        return {k: v for k, v in val.items() if cnt.get(k) == 1}

    def resolve(cands: Dict[str, ast.expr]) -> Dict[str, ast.expr]:
        """keep the pure ones; constants defined through earlier constants are expanded"""
        pure: Dict[str, ast.expr] = {}
        for _ in range(3):
            for k, v in cands.items():
                if k in pure:
                    continue
                if _pure_constant(v, set(pure), [60]):
                    v2 = copy.deepcopy(v)

                    class S(ast.NodeTransformer):
                        def visit_Name(self, n):
                            return copy.deepcopy(pure[n.id]) if n.id in pure and isinstance(n.ctx, ast.Load) else n
                    pure[k] = S().visit(v2)
        return pure

    for m in model.modules.values():
        known = ref_mod.get(m.path)
        if known is None:
            continue
        globals_ = {nm for n in ast.walk(m.tree) if isinstance(n, (ast.Global, ast.Nonlocal)) for nm in n.names}
        cands = {k: v for k, v in once(m.tree.body).items() if k not in known and k not in globals_ and k not in mutated}
        pure = resolve(cands)
        if pure:
            for fn in model.all_functions():
                if fn.module is not m:
                    continue
                shadow = set(fn.params) | {x.id for x in ast.walk(fn.node) if isinstance(x, ast.Name) and isinstance(x.ctx, (ast.Store, ast.Del))}

                class SM(ast.NodeTransformer):
                    def visit_Name(self, n):
                        if isinstance(n.ctx, ast.Load) and n.id in pure and n.id not in shadow:
                            done[n.id] = done.get(n.id, 0) + 1
                            return ast.copy_location(copy.deepcopy(pure[n.id]), n)
                        return n
                SM().visit(fn.node)
                ast.fix_missing_locations(fn.node)
    for c in model.classes.values():
        fam_known = set(ref_cls.get(c.qualname, set()))
        if c.qualname not in ref_cls:
            # a class the reference does not know at all: leave it alone
            continue
        cands = {k: v for k, v in once(c.node.body).items() if k not in fam_known and k not in all_ref_cls_names and k not in stored_attrs and k not in mutated
                 and not (k.startswith('__') and k.endswith('__'))}
        pure = resolve(cands)
        if not pure:
            continue
        family = [c] + [k for k in model.subclasses(c)]
        for k in family:
            rebound = set(once(k.node.body)) if k is not c else set()
            for fn in list(k.methods.values()) + list(k.getters.values()) + list(k.setters.values()):
                sn = fn.self_name

                class SC(ast.NodeTransformer):
                    def visit_Attribute(self, n):
                        self.generic_visit(n)
                        if isinstance(n.ctx, ast.Load) and n.attr in pure and n.attr not in rebound:
                            v = n.value
                            recv = (isinstance(v, ast.Name) and (v.id == sn or v.id in ('cls', c.name))) or \
                                   (isinstance(v, ast.Call) and isinstance(v.func, ast.Name) and v.func.id == 'type') or \
                                   (isinstance(v, ast.Attribute) and v.attr == '__class__')
                            if recv:
                                done[c.name + '.' + n.attr] = done.get(c.name + '.' + n.attr, 0) + 1
                                return ast.copy_location(copy.deepcopy(pure[n.attr]), n)
                        return n
                SC().visit(fn.node)
                ast.fix_missing_locations(fn.node)
        # ClassName.NAME anywhere else in the package
        for fn in model.all_functions():
            if fn.cls is not None and fn.cls in family:
                continue

            class SX(ast.NodeTransformer):
                def visit_Attribute(self, n):
                    self.generic_visit(n)
                    if isinstance(n.ctx, ast.Load) and n.attr in pure and isinstance(n.value, ast.Name) and n.value.id == c.name:
                        done[c.name + '.' + n.attr] = done.get(c.name + '.' + n.attr, 0) + 1
                        return ast.copy_location(copy.deepcopy(pure[n.attr]), n)
                    return n
            SX().visit(fn.node)
            ast.fix_missing_locations(fn.node)
    return done


def load_reference() -> Optional[Dict[str, Set[str]]]:
    try:
        with open(REFERENCE) as f:
            d = json.load(f)
    except OSError:
        return None
    return {k: set(v) for k, v in d['functions'].items()}


class NotInlinable(Exception):
    pass


# Line numbers inside a function that received spliced statements are SCALED: original line L becomes L*SCALE + SCALE-1,
# the i-th statement spliced at line L becomes L*SCALE + i.  Order comparisons by line number stay meaningful and the
# real line is recovered by integer division (real_line).  Untouched functions keep their real line numbers.
SCALE = 100000


def real_line(line: int) -> int:
    return line // SCALE if isinstance(line, int) and line >= SCALE else line


def _mark(stmts: List[ast.stmt], line: int) -> None:
    for s in stmts:
        for n in ast.walk(s):
            if isinstance(n, (ast.stmt, ast.expr, ast.ExceptHandler, ast.arg, ast.keyword)):
                n.lineno = line
                n.end_lineno = line
                n.col_offset = getattr(n, 'col_offset', 0)
                n.end_col_offset = getattr(n, 'end_col_offset', 0)
                n._sp = True


def _host_lines(e: ast.AST, host: ast.stmt) -> None:
    """Expressions substituted in place take the line of their host statement."""
    for n in ast.walk(e):
        if isinstance(n, (ast.expr, ast.keyword)):
            n.lineno = host.lineno
            n.end_lineno = host.lineno
            n.col_offset = getattr(n, 'col_offset', 0) or 0
            n.end_col_offset = getattr(n, 'end_col_offset', 0) or 0


def _rescale(fn_node: ast.AST) -> None:
    per_line: Dict[int, int] = {}

    def stmt(s: ast.stmt) -> None:
        if getattr(s, '_sp', False):
            k = per_line.get(s.lineno, 0) + 1
            per_line[s.lineno] = k
            new = s.lineno * SCALE + min(k, SCALE - 2)
            own = [s]
            # the statement's own expressions (not the statements of its blocks)
            for fld, v in ast.iter_fields(s):
                if fld in ('body', 'orelse', 'finalbody', 'handlers'):
                    continue
                for x in (v if isinstance(v, list) else [v]):
                    if isinstance(x, ast.AST):
                        own.extend(ast.walk(x))
            for n in own:
                if hasattr(n, 'lineno'):
                    n.lineno = new
                    n.end_lineno = new
        else:
            own = [s]
            for fld, v in ast.iter_fields(s):
                if fld in ('body', 'orelse', 'finalbody', 'handlers'):
                    continue
                for x in (v if isinstance(v, list) else [v]):
                    if isinstance(x, ast.AST):
                        own.extend(ast.walk(x))
            for n in own:
                if hasattr(n, 'lineno') and n.lineno is not None and n.lineno < SCALE:
                    end = getattr(n, 'end_lineno', None) or n.lineno
                    sp = getattr(n, '_sp', False)
                    n.lineno = n.lineno * SCALE + (SCALE - 1)
                    n.end_lineno = end * SCALE + (SCALE - 1)
        for fld in ('body', 'orelse', 'finalbody'):
            b = getattr(s, fld, None)
            if isinstance(b, list):
                for x in b:
                    if isinstance(x, ast.stmt):
                        stmt(x)
        for h in getattr(s, 'handlers', []) or []:
            h.lineno = h.lineno * SCALE + (SCALE - 1) if h.lineno < SCALE else h.lineno
            for x in h.body:
                stmt(x)

    if fn_node.lineno < SCALE:
        end = getattr(fn_node, 'end_lineno', fn_node.lineno)
        for x in fn_node.body:
            stmt(x)
        # a compound statement ends where its last statement ends
        def fix_end(s: ast.stmt) -> int:
            e = getattr(s, 'end_lineno', s.lineno)
            for fld in ('body', 'orelse', 'finalbody'):
                for x in getattr(s, fld, None) or []:
                    if isinstance(x, ast.stmt):
                        e = max(e, fix_end(x))
            for h in getattr(s, 'handlers', []) or []:
                for x in h.body:
                    e = max(e, fix_end(x))
            s.end_lineno = e
            return e
        for x in fn_node.body:
            fix_end(x)
        fn_node.lineno = fn_node.lineno * SCALE + (SCALE - 1)
        fn_node.end_lineno = end * SCALE + (SCALE - 1)


def _has_return(nodes) -> bool:
    for b in nodes:
        for n in ast.walk(b):
            if isinstance(n, ast.Return):
                return True
    return False


def _retify(stmts: List[ast.stmt], make_assign) -> Tuple[List[ast.stmt], bool]:
    """Statement list with every `return e` replaced by make_assign(e); (new list, all paths assigned)."""
    out: List[ast.stmt] = []
    for i, s in enumerate(stmts):
        if isinstance(s, ast.Return):
            out.extend(make_assign(s.value))
            return out, True
        if isinstance(s, (ast.FunctionDef, ast.AsyncFunctionDef, ast.ClassDef)):
            raise NotInlinable('nested definition')
        if _has_return([s]):
            if not isinstance(s, ast.If):
                raise NotInlinable('return inside %s' % type(s).__name__)
            rest = stmts[i + 1:]
            b, bdone = _retify(list(s.body) + copy.deepcopy(rest), make_assign)
            o, odone = _retify(list(s.orelse) + copy.deepcopy(rest), make_assign)
            new = ast.If(test=s.test, body=b or [ast.Pass()], orelse=o)
            out.append(ast.copy_location(new, s))
            return out, bdone and odone
        out.append(s)
    return out, False


class _Subst(ast.NodeTransformer):
    def __init__(self, sub: Dict[str, ast.AST], rename: Dict[str, str]):
        self.sub, self.rename = sub, rename

    def visit_Name(self, n: ast.Name):
        if n.id in self.sub and isinstance(n.ctx, ast.Load):
            return copy.deepcopy(self.sub[n.id])
        if n.id in self.rename:
            return ast.copy_location(ast.Name(id=self.rename[n.id], ctx=n.ctx), n)
        return n

    def visit_Lambda(self, n):
        return n

    def visit_arg(self, n):
        return n


class _Beta(ast.NodeTransformer):
    """(lambda a, b: E)(x, y)  ->  E[a := x, b := y]   (callables handed to a spliced helper as lambdas)."""

    def visit_Call(self, n: ast.Call):
        self.generic_visit(n)
        f = n.func
        if isinstance(f, ast.Lambda) and not n.keywords and not f.args.vararg and not f.args.kwarg and not f.args.kwonlyargs \
                and not f.args.defaults and len(f.args.posonlyargs + f.args.args) == len(n.args) \
                and not any(isinstance(a, ast.Starred) for a in n.args):
            names = [a.arg for a in f.args.posonlyargs + f.args.args]
            return _Subst(dict(zip(names, n.args)), {}).visit(copy.deepcopy(f.body))
        return n


def _stored_names(node: ast.AST) -> Set[str]:
    out = set()
    for n in ast.walk(node):
        if isinstance(n, ast.Name) and isinstance(n.ctx, (ast.Store, ast.Del)):
            out.add(n.id)
        elif isinstance(n, ast.ExceptHandler) and n.name:
            out.add(n.name)
    return out


def _body_without_doc(fn_node: ast.FunctionDef) -> List[ast.stmt]:
    body = list(fn_node.body)
    if body and isinstance(body[0], ast.Expr) and isinstance(body[0].value, ast.Constant) and isinstance(body[0].value.value, str):
        body = body[1:]
    return body


def splice(caller, callee, call: ast.Call, receiver_is_self: bool, make_assign, used_names: Set[str]) -> List[ast.stmt]:
    """Statements equivalent to evaluating `call` of callee (a FuncInfo) inside caller, feeding make_assign."""
    g = callee.node
    for n in ast.walk(g):
        if isinstance(n, (ast.Yield, ast.YieldFrom, ast.Await, ast.Global, ast.Nonlocal)):
            raise NotInlinable('generator / global')
    a = g.args
    if a.vararg or a.kwarg or any(isinstance(x, ast.Starred) for x in call.args) or any(k.arg is None for k in call.keywords):
        raise NotInlinable('star arguments')
    params = [x.arg for x in a.posonlyargs + a.args]
    sub: Dict[str, ast.AST] = {}
    bound_self = callee.kind in ('method', 'getter', 'setter', 'classmethod')
    if bound_self:
        if not params:
            raise NotInlinable('no self parameter')
        recv = call.func.value if isinstance(call.func, ast.Attribute) else None
        if recv is None:
            raise NotInlinable('unbound call of a method')
        if callee.kind == 'classmethod':
            if any(isinstance(n, ast.Name) and n.id == params[0] for b in g.body for n in ast.walk(b)):
                raise NotInlinable('classmethod uses cls')
        else:
            if not isinstance(recv, ast.Name):
                raise NotInlinable('receiver is not a plain name')
            sub[params[0]] = recv
        params = params[1:]
    if len(call.args) > len(params):
        raise NotInlinable('arity')
    given: Dict[str, ast.AST] = dict(zip(params, call.args))
    kwonly = [x.arg for x in a.kwonlyargs]
    for k in call.keywords:
        if k.arg not in params and k.arg not in kwonly:
            raise NotInlinable('unknown keyword')
        given[k.arg] = k.value
    pos = a.posonlyargs + a.args
    defaults = dict(zip([x.arg for x in pos[len(pos) - len(a.defaults):]], a.defaults))
    defaults.update({x.arg: d for x, d in zip(a.kwonlyargs, a.kw_defaults) if d is not None})
    for p in params + kwonly:
        if p not in given:
            if p not in defaults:
                raise NotInlinable('missing argument')
            given[p] = defaults[p]
    body = copy.deepcopy(_body_without_doc(g))
    stored = set()
    for b in body:
        stored |= _stored_names(b)
    pre: List[ast.stmt] = []
    rename: Dict[str, str] = {}
    loads: Dict[str, int] = {}
    for b in body:
        for n in ast.walk(b):
            if isinstance(n, ast.Name) and isinstance(n.ctx, ast.Load):
                loads[n.id] = loads.get(n.id, 0) + 1
    for p, arg in given.items():
        has_call = any(isinstance(x, (ast.Call, ast.Yield, ast.Await, ast.NamedExpr)) for x in ast.walk(arg))
        if p in stored or (has_call and loads.get(p, 0) != 1):
            # the callee rebinds its parameter: keep it a variable
            new = p if p not in used_names else '%s__%s' % (p, callee.name.strip('_'))
            rename[p] = new
            pre.append(ast.Assign(targets=[ast.Name(id=new, ctx=ast.Store())], value=copy.deepcopy(arg), lineno=call.lineno))
        else:
            sub[p] = arg
    for name in sorted(stored - set(given)):
        if name in used_names:
            rename[name] = '%s__%s' % (name, callee.name.strip('_'))
    tr = _Subst(sub, rename)
    body = [_Beta().visit(tr.visit(b)) for b in body]
    new_body, done = _retify(body, make_assign)
    if not done:
        new_body = new_body + make_assign(None) if not _always_raises(new_body) else new_body
    out = pre + new_body
    return [ast.fix_missing_locations(s) for s in out]


def _always_raises(body: List[ast.stmt]) -> bool:
    return bool(body) and isinstance(body[-1], ast.Raise)


def _single_expression(callee) -> Optional[ast.expr]:
    """The one expression a helper computes: `return E`, or a chain of call-free local bindings and guarded early returns
    (`x = <pure>` ... `if C: return K` ... `return E`), which is the conditional expression `K if C else (.. E)` - written with and / or
    / not when K is a boolean constant (`if not A: return False; return B` is `A and B`)."""
    body = _body_without_doc(callee.node)
    if len(body) == 1 and isinstance(body[0], ast.Return) and body[0].value is not None:
        return body[0].value
    if not body or not isinstance(body[-1], ast.Return) or body[-1].value is None:
        return None
    local = {}
    guards = []
    for st in body[:-1]:
        if isinstance(st, ast.Assign) and len(st.targets) == 1 and isinstance(st.targets[0], ast.Name) and not guards \
                and not any(isinstance(x, (ast.Call, ast.Lambda, ast.Yield, ast.Await, ast.NamedExpr)) for x in ast.walk(st.value)) \
                and st.targets[0].id not in local and st.targets[0].id not in callee.params:
            local[st.targets[0].id] = st.value
        elif isinstance(st, ast.If) and not st.orelse and len(st.body) == 1 and isinstance(st.body[0], ast.Return) and st.body[0].value is not None:
            guards.append((st.test, st.body[0].value))
        else:
            return None
    if not guards:
        return None

    class S(ast.NodeTransformer):
        def visit_Name(self, n):
            if isinstance(n.ctx, ast.Load) and n.id in local:
                return self.visit(copy.deepcopy(local[n.id]))
            return n
    e = copy.deepcopy(body[-1].value)
    for test, k in reversed(guards):
        test, k = copy.deepcopy(test), copy.deepcopy(k)
        if isinstance(k, ast.Constant) and k.value is False:
            neg = test.operand if isinstance(test, ast.UnaryOp) and isinstance(test.op, ast.Not) else ast.UnaryOp(op=ast.Not(), operand=test)
            e = ast.BoolOp(op=ast.And(), values=[neg, e])
        elif isinstance(k, ast.Constant) and k.value is True:
            e = ast.BoolOp(op=ast.Or(), values=[test, e])
        else:
            e = ast.IfExp(test=test, body=k, orelse=e)
    e = S().visit(e)
    return ast.fix_missing_locations(ast.copy_location(e, body[-1]))


def _blocked_positions(stmt: ast.stmt) -> Set[int]:
    """ids of calls that sit where hoisting statements in front of stmt would change what is evaluated."""
    out: Set[int] = set()

    def mark(n):
        for x in ast.walk(n):
            if isinstance(x, ast.Call):
                out.add(id(x))
    for n in ast.walk(stmt):
        if isinstance(n, (ast.Lambda, ast.ListComp, ast.SetComp, ast.DictComp, ast.GeneratorExp)):
            mark(n)
        elif isinstance(n, ast.BoolOp):
            for v in n.values[1:]:
                mark(v)
        elif isinstance(n, ast.IfExp):
            mark(n.body)
            mark(n.orelse)
    return out


class Flattener:
    def __init__(self, model, reference: Dict[str, Set[str]]):
        self.M = model
        self.ref = reference
        self.inlined: Dict[str, int] = {}          # helper qualname -> number of call sites spliced
        self.left: Dict[str, List[str]] = {}       # helper qualname -> reasons it stayed a call somewhere
        self.counter = 0

    def is_new(self, fn) -> bool:
        if fn.kind == 'nested':
            return False
        return fn.qualname not in self.ref.get(fn.path, set())

    def flatten(self, fn, depth: int = 0) -> bool:
        """Rewrite fn.node.body in place; True if anything was spliced."""
        changed = False
        for _ in range(4):
            used = {n.id for n in ast.walk(fn.node) if isinstance(n, ast.Name)} | set(fn.params)
            new_body, ch = self._block(fn, fn.node.body, used)
            if not ch:
                break
            fn.node.body = new_body
            changed = True
        if changed:
            _rescale(fn.node)
        return changed

    def _candidate(self, fn, call: ast.Call):
        g = self.M.resolve_call(fn, call)
        if g is None or g is fn or not self.is_new(g) or g.node is fn.node:
            return None
        return g

    def _block(self, fn, body: List[ast.stmt], used: Set[str]) -> Tuple[List[ast.stmt], bool]:
        out: List[ast.stmt] = []
        changed = False
        for s in body:
            if isinstance(s, (ast.FunctionDef, ast.AsyncFunctionDef, ast.ClassDef)):
                out.append(s)
                continue
            # compound statements: recurse into their blocks; their header expressions only take single-expression helpers
            for fld in ('body', 'orelse', 'finalbody'):
                sub = getattr(s, fld, None)
                if isinstance(sub, list) and sub and isinstance(sub[0], ast.stmt):
                    nb, ch = self._block(fn, sub, used)
                    if ch:
                        setattr(s, fld, nb)
                        changed = True
            if isinstance(s, ast.Try):
                for h in s.handlers:
                    nb, ch = self._block(fn, h.body, used)
                    if ch:
                        h.body = nb
                        changed = True
            if isinstance(s, (ast.Assign, ast.AnnAssign, ast.AugAssign, ast.Expr, ast.Return)):
                res = self._simple(fn, s, used)
                if res is not None:
                    out.extend(res)
                    for x in res:
                        used |= {n.id for n in ast.walk(x) if isinstance(n, ast.Name)}
                    changed = True
                    continue
            else:
                # headers (if/while tests, for iterables, with items): single-expression helpers only
                if self._headers(fn, s):
                    changed = True
            out.append(s)
        return out, changed

    def _header_exprs(self, s: ast.stmt) -> List[Tuple[ast.AST, str]]:
        out = []
        for fld in ('test', 'iter'):
            if hasattr(s, fld):
                out.append((s, fld))
        return out

    def _headers(self, fn, s: ast.stmt) -> bool:
        changed = False
        for owner, fld in self._header_exprs(s):
            e = getattr(owner, fld)
            new = self._subst_single(fn, e)
            if new is not None:
                setattr(owner, fld, new)
                _host_lines(new, owner)
                changed = True
        return changed

    def _subst_single(self, fn, e: ast.AST) -> Optional[ast.AST]:
        """e with calls of NEW single-expression helpers replaced by their expression (None if nothing changed)."""
        flat = self
        hit = [False]

        class T(ast.NodeTransformer):
            def visit_Lambda(self, n):
                return n

            def visit_Call(self, n):
                self.generic_visit(n)
                g = flat._candidate(fn, n)
                if g is None:
                    return n
                expr = _single_expression(g)
                if expr is None:
                    return n
                try:
                    stm = splice(fn, g, n, True, lambda v: [ast.Expr(value=v if v is not None else ast.Constant(value=None))], set())
                except NotInlinable as ex:
                    flat.left.setdefault(g.qualname, []).append(str(ex))
                    return n
                if len(stm) != 1 or not isinstance(stm[0], ast.Expr):
                    return n
                hit[0] = True
                flat.inlined[g.qualname] = flat.inlined.get(g.qualname, 0) + 1
                return stm[0].value
        new = T().visit(e)
        return new if hit[0] else None

    def _simple(self, fn, s: ast.stmt, used: Set[str]) -> Optional[List[ast.stmt]]:
        value = s.value
        if value is None:
            return None
        # 1. the whole right-hand side is the call: `T = h(..)`, `T[i] = h(..)`, `return h(..)`, `h(..)`
        if isinstance(value, ast.Call):
            g = self._candidate(fn, value)
            if g is not None and not isinstance(s, ast.AugAssign):
                def mk(v, s=s):
                    v = v if v is not None else ast.Constant(value=None)
                    if isinstance(s, ast.Return):
                        return [ast.Return(value=v)]
                    if isinstance(s, ast.Expr):
                        if isinstance(v, ast.Constant):
                            return []
                        return [ast.Expr(value=v)]
                    if isinstance(s, ast.Assign):
                        return [ast.Assign(targets=copy.deepcopy(s.targets), value=v, lineno=s.lineno)]
                    return [ast.AnnAssign(target=copy.deepcopy(s.target), annotation=s.annotation, value=v, simple=s.simple)]
                try:
                    # arguments first: they may contain calls of new helpers themselves (handled on the next round)
                    stm = splice(fn, g, value, True, mk, used)
                    if isinstance(s, ast.Return) and not (stm and isinstance(stm[-1], (ast.Return, ast.If, ast.Raise))):
                        raise NotInlinable('return shape')
                    self.inlined[g.qualname] = self.inlined.get(g.qualname, 0) + 1
                    stm = stm or [ast.Pass()]
                    _mark(stm, s.lineno)
                    return stm
                except NotInlinable as ex:
                    self.left.setdefault(g.qualname, []).append(str(ex))
        # 2. calls inside the expression: single-expression helpers are substituted, others hoisted in front
        blocked = _blocked_positions(s)
        hoisted: List[ast.stmt] = []
        flat = self
        hit = [False]

        class T(ast.NodeTransformer):
            def visit_Lambda(self, n):
                return n

            def visit_Call(self, n):
                self.generic_visit(n)
                g = flat._candidate(fn, n)
                if g is None:
                    return n
                expr = _single_expression(g)
                try:
                    if expr is not None:
                        stm = splice(fn, g, n, True, lambda v: [ast.Expr(value=v)], set())
                        if len(stm) == 1 and isinstance(stm[0], ast.Expr):
                            hit[0] = True
                            flat.inlined[g.qualname] = flat.inlined.get(g.qualname, 0) + 1
                            return stm[0].value
                    if id(n) in blocked:
                        raise NotInlinable('call inside a comprehension / short-circuit operand')
                    flat.counter += 1
                    tmp = '%s__ret%d' % (g.name.strip('_'), flat.counter)
                    stm = splice(fn, g, n, True, lambda v: [ast.Assign(targets=[ast.Name(id=tmp, ctx=ast.Store())],
                                                                       value=v if v is not None else ast.Constant(value=None),
                                                                       lineno=n.lineno)], used)
                    hoisted.extend(stm)
                    hit[0] = True
                    flat.inlined[g.qualname] = flat.inlined.get(g.qualname, 0) + 1
                    return ast.copy_location(ast.Name(id=tmp, ctx=ast.Load()), n)
                except NotInlinable as ex:
                    flat.left.setdefault(g.qualname, []).append(str(ex))
                    return n
        if isinstance(s, ast.Assign):
            for i, t in enumerate(s.targets):
                s.targets[i] = T().visit(t)
        s.value = T().visit(value)
        if not hit[0]:
            return None
        _mark(hoisted, s.lineno)
        _host_lines(s, s)
        return hoisted + [ast.fix_missing_locations(s)]



_VOCAB: Dict[int, set] = {}


def _vocab(fn) -> set:
    """identifiers, attribute names and node kinds occurring in the function: a cheap test that a normalisation has nothing to do
    (cached per function node during one flatten_model pass; dropped whenever a pass changed the function)"""
    if id(fn.node) in _VOCAB:
        return _VOCAB[id(fn.node)]
    out = _VOCAB[id(fn.node)] = set()
    for n in ast.walk(fn.node):
        out.add(type(n).__name__)
        if isinstance(n, ast.Attribute):
            out.add(n.attr)
        elif isinstance(n, ast.Name):
            out.add(n.id)
    return out


def normalise_slices(fn) -> int:
    """`name = slice(a, b[, c])` used only as a subscript index  ->  the literal slice at its uses (in place).

    The rules recognise block bounds as literal slices; naming the slice object first is the same access."""
    from .astutil import single_locals
    if 'slice' not in _vocab(fn):
        return 0
    defs = single_locals(fn)
    cands = {k: v for k, v in defs.items() if isinstance(v, ast.Call) and isinstance(v.func, ast.Name) and v.func.id == 'slice'
             and 2 <= len(v.args) <= 3 and not v.keywords and not any(isinstance(a, ast.Starred) for a in v.args)}
    if not cands:
        return 0
    index_uses: Dict[str, List[Tuple[ast.AST, object]]] = {k: [] for k in cands}
    other_uses: Dict[str, int] = {k: 0 for k in cands}
    index_positions = set()
    for n in ast.walk(fn.node):
        if isinstance(n, ast.Subscript):
            if isinstance(n.slice, ast.Name):
                index_positions.add(id(n.slice))
            elif isinstance(n.slice, ast.Tuple):
                for e in n.slice.elts:
                    if isinstance(e, ast.Name):
                        index_positions.add(id(e))
    for n in ast.walk(fn.node):
        if isinstance(n, ast.Name) and n.id in cands and isinstance(n.ctx, ast.Load):
            if id(n) in index_positions:
                index_uses[n.id].append(n)
            else:
                other_uses[n.id] += 1
    done = 0
    good = {k for k in cands if index_uses[k] and not other_uses[k]}
    if not good:
        return 0

    class R(ast.NodeTransformer):
        def visit_Subscript(self, n):
            self.generic_visit(n)

            def conv(e):
                if isinstance(e, ast.Name) and e.id in good and isinstance(e.ctx, ast.Load):
                    a = cands[e.id].args
                    def nn(x):
                        return None if (isinstance(x, ast.Constant) and x.value is None) else copy.deepcopy(x)
                    return ast.copy_location(ast.Slice(lower=nn(a[0]), upper=nn(a[1]), step=nn(a[2]) if len(a) == 3 else None), e)
                return e
            if isinstance(n.slice, ast.Tuple):
                n.slice.elts = [conv(e) for e in n.slice.elts]
            else:
                n.slice = conv(n.slice)
            return n

        def visit_Assign(self, n):
            self.generic_visit(n)
            if len(n.targets) == 1 and isinstance(n.targets[0], ast.Name) and n.targets[0].id in good and n.value is cands[n.targets[0].id]:
                return ast.copy_location(ast.Pass(), n)
            return n

        def visit_AnnAssign(self, n):
            self.generic_visit(n)
            if isinstance(n.target, ast.Name) and n.target.id in good and n.value is cands[n.target.id]:
                return ast.copy_location(ast.Pass(), n)
            return n
    R().visit(fn.node)
    ast.fix_missing_locations(fn.node)
    return len(good)


def normalise_gathers(fn) -> int:
    """Equivalent spellings of a gather -> plain subscripts, in place (astutil.GatherCanon), after substituting the index
    locals that only name a piece of such a spelling: a local bound ONCE to np.nonzero/flatnonzero/where(m), to
    `<such a local>[k]`, or to `np.arange(n)[slice]`, whose every use is an index position (subscript index, index
    argument of take, or the base of a constant subscript of another such local) and whose operands are not written
    between the binding and the use, is replaced by its definition at the uses."""
    from .astutil import single_locals, GatherCanon, _nonzero_mask, const_value
    from .model import norm
    if not (_vocab(fn) & {'take', 'nonzero', 'flatnonzero', 'where', 'argwhere', 'arange', 'range'}):
        return 0
    src0 = ast.dump(fn.node)
    defs = single_locals(fn)

    def piece(v) -> bool:
        if _nonzero_mask(v) is not None:
            return True
        if isinstance(v, ast.Call) and norm(v.func) in ('np.arange', 'numpy.arange') and 1 <= len(v.args) <= 2 \
                and all(k.arg == 'dtype' and 'int' in norm(k.value) for k in v.keywords):
            return True
        if isinstance(v, ast.Subscript):
            if isinstance(v.value, ast.Name) and v.value.id in cands and not isinstance(v.slice, ast.Slice):
                return True
            if _nonzero_mask(v.value) is not None:
                return True
            if isinstance(v.value, ast.Call) and norm(v.value.func) in ('np.arange', 'numpy.arange') and len(v.value.args) == 1 \
                    and isinstance(v.slice, ast.Slice):
                return True
        return False
    cands: Dict[str, ast.AST] = {}
    for _ in range(3):
        for k, v in defs.items():
            if k not in cands and k not in fn.params and piece(v):
                cands[k] = v
    # a name re-bound several times to the SAME piece (before a loop and again in the loop after its operands changed)
    multi: Dict[str, List[ast.stmt]] = {}
    binds: Dict[str, List[ast.AST]] = {}
    for n in ast.walk(fn.node):
        if isinstance(n, ast.Name) and isinstance(n.ctx, ast.Store):
            binds.setdefault(n.id, []).append(n)
    plain: Dict[str, List[ast.Assign]] = {}
    for n in ast.walk(fn.node):
        if isinstance(n, ast.Assign) and len(n.targets) == 1 and isinstance(n.targets[0], ast.Name):
            plain.setdefault(n.targets[0].id, []).append(n)
    for k, sts in plain.items():
        if k in cands or k in fn.params or len(sts) < 2 or len(binds.get(k, [])) != len(sts):
            continue
        if len({ast.dump(x.value) for x in sts}) == 1 and piece(sts[0].value):
            multi[k] = sts
            cands[k] = sts[0].value
    if cands:
        parents = {}
        for p_ in ast.walk(fn.node):
            for c in ast.iter_child_nodes(p_):
                parents[id(c)] = p_
        stores: Dict[str, List[int]] = {}
        for n in ast.walk(fn.node):
            tg = []
            if isinstance(n, ast.Assign):
                tg = n.targets
            elif isinstance(n, (ast.AugAssign, ast.AnnAssign)):
                tg = [n.target]
            for t in tg:
                root = t
                while isinstance(root, (ast.Subscript, ast.Attribute)):
                    root = root.value
                if isinstance(root, ast.Name):
                    stores.setdefault(root.id, []).append(n.lineno)
        def_line = {}
        for n in ast.walk(fn.node):
            if isinstance(n, ast.Assign) and len(n.targets) == 1 and isinstance(n.targets[0], ast.Name) and n.targets[0].id in cands \
                    and n.value is cands[n.targets[0].id]:
                def_line[n.targets[0].id] = n.lineno
        loops_ = [l for l in ast.walk(fn.node) if isinstance(l, (ast.For, ast.While))]
        good = set()
        from .astutil import mutated_names
        mutated = mutated_names(fn)
        for k, v in cands.items():
            if k not in def_line or k in mutated:
                continue
            ok = True
            uses = [n for n in ast.walk(fn.node) if isinstance(n, ast.Name) and n.id == k and isinstance(n.ctx, ast.Load)]
            if not uses:
                continue
            operands = {x.id for x in ast.walk(v) if isinstance(x, ast.Name)} - set(cands)
            for u in uses:
                par = parents.get(id(u))
                gp = parents.get(id(par)) if par is not None else None
                is_arange = isinstance(v, ast.Call) and norm(v.func) in ('np.arange', 'numpy.arange')
                idx_pos = (isinstance(par, ast.Subscript) and par.slice is u) or \
                          (isinstance(par, ast.Tuple) and isinstance(gp, ast.Subscript) and gp.slice is par) or \
                          (not is_arange and _nonzero_mask(v) is not None and isinstance(par, ast.Subscript) and par.value is u
                           and isinstance(par.ctx, ast.Load) and not isinstance(par.slice, ast.Slice)
                           and isinstance(parents.get(id(par)), (ast.Assign, ast.Subscript))) or \
                          (isinstance(par, ast.Call) and norm(par.func).split('.')[-1] == 'take' and u in par.args[-2:] and u is not par.args[0])
                if not idx_pos:
                    ok = False
                    break
                dl = def_line[k]
                if k in multi:
                    before = [d.lineno for d in multi[k] if d.lineno < u.lineno]
                    if not before:
                        ok = False
                        break
                    dl = max(before)
                for o in operands:
                    if any(dl < ln <= u.lineno for ln in stores.get(o, []) if ln != def_line.get(o)):
                        # the store AT the use line writes through this very index: it happens after the index was evaluated
                        if any(dl < ln < u.lineno for ln in stores.get(o, [])):
                            ok = False
            if ok and k in multi:
                # a binding inside a loop must be the last thing that touches its operands in that loop body (the next
                # iteration / the code after the loop reads the value of THIS binding)
                for d in multi[k]:
                    for l_ in loops_:
                        if any(d is x for x in ast.walk(l_)):
                            end = getattr(l_, 'end_lineno', None) or max(getattr(x, 'lineno', 0) for x in ast.walk(l_))
                            if any(d.lineno < ln <= end for o in operands for ln in stores.get(o, [])):
                                ok = False
            if ok:
                good.add(k)
        # a piece defined through another piece is only substitutable when that one is
        changed = True
        while changed:
            changed = False
            for k in list(good):
                deps = {x.id for x in ast.walk(cands[k]) if isinstance(x, ast.Name) and x.id in cands}
                if deps - good:
                    good.discard(k)
                    changed = True
        if good:
            class S(ast.NodeTransformer):
                def visit_Name(self, n):
                    if n.id in good and isinstance(n.ctx, ast.Load):
                        return ast.copy_location(S().visit(copy.deepcopy(cands[n.id])), n)
                    return n

                def visit_Assign(self, n):
                    if len(n.targets) == 1 and isinstance(n.targets[0], ast.Name) and n.targets[0].id in good and \
                            (n.value is cands[n.targets[0].id] or any(n is d for d in multi.get(n.targets[0].id, []))):
                        return ast.copy_location(ast.Pass(), n)
                    self.generic_visit(n)
                    return n
            S().visit(fn.node)
    GatherCanon().visit(fn.node)
    ast.fix_missing_locations(fn.node)
    return int(ast.dump(fn.node) != src0)


# positional signatures (name, default source text or None = required) of the library functions the rules look at
LIB_SIGNATURES = {
    'np.reshape': [('a', None), ('newshape', None), ('order', "'C'")],
    'np.zeros': [('shape', None), ('dtype', 'float'), ('order', "'C'")],
    'np.ones': [('shape', None), ('dtype', None), ('order', "'C'")],
    'np.empty': [('shape', None), ('dtype', 'float'), ('order', "'C'")],
    'np.arange': None,                                   # start/stop overloads: keywords are left alone
    'np.eye': [('N', None), ('M', 'None'), ('k', '0'), ('dtype', 'float')],
    'np.sum': [('a', None), ('axis', 'None')],
    'np.mean': [('a', None), ('axis', 'None')],
    'np.argsort': [('a', None), ('axis', '-1')],
    'np.tile': [('A', None), ('reps', None)],
    'np.repeat': [('a', None), ('repeats', None), ('axis', 'None')],
    'np.linalg.norm': [('x', None), ('ord', 'None'), ('axis', 'None')],
    'np.linalg.svd': [('a', None), ('full_matrices', 'True'), ('compute_uv', 'True')],
    'np.linalg.qr': [('a', None), ('mode', "'reduced'")],
    'np.linalg.pinv': [('a', None), ('rcond', None), ('hermitian', 'False')],
    'np.linalg.inv': [('a', None)],
    'np.fft.fft': [('a', None), ('n', 'None'), ('axis', '-1'), ('norm', 'None')],
    'np.fft.ifft': [('a', None), ('n', 'None'), ('axis', '-1'), ('norm', 'None')],
    'np.dot': [('a', None), ('b', None)],
    'np.broadcast_arrays': None,
    'open': [('file', None), ('mode', "'r'")],
    'os.replace': [('src', None), ('dst', None)],
    'os.rename': [('src', None), ('dst', None)],
    'pickle.dump': [('obj', None), ('file', None), ('protocol', None)],
    'json.dump': [('obj', None), ('fp', None)],
}
DROPPABLE_KW = {'np.broadcast_arrays': {'subok': 'False'}, 'pickle.dump': {'fix_imports': 'True'}, 'np.empty': {}, 'np.linalg.svd': {'hermitian': 'False'},
                'json.dumps': {'ensure_ascii': 'True', 'allow_nan': 'True'}}
METHOD_SIGNATURES = {'flatten': [('order', "'C'")], 'ravel': [('order', "'C'")], 'sum': [('axis', 'None')], 'reshape': None}


def normalise_calls(model, fn) -> int:
    """Call style, in place: (1) a call of a name bound (at module level or in the function) to `functools.partial(f, fixed...)` is
    replaced by the call of f with the fixed arguments; (2) keyword arguments of a call whose callee is a function of the
    repository (resolved) or a library function of the signature table are moved to their positional slots; (3) trailing
    arguments that only repeat the callee's default are dropped.  The result is the spelling the code used before
    "keyword arguments / explicit defaults" clean-ups, so that rules see one form."""
    from .model import norm
    from .astutil import single_locals
    if 'Call' not in _vocab(fn):
        return 0
    src0 = ast.dump(fn.node)
    # ---- (1) functools.partial aliases
    partials = {}
    for n in fn.module.tree.body:
        if isinstance(n, ast.Assign) and len(n.targets) == 1 and isinstance(n.targets[0], ast.Name) and isinstance(n.value, ast.Call) \
                and norm(n.value.func) in ('functools.partial', 'partial') and n.value.args:
            partials[n.targets[0].id] = n.value
    for k, v in single_locals(fn).items():
        if isinstance(v, ast.Call) and norm(v.func) in ('functools.partial', 'partial') and v.args:
            partials[k] = v
    # a small local closure / lambda that only forwards to one call with fixed keyword arguments is left to the helper splicing

    class P(ast.NodeTransformer):
        def visit_Call(self, c):
            self.generic_visit(c)
            if isinstance(c.func, ast.Name) and c.func.id in partials:
                pc = partials[c.func.id]
                new = ast.Call(func=copy.deepcopy(pc.args[0]), args=[copy.deepcopy(a) for a in pc.args[1:]] + c.args,
                               keywords=[copy.deepcopy(k) for k in pc.keywords if k.arg not in {x.arg for x in c.keywords}] + c.keywords)
                return ast.copy_location(new, c)
            return c

        def visit_Assign(self, a):
            if len(a.targets) == 1 and isinstance(a.targets[0], ast.Name) and a.targets[0].id in partials and a.value is partials[a.targets[0].id]:
                return ast.copy_location(ast.Pass(), a)
            self.generic_visit(a)
            return a
    if partials:
        P().visit(fn.node)

    # ---- (2) + (3)
    def signature_of(c: ast.Call):
        f = norm(c.func)
        if f in LIB_SIGNATURES:
            return LIB_SIGNATURES[f], f
        if f.startswith('numpy.') and 'np.' + f[6:] in LIB_SIGNATURES:
            return LIB_SIGNATURES['np.' + f[6:]], 'np.' + f[6:]
        g = None
        try:
            g = model.resolve_call(fn, c)
        except Exception:
            g = None
        if g is None and isinstance(c.func, ast.Name):
            try:
                g = model.resolve_function(fn.module, c.func)
            except Exception:
                g = None
        if g is None and isinstance(c.func, ast.Attribute):
            # a method name defined exactly once in the package with that name, or by every definition with the same signature
            idx = model.__dict__.get('_fn_by_name')
            if idx is None:
                idx = {}
                for h in model.all_functions():
                    if h.kind != 'nested':
                        idx.setdefault(h.name, []).append(h)
                model.__dict__['_fn_by_name'] = idx
            cands = idx.get(c.func.attr, [])
            sigs = {tuple(x.arg for x in h.node.args.posonlyargs + h.node.args.args) for h in cands}
            if cands and len(sigs) == 1 and not any(h.node.args.vararg or h.node.args.kwarg for h in cands) \
                    and len({ast.dump(ast.Tuple(elts=list(h.node.args.defaults), ctx=ast.Load())) for h in cands}) == 1:
                g = cands[0]
        if g is None:
            if isinstance(c.func, ast.Attribute) and c.func.attr in METHOD_SIGNATURES and norm(c.func.value) not in ('np', 'numpy'):
                return METHOD_SIGNATURES[c.func.attr], '.' + c.func.attr
            return None, f
        a = g.node.args
        if a.vararg is not None:
            return None, f
        names = [x.arg for x in a.posonlyargs + a.args]
        defaults = [None] * (len(names) - len(a.defaults)) + [norm(d) for d in a.defaults]
        sig = list(zip(names, defaults))
        bound = g.kind in ('method', 'getter', 'setter', 'classmethod') and not (isinstance(c.func, ast.Attribute) and isinstance(c.func.value, ast.Name)
                                                                                  and c.func.value.id in model.classes and g.kind == 'method')
        if bound and sig and sig[0][0] in ('self', 'cls'):
            sig = sig[1:]
        if g.kind == 'static' and False:
            pass
        return sig, g.qualname

    changed = 0
    for c in ast.walk(fn.node):
        if not isinstance(c, ast.Call) or any(isinstance(x, ast.Starred) for x in c.args) or any(k.arg is None for k in c.keywords):
            continue
        sig, name = signature_of(c)
        drop = DROPPABLE_KW.get(name, {})
        if drop:
            c.keywords = [k for k in c.keywords if not (k.arg in drop and norm(k.value) == drop[k.arg])]
        if not sig:
            continue
        names = [n for n, _ in sig]
        if len(c.args) > len(names) or any(k.arg not in names for k in c.keywords):
            continue
        kw = {k.arg: k.value for k in c.keywords}
        if any(n in kw for n in names[:len(c.args)]):
            continue
        new_args = list(c.args)
        ok = True
        for n, d in sig[len(c.args):]:
            if n in kw:
                new_args.append(kw.pop(n))
            elif kw:
                # a gap: fill with the default when it is known, else keep the remaining keywords
                if d is None:
                    ok = False
                    break
                new_args.append(ast.parse(d, mode='eval').body)
            else:
                break
        if not ok or kw:
            continue
        # drop trailing arguments that repeat the default
        while new_args and len(new_args) > 0:
            n, d = sig[len(new_args) - 1]
            if d is not None and norm(new_args[-1]).replace('"', "'") == d:
                new_args.pop()
            else:
                break
        if [ast.dump(x) for x in new_args] != [ast.dump(x) for x in c.args] or c.keywords:
            c.args = new_args
            c.keywords = []
            changed += 1
    if ast.dump(fn.node) != src0:
        ast.fix_missing_locations(fn.node)
        return 1
    return 0


def normalise_range_elements(fn) -> int:
    """`levels = range(a, b, s)` ... `levels[j]`  ->  `a + j * s`, in place, when `levels` is a local bound exactly once to a range / np.arange
    of plain arguments, used only as `levels[<index>]`, and every index is a loop variable of a `for .. in range(..)` that starts at a
    non-negative constant (so it cannot be negative) or a non-negative integer constant.  Element j of an arithmetic progression IS
    a + j s; rules that read grid coordinates expect the arithmetic."""
    from .astutil import single_locals
    from .model import norm
    voc = _vocab(fn)
    if not (voc & {'range', 'arange'}) or 'Subscript' not in voc:
        return 0
    defs = {}
    for k, v in single_locals(fn).items():
        if isinstance(v, ast.Call) and norm(v.func) in ('range', 'np.arange', 'numpy.arange') and 1 <= len(v.args) <= 3 and not v.keywords \
                and not any(isinstance(x, (ast.Call, ast.Starred)) for a in v.args for x in ast.walk(a)) and k not in fn.params:
            defs[k] = v
    if not defs:
        return 0
    nonneg = set()
    for n in ast.walk(fn.node):
        if isinstance(n, ast.For) and isinstance(n.target, ast.Name) and isinstance(n.iter, ast.Call) and norm(n.iter.func) == 'range' \
                and 1 <= len(n.iter.args) <= 3:
            a = n.iter.args
            start_ok = len(a) == 1 or (isinstance(a[0], ast.Constant) and isinstance(a[0].value, int) and a[0].value >= 0)
            step_ok = len(a) < 3 or (isinstance(a[2], ast.Constant) and isinstance(a[2].value, int) and a[2].value > 0)
            if start_ok and step_ok:
                nonneg.add(n.target.id)
    # every use of the name must be an element subscript with an admissible index
    uses = {k: [] for k in defs}
    bad = set()
    parents = {}
    for n in ast.walk(fn.node):
        for ch in ast.iter_child_nodes(n):
            parents[id(ch)] = n
    for n in ast.walk(fn.node):
        if isinstance(n, ast.Name) and n.id in defs and isinstance(n.ctx, ast.Load):
            p = parents.get(id(n))
            ok = isinstance(p, ast.Subscript) and p.value is n and isinstance(p.ctx, ast.Load) and (
                (isinstance(p.slice, ast.Name) and p.slice.id in nonneg)
                or (isinstance(p.slice, ast.Constant) and isinstance(p.slice.value, int) and p.slice.value >= 0))
            if ok:
                uses[n.id].append(p)
            else:
                bad.add(n.id)
    done = 0
    repl = {}
    for k, subs in uses.items():
        if k in bad or not subs:
            continue
        a = defs[k].args
        start = a[0] if len(a) >= 2 else ast.Constant(value=0)
        step = a[2] if len(a) == 3 else ast.Constant(value=1)
        for p in subs:
            idx = copy.deepcopy(p.slice)
            term = idx if (isinstance(step, ast.Constant) and step.value == 1) else ast.BinOp(left=idx, op=ast.Mult(), right=copy.deepcopy(step))
            new = term if (isinstance(start, ast.Constant) and start.value == 0) else ast.BinOp(left=copy.deepcopy(start), op=ast.Add(), right=term)
            repl[id(p)] = new
            done += 1
    if not done:
        return 0

    class R(ast.NodeTransformer):
        def visit_Subscript(self, n):
            if id(n) in repl:
                return ast.copy_location(repl[id(n)], n)
            self.generic_visit(n)
            return n
    R().visit(fn.node)
    ast.fix_missing_locations(fn.node)
    return 1


def normalise_fro_norms(fn) -> int:
    """Spellings of the Frobenius norm (Euclidean norm of all entries) and of its square -> `np.linalg.norm(X, 'fro')` [** 2], in place:

        np.vdot(X, X).real, np.real(np.vdot(X, X))                          energy
        np.sum(np.abs(X) ** 2), np.sum(np.absolute(X) ** 2)                 energy
        np.sum(X * X.conj()).real, np.sum(np.conj(X) * X).real  (+ np.real) energy
        np.sum(X.real ** 2 + X.imag ** 2)                                   energy
        np.trace(X.conj().T @ X).real / np.trace(np.dot(X.conj().T, X)).real  energy
        np.sqrt(energy) / math.sqrt(energy) / energy ** 0.5                 norm
        np.linalg.norm(X)                  (no ord, no axis)                norm

    The rules know the norm as np.linalg.norm(., 'fro'); every one of these is the same function of the entries of X."""
    from .model import norm
    voc = _vocab(fn)
    if not (voc & {'vdot', 'sum', 'trace', 'norm'}):
        return 0
    done = 0

    def same(a, b) -> bool:
        return norm(a) == norm(b)

    def conj_of(e):
        """X if e is X.conj() / X.conjugate() / np.conj(X) / np.conjugate(X)"""
        if isinstance(e, ast.Call) and isinstance(e.func, ast.Attribute) and e.func.attr in ('conj', 'conjugate') and not e.args \
                and not (isinstance(e.func.value, ast.Name) and e.func.value.id in ('np', 'numpy')):
            return e.func.value
        if isinstance(e, ast.Call) and norm(e.func) in ('np.conj', 'np.conjugate') and len(e.args) == 1:
            return e.args[0]
        return None

    def herm_of(e):
        """X if e is X.conj().T / X.T.conj() / X.conjugate().transpose() ..."""
        if isinstance(e, ast.Attribute) and e.attr == 'T':
            return conj_of(e.value)
        if isinstance(e, ast.Call) and isinstance(e.func, ast.Attribute) and e.func.attr == 'transpose' and not e.args:
            return conj_of(e.func.value)
        c = conj_of(e)
        if c is not None:
            if isinstance(c, ast.Attribute) and c.attr == 'T':
                return c.value
            if isinstance(c, ast.Call) and isinstance(c.func, ast.Attribute) and c.func.attr == 'transpose' and not c.args:
                return c.func.value
        return None

    def real_of(e):
        if isinstance(e, ast.Attribute) and e.attr == 'real':
            return e.value
        if isinstance(e, ast.Call) and norm(e.func) == 'np.real' and len(e.args) == 1:
            return e.args[0]
        return None

    def is_two(e) -> bool:
        return isinstance(e, ast.Constant) and e.value in (2, 2.0)

    def energy_arg(e):
        """X if e is one of the energy spellings of X"""
        r = real_of(e)
        if r is not None:
            if isinstance(r, ast.Call) and norm(r.func) in ('np.vdot', 'np.dot') and len(r.args) == 2 and not r.keywords:
                if norm(r.func) == 'np.vdot' and same(r.args[0], r.args[1]):
                    return r.args[0]
            if isinstance(r, ast.Call) and norm(r.func) == 'np.sum' and len(r.args) == 1 and not r.keywords \
                    and isinstance(r.args[0], ast.BinOp) and isinstance(r.args[0].op, ast.Mult):
                a, b = r.args[0].left, r.args[0].right
                for x, y in ((a, b), (b, a)):
                    cx_ = conj_of(y)
                    if cx_ is not None and same(x, cx_):
                        return x
            if isinstance(r, ast.Call) and norm(r.func) == 'np.trace' and len(r.args) == 1 and not r.keywords:
                p_ = r.args[0]
                ops = None
                if isinstance(p_, ast.BinOp) and isinstance(p_.op, ast.MatMult):
                    ops = (p_.left, p_.right)
                elif isinstance(p_, ast.Call) and norm(p_.func) == 'np.dot' and len(p_.args) == 2:
                    ops = (p_.args[0], p_.args[1])
                elif isinstance(p_, ast.Call) and isinstance(p_.func, ast.Attribute) and p_.func.attr == 'dot' and len(p_.args) == 1:
                    ops = (p_.func.value, p_.args[0])
                if ops is not None:
                    for x, y in (ops, ops[::-1]):
                        h = herm_of(x)
                        if h is not None and same(h, y):
                            return y
            return None
        if isinstance(e, ast.Call) and norm(e.func) == 'np.sum' and len(e.args) == 1 and not e.keywords:
            a0 = e.args[0]
            if isinstance(a0, ast.BinOp) and isinstance(a0.op, ast.Pow) and is_two(a0.right) and isinstance(a0.left, ast.Call) \
                    and norm(a0.left.func) in ('np.abs', 'np.absolute', 'abs') and len(a0.left.args) == 1:
                return a0.left.args[0]
            if isinstance(a0, ast.BinOp) and isinstance(a0.op, ast.Add):
                def sq_part(x, part):
                    return x.left.value if isinstance(x, ast.BinOp) and isinstance(x.op, ast.Pow) and is_two(x.right) \
                        and isinstance(x.left, ast.Attribute) and x.left.attr == part else None
                for l_, r_ in ((a0.left, a0.right), (a0.right, a0.left)):
                    xr, xi = sq_part(l_, 'real'), sq_part(r_, 'imag')
                    if xr is not None and xi is not None and same(xr, xi):
                        return xr
        return None

    def fro(x):
        return ast.Call(func=ast.Attribute(value=ast.Attribute(value=ast.Name(id='np', ctx=ast.Load()), attr='linalg', ctx=ast.Load()),
                                           attr='norm', ctx=ast.Load()), args=[copy.deepcopy(x), ast.Constant(value='fro')], keywords=[])

    class R(ast.NodeTransformer):
        def visit(self, n):
            nonlocal done
            # outermost first: sqrt(energy) must be seen before its inner energy is rewritten
            if isinstance(n, ast.Call) and norm(n.func) in ('np.sqrt', 'math.sqrt') and len(n.args) == 1 and not n.keywords:
                x = energy_arg(n.args[0])
                if x is not None:
                    done += 1
                    return ast.copy_location(fro(self.visit(x)), n)
            if isinstance(n, ast.BinOp) and isinstance(n.op, ast.Pow) and isinstance(n.right, ast.Constant) and n.right.value == 0.5:
                x = energy_arg(n.left)
                if x is not None:
                    done += 1
                    return ast.copy_location(fro(self.visit(x)), n)
            x = energy_arg(n) if isinstance(n, ast.expr) else None
            if x is not None:
                done += 1
                return ast.copy_location(ast.BinOp(left=fro(self.visit(x)), op=ast.Pow(), right=ast.Constant(value=2)), n)
            if isinstance(n, ast.Call) and norm(n.func) in ('np.linalg.norm', 'numpy.linalg.norm', 'linalg.norm') and len(n.args) == 1 and not n.keywords:
                done += 1
                n = ast.copy_location(ast.Call(func=n.func, args=[n.args[0], ast.Constant(value='fro')], keywords=[]), n)
            return super().visit(n)
    R().visit(fn.node)
    if done:
        ast.fix_missing_locations(fn.node)
    return int(done > 0)


def normalise_format_and_getattr(fn) -> int:
    """Two spellings that appear when literals are moved into named constants, folded back in place:
    (1) `'{0}{1}'.format(name, '.tmp')`  ->  `'{0}.tmp'.format(name)`: constant string arguments of str.format on a literal template
        (plain `{}` / `{k}` fields, no conversion or format spec) are written into the template, the remaining fields renumbered;
    (2) `getattr(X, {'a': 'f', 'b': 'g'}[key])`  ->  `{'a': X.f, 'b': X.g}[key]`: a dispatch through a table of METHOD NAMES is the table of
        the bound attributes (identifier strings only)."""
    import string
    voc = _vocab(fn)
    if 'format' not in voc and 'getattr' not in voc:
        return 0
    done = 0

    class R(ast.NodeTransformer):
        def visit_Call(self, c):
            nonlocal done
            self.generic_visit(c)
            if isinstance(c.func, ast.Attribute) and c.func.attr == 'format' and isinstance(c.func.value, ast.Constant) \
                    and isinstance(c.func.value.value, str) and not c.keywords and c.args \
                    and any(isinstance(a, ast.Constant) and isinstance(a.value, str) for a in c.args) \
                    and not any(isinstance(a, ast.Starred) for a in c.args):
                try:
                    parts = list(string.Formatter().parse(c.func.value.value))
                except ValueError:
                    return c
                auto = 0
                fields = []
                for lit, name, spec, conv in parts:
                    if name is None:
                        fields.append((lit, None))
                        continue
                    if spec or conv:
                        return c
                    if name == '':
                        k = auto
                        auto += 1
                    elif name.isdigit():
                        k = int(name)
                    else:
                        return c
                    if k >= len(c.args):
                        return c
                    fields.append((lit, k))
                keep = [i for i, a in enumerate(c.args) if not (isinstance(a, ast.Constant) and isinstance(a.value, str))]
                renum = {old: new for new, old in enumerate(keep)}
                out = ''
                for lit, k in fields:
                    out += lit.replace('{', '{{').replace('}', '}}')
                    if k is None:
                        continue
                    a = c.args[k]
                    if isinstance(a, ast.Constant) and isinstance(a.value, str):
                        out += a.value.replace('{', '{{').replace('}', '}}')
                    else:
                        out += '{%d}' % renum[k]
                done += 1
                new = ast.Call(func=ast.Attribute(value=ast.Constant(value=out), attr='format', ctx=ast.Load()),
                               args=[c.args[i] for i in keep], keywords=[])
                return ast.copy_location(new, c)
            if isinstance(c.func, ast.Name) and c.func.id == 'getattr' and len(c.args) == 2 and not c.keywords \
                    and isinstance(c.args[1], ast.Subscript) and isinstance(c.args[1].value, ast.Dict) and c.args[1].value.keys \
                    and all(isinstance(v, ast.Constant) and isinstance(v.value, str) and v.value.isidentifier() for v in c.args[1].value.values) \
                    and all(k is not None for k in c.args[1].value.keys) and isinstance(c.args[0], (ast.Name, ast.Attribute)):
                d = c.args[1].value
                table = ast.Dict(keys=d.keys, values=[ast.Attribute(value=copy.deepcopy(c.args[0]), attr=v.value, ctx=ast.Load()) for v in d.values])
                done += 1
                return ast.copy_location(ast.Subscript(value=table, slice=c.args[1].slice, ctx=ast.Load()), c)
            return c
    R().visit(fn.node)
    if done:
        ast.fix_missing_locations(fn.node)
    return int(done > 0)


def normalise_return_temps(fn, ref_locals: Optional[Set[str]] = None) -> int:
    """`tmp = E` directly followed by `return tmp`, with `tmp` occurring nowhere else in the function  ->  `return E`, in place - only for a
    `tmp` that the reference function does not have (ref_locals: the reference function's locals; None = function unknown to the reference,
    left alone).  A result named just before it is returned is the same return."""
    if ref_locals is None:
        return 0
    counts: Dict[str, int] = {}
    for n in ast.walk(fn.node):
        if isinstance(n, ast.Name):
            counts[n.id] = counts.get(n.id, 0) + 1

    def blocks():
        for x in ast.walk(fn.node):
            for fld in ('body', 'orelse', 'finalbody'):
                b = getattr(x, fld, None)
                if isinstance(b, list) and b and isinstance(b[0], ast.stmt):
                    yield b

    def is_pair(a, r) -> Optional[str]:
        if isinstance(a, ast.Assign) and len(a.targets) == 1 and isinstance(a.targets[0], ast.Name) and isinstance(r, ast.Return) \
                and isinstance(r.value, ast.Name) and r.value.id == a.targets[0].id \
                and not any(isinstance(z, ast.Name) and z.id == a.targets[0].id for z in ast.walk(a.value)):
            return a.targets[0].id
        return None
    pairs: Dict[str, int] = {}
    for b in blocks():
        for j in range(len(b) - 1):
            nm = is_pair(b[j], b[j + 1])
            if nm:
                pairs[nm] = pairs.get(nm, 0) + 1
    eligible = {nm for nm, k in pairs.items() if nm not in ref_locals and nm not in fn.params and counts.get(nm, 0) == 2 * k}
    if not eligible:
        return 0
    done = 0
    for b in list(blocks()):
        i = 0
        while i + 1 < len(b):
            nm = is_pair(b[i], b[i + 1])
            if nm in eligible:
                b[i:i + 2] = [ast.copy_location(ast.Return(value=b[i].value), b[i + 1])]
                done += 1
            i += 1
    if done:
        ast.fix_missing_locations(fn.node)
    return int(done > 0)


def normalise_single_use_temps(fn, ref_locals: Optional[Set[str]] = None) -> int:
    """`tmp = E` directly followed by a simple statement that uses `tmp` exactly once, `tmp` occurring nowhere else in the function and
    unknown to the reference function  ->  the statement with E in place of tmp (in place; repeated until nothing changes).  Naming an
    argument just before the call that takes it is the same computation; rules read the nested form they were confirmed on."""
    if ref_locals is None:
        return 0
    done = 0
    for _ in range(4):
        counts: Dict[str, int] = {}
        stores: Dict[str, int] = {}
        for n in ast.walk(fn.node):
            if isinstance(n, ast.Name):
                counts[n.id] = counts.get(n.id, 0) + 1
                if isinstance(n.ctx, (ast.Store, ast.Del)):
                    stores[n.id] = stores.get(n.id, 0) + 1
        changed = False
        for x in ast.walk(fn.node):
            for fld in ('body', 'orelse', 'finalbody'):
                b = getattr(x, fld, None)
                if not (isinstance(b, list) and b and isinstance(b[0], ast.stmt)):
                    continue
                i = 0
                while i + 1 < len(b):
                    a, nx = b[i], b[i + 1]
                    if isinstance(a, ast.Assign) and len(a.targets) == 1 and isinstance(a.targets[0], ast.Name) \
                            and isinstance(nx, (ast.Assign, ast.AugAssign, ast.AnnAssign, ast.Expr, ast.Return)):
                        nm = a.targets[0].id
                        uses = [z for z in ast.walk(nx) if isinstance(z, ast.Name) and z.id == nm and isinstance(z.ctx, ast.Load)]
                        if nm not in ref_locals and nm not in fn.params and counts.get(nm, 0) == 2 and stores.get(nm, 0) == 1 and len(uses) == 1 \
                                and not any(isinstance(z, ast.Name) and z.id == nm for z in ast.walk(a.value)) \
                                and not any(isinstance(z, (ast.Lambda, ast.ListComp, ast.SetComp, ast.DictComp, ast.GeneratorExp)) and
                                            any(u is uses[0] for u in ast.walk(z)) for z in ast.walk(nx)):
                            val = a.value

                            class S(ast.NodeTransformer):
                                def visit_Name(self, n_):
                                    return ast.copy_location(val, n_) if n_ is uses[0] else n_
                            b[i + 1] = S().visit(nx)
                            del b[i]
                            counts[nm] = 0
                            done += 1
                            changed = True
                            continue
                    i += 1
        if not changed:
            break
    if done:
        ast.fix_missing_locations(fn.node)
    return int(done > 0)


def normalise_else_after_exit(fn) -> int:
    """`if c: <block that always returns / raises> else: REST`  ->  `if c: <block>` followed by REST, in place (the early-exit form; an elif
    chain is a nested if in the else and is flattened the same way).  The two are the same control flow; the path rules and the recognisers
    of guards read the early-exit form."""
    from .astutil import always_exits
    if 'If' not in _vocab(fn):
        return 0
    done = 0

    def fix(body: List[ast.stmt]) -> List[ast.stmt]:
        nonlocal done
        out: List[ast.stmt] = []
        for st in body:
            for fld in ('body', 'orelse', 'finalbody'):
                b = getattr(st, fld, None)
                if isinstance(b, list) and b and isinstance(b[0], ast.stmt):
                    setattr(st, fld, fix(b))
            if isinstance(st, ast.Try):
                for h in st.handlers:
                    h.body = fix(h.body)
            if isinstance(st, ast.If) and st.orelse and always_exits(st.body):
                rest = st.orelse
                st.orelse = []
                if getattr(st.body[-1], 'end_lineno', None) is not None:
                    st.end_lineno = st.body[-1].end_lineno          # the statement now ends where its body ends
                out.append(st)
                out.extend(rest)
                done += 1
            elif isinstance(st, ast.If) and st.orelse and always_exits(st.orelse) and not always_exits(st.body) \
                    and not (len(st.orelse) == 1 and isinstance(st.orelse[0], ast.If)):
                # `if c: REST else: <exit>`  ->  `if not c: <exit>` followed by REST
                rest = st.body
                st.test = ast.copy_location(ast.UnaryOp(op=ast.Not(), operand=st.test), st.test)
                st.body, st.orelse = st.orelse, []
                out.append(st)
                out.extend(rest)
                done += 1
                # source order: the exit block used to FOLLOW the rest; give it the position of the `if` itself
                for x_ in ast.walk(ast.Module(body=st.body, type_ignores=[])):
                    if hasattr(x_, 'lineno'):
                        x_.lineno = st.lineno
                        x_.end_lineno = st.lineno
                st.end_lineno = st.lineno
            else:
                out.append(st)
        return out
    fn.node.body = fix(fn.node.body)
    if done:
        ast.fix_missing_locations(fn.node)
    return int(done > 0)


def normalise_range_zero(fn) -> int:
    """`range(0, n)` -> `range(n)`, `np.arange(0, n)` -> `np.arange(n)` (two positional arguments, the first the constant 0), in place."""
    from .model import norm
    if not (_vocab(fn) & {'range', 'arange'}):
        return 0
    done = 0

    class R(ast.NodeTransformer):
        def visit_Call(self, c):
            nonlocal done
            self.generic_visit(c)
            if norm(c.func) in ('range', 'np.arange', 'numpy.arange') and len(c.args) == 2 and not c.keywords \
                    and isinstance(c.args[0], ast.Constant) and c.args[0].value == 0 and not isinstance(c.args[0].value, bool) \
                    and not any(isinstance(a, ast.Starred) for a in c.args):
                c.args = c.args[1:]
                done += 1
            return c
    R().visit(fn.node)
    return int(done > 0)


def normalise_yoda(fn) -> int:
    """`0 < x` -> `x > 0`, `'' == ext` -> `ext == ''`, `Result.MISCTYPE == code` -> `code == Result.MISCTYPE`: a single comparison with a
    CONSTANT (literal, signed literal, ALL-CAPS attribute / name) on the left and a non-constant on the right is written with the constant
    on the right, in place.  Chained comparisons are left alone."""
    if 'Compare' not in _vocab(fn):
        return 0
    SW = {ast.Lt: ast.Gt, ast.Gt: ast.Lt, ast.LtE: ast.GtE, ast.GtE: ast.LtE, ast.Eq: ast.Eq, ast.NotEq: ast.NotEq}
    done = 0

    def const(e) -> bool:
        if isinstance(e, ast.Constant) and e.value is not None:
            return True
        if isinstance(e, ast.UnaryOp) and isinstance(e.op, (ast.USub, ast.UAdd)) and isinstance(e.operand, ast.Constant):
            return True
        if isinstance(e, ast.Attribute) and e.attr.isupper() and len(e.attr) > 1:
            return True
        if isinstance(e, ast.Name) and e.id.isupper() and len(e.id) > 2:
            return True
        return False

    class R(ast.NodeTransformer):
        def visit_Compare(self, n):
            nonlocal done
            self.generic_visit(n)
            if len(n.ops) == 1 and type(n.ops[0]) in SW and const(n.left) and not const(n.comparators[0]):
                done += 1
                return ast.copy_location(ast.Compare(left=n.comparators[0], ops=[SW[type(n.ops[0])]()], comparators=[n.left]), n)
            return n
    R().visit(fn.node)
    if done:
        ast.fix_missing_locations(fn.node)
    return int(done > 0)


def normalise_negations(fn) -> int:
    """Negations written out, in place: `not (a is None)` -> `a is not None` (is / is not / == / != / in / not in; never the ordering
    comparisons, whose negation differs for NaN), `not not x` -> `x` in a test position, and `if not X: B else: A` -> `if X: A else: B`
    (also conditional expressions).  One polarity per test: the path rules and the guard recognisers read tests as written."""
    if not ({'Not', 'NotEq', 'NotIn'} & _vocab(fn)):
        return 0
    done = 0
    FLIP = {ast.Is: ast.IsNot, ast.IsNot: ast.Is, ast.Eq: ast.NotEq, ast.NotEq: ast.Eq, ast.In: ast.NotIn, ast.NotIn: ast.In}

    def push(e):
        """e without a leading `not` where that can be written out; (expr, changed)"""
        if isinstance(e, ast.UnaryOp) and isinstance(e.op, ast.Not):
            x = e.operand
            if isinstance(x, ast.UnaryOp) and isinstance(x.op, ast.Not):
                return push(x.operand)[0], True
            if isinstance(x, ast.Compare) and len(x.ops) == 1 and type(x.ops[0]) in FLIP:
                return ast.copy_location(ast.Compare(left=x.left, ops=[FLIP[type(x.ops[0])]()], comparators=x.comparators), e), True
        return e, False

    class R(ast.NodeTransformer):
        def visit_UnaryOp(self, n):
            nonlocal done
            self.generic_visit(n)
            new, ch = push(n)
            if ch and not (isinstance(new, ast.UnaryOp)) and isinstance(n.operand, ast.Compare):
                done += 1
                return new
            return n

        def _test(self, n):
            nonlocal done
            new, ch = push(n.test)
            if ch:
                n.test = new
                done += 1

        def visit_If(self, n):
            nonlocal done
            self.generic_visit(n)
            self._test(n)
            if n.orelse and not (len(n.orelse) == 1 and isinstance(n.orelse[0], ast.If)) \
                    and isinstance(n.test, ast.UnaryOp) and isinstance(n.test.op, ast.Not):
                n.test, n.body, n.orelse = n.test.operand, n.orelse, n.body
                done += 1
            # a two-branch `if a != b: X else: Y` is `if a == b: Y else: X` (one polarity for equality dispatch)
            if n.orelse and not (len(n.orelse) == 1 and isinstance(n.orelse[0], ast.If)) and isinstance(n.test, ast.Compare) \
                    and len(n.test.ops) == 1 and isinstance(n.test.ops[0], (ast.NotEq, ast.NotIn)):
                n.test = ast.copy_location(ast.Compare(left=n.test.left, ops=[FLIP[type(n.test.ops[0])]()], comparators=n.test.comparators), n.test)
                n.body, n.orelse = n.orelse, n.body
                done += 1
            return n

        def visit_While(self, n):
            self.generic_visit(n)
            self._test(n)
            return n

        def visit_Assert(self, n):
            self.generic_visit(n)
            self._test(n)
            return n

        def visit_IfExp(self, n):
            nonlocal done
            self.generic_visit(n)
            self._test(n)
            if isinstance(n.test, ast.UnaryOp) and isinstance(n.test.op, ast.Not):
                n.test, n.body, n.orelse = n.test.operand, n.orelse, n.body
                done += 1
            return n
    R().visit(fn.node)
    if done:
        ast.fix_missing_locations(fn.node)
    return int(done > 0)


def normalise_casts(fn) -> int:
    """`cast(T, e)` / `typing.cast(T, e)` -> `e`, in place: at run time cast returns its second argument unchanged."""
    from .model import norm
    if 'cast' not in _vocab(fn):
        return 0
    done = 0

    class R(ast.NodeTransformer):
        def visit_Call(self, c):
            nonlocal done
            self.generic_visit(c)
            if norm(c.func) in ('cast', 'typing.cast') and len(c.args) == 2 and not c.keywords:
                done += 1
                return c.args[1]
            return c
    R().visit(fn.node)
    return int(done > 0)


def drop_identity_stores(fn) -> int:
    """`self.a = self.a` / `x = x` (what is left when a helper that stores several coupled attributes is spliced into a setter that passes
    the current value of the others) is not a write: removed in place (replaced by `pass` when it is the only statement of its block)."""
    from .model import norm
    done = 0
    for x in ast.walk(fn.node):
        for fld in ('body', 'orelse', 'finalbody'):
            b = getattr(x, fld, None)
            if not (isinstance(b, list) and b and isinstance(b[0], ast.stmt)):
                continue
            keep = []
            for st in b:
                if isinstance(st, ast.Assign) and len(st.targets) == 1 and isinstance(st.targets[0], (ast.Name, ast.Attribute)) \
                        and isinstance(st.value, (ast.Name, ast.Attribute)) and norm(st.targets[0]) == norm(st.value):
                    done += 1
                    continue
                keep.append(st)
            if len(keep) != len(b):
                b[:] = keep or [ast.copy_location(ast.Pass(), b[0])]
    return int(done > 0)


def normalise_reshape_spellings(fn) -> int:
    """Function and view spellings of a reshape -> the method form, in place:
        np.reshape(x, shape[, order])   ->  x.reshape(shape[, order=order])
        np.ravel(x[, order])            ->  x.reshape(-1[, order=order])
        x.ravel([order])                ->  x.reshape(-1[, order=order])        (both may return a view; flatten, which copies, is kept)
    x must be a name, attribute, subscript or call (so that the method form means the same)."""
    from .model import norm
    if not (_vocab(fn) & {'reshape', 'ravel'}):
        return 0
    done = 0

    def order_kw(o):
        return [] if o is None or (isinstance(o, ast.Constant) and o.value == 'C') else [ast.keyword(arg='order', value=o)]

    class R(ast.NodeTransformer):
        def visit_Call(self, c):
            nonlocal done
            self.generic_visit(c)
            f = norm(c.func)
            kws = {k.arg: k.value for k in c.keywords}
            if set(kws) - {'order'}:
                return c
            minus1 = ast.UnaryOp(op=ast.USub(), operand=ast.Constant(value=1))
            if f in ('np.reshape', 'numpy.reshape') and 2 <= len(c.args) <= 3 and isinstance(c.args[0], (ast.Name, ast.Attribute, ast.Subscript, ast.Call)):
                o = c.args[2] if len(c.args) == 3 else kws.get('order')
                done += 1
                return ast.copy_location(ast.Call(func=ast.Attribute(value=c.args[0], attr='reshape', ctx=ast.Load()), args=[c.args[1]],
                                                  keywords=order_kw(o)), c)
            if f in ('np.ravel', 'numpy.ravel') and 1 <= len(c.args) <= 2 and isinstance(c.args[0], (ast.Name, ast.Attribute, ast.Subscript, ast.Call)):
                o = c.args[1] if len(c.args) == 2 else kws.get('order')
                done += 1
                return ast.copy_location(ast.Call(func=ast.Attribute(value=c.args[0], attr='reshape', ctx=ast.Load()), args=[minus1],
                                                  keywords=order_kw(o)), c)
            if isinstance(c.func, ast.Attribute) and c.func.attr == 'ravel' and len(c.args) <= 1 \
                    and not (isinstance(c.func.value, ast.Name) and c.func.value.id in ('np', 'numpy')):
                o = c.args[0] if c.args else kws.get('order')
                done += 1
                return ast.copy_location(ast.Call(func=ast.Attribute(value=c.func.value, attr='reshape', ctx=ast.Load()), args=[minus1],
                                                  keywords=order_kw(o)), c)
            return c
    R().visit(fn.node)
    if done:
        ast.fix_missing_locations(fn.node)
    return int(done > 0)


def normalise_broadcasts(fn) -> int:
    """NOT RUN as a model pass any more (see DESIGN 10.3, round 6): rules about masks and shapes (C13.j) must see the broadcasting; the
    term engine resolves these spellings itself (terms.local_terms / from_ast).  Kept for reference.

    Explicit broadcasting that only prepares operands of elementwise arithmetic, in place:
        a, b = np.broadcast_arrays(x, y)   ->   a = x; b = y        (no target is read by a later operand of the same statement)
        np.broadcast_to(x, shape)           ->   x
    Elementwise arithmetic broadcasts by itself; the VALUES the rules reason about are the same (shapes are the business of E8, which
    models broadcasting itself)."""
    from .model import norm
    if not (_vocab(fn) & {'broadcast_arrays', 'broadcast_to'}):
        return 0
    done = 0

    def blocks(node):
        for x in ast.walk(node):
            for fld in ('body', 'orelse', 'finalbody'):
                b = getattr(x, fld, None)
                if isinstance(b, list) and b and isinstance(b[0], ast.stmt):
                    yield b
    for body in list(blocks(fn.node)):
        i = 0
        while i < len(body):
            st = body[i]
            if isinstance(st, ast.Assign) and len(st.targets) == 1 and isinstance(st.targets[0], (ast.Tuple, ast.List)) \
                    and isinstance(st.value, ast.Call) and norm(st.value.func) in ('np.broadcast_arrays', 'numpy.broadcast_arrays') \
                    and not st.value.keywords and len(st.value.args) == len(st.targets[0].elts) \
                    and all(isinstance(t, ast.Name) for t in st.targets[0].elts):
                names = [t.id for t in st.targets[0].elts]
                ok = True
                for k, a in enumerate(st.value.args):
                    earlier = set(names[:k]) - {names[k]}
                    if any(isinstance(x, ast.Name) and x.id in earlier for x in ast.walk(a)):
                        ok = False
                if ok:
                    new = [ast.copy_location(ast.Assign(targets=[ast.Name(id=nm, ctx=ast.Store())], value=a), st)
                           for nm, a in zip(names, st.value.args) if not (isinstance(a, ast.Name) and a.id == nm)]
                    body[i:i + 1] = new
                    done += 1
                    i += len(new)
                    continue
            i += 1

    class R(ast.NodeTransformer):
        def visit_Call(self, c):
            nonlocal done
            self.generic_visit(c)
            if norm(c.func) in ('np.broadcast_to', 'numpy.broadcast_to') and len(c.args) == 2 and not c.keywords:
                done += 1
                return c.args[0]
            return c
    R().visit(fn.node)
    if done:
        ast.fix_missing_locations(fn.node)
    return int(done > 0)


def normalise_dict_builders(fn) -> int:
    """A dictionary built up by consecutive statements  ->  one dict literal, in place:

        d = {} / d: T = {..} / d = dict() / d = dict(k=v) / d = dict([(k, v), ..])
        d['k1'] = v1
        d.update({'k2': v2}) / d.update(k3=v3)

    becomes `d = {.., 'k1': v1, 'k2': v2, 'k3': v3}` (same keys, same order, same value expressions; a value may not mention d; the
    statements must follow each other directly in one block).  Codec and dispatch-table rules read dict displays."""
    from .model import norm
    voc = _vocab(fn)
    if not ({'Dict', 'dict'} & voc):
        return 0
    done = 0

    def as_dict(v):
        """ast.Dict equivalent of a dict-constructing expression, or None"""
        if isinstance(v, ast.Dict) and all(k is not None for k in v.keys):
            return ast.Dict(keys=list(v.keys), values=list(v.values))
        if isinstance(v, ast.Call) and isinstance(v.func, ast.Name) and v.func.id == 'dict':
            if not v.args and all(k.arg for k in v.keywords):
                return ast.Dict(keys=[ast.Constant(value=k.arg) for k in v.keywords], values=[k.value for k in v.keywords])
            if len(v.args) == 1 and not v.keywords and isinstance(v.args[0], (ast.List, ast.Tuple)) \
                    and all(isinstance(e, (ast.Tuple, ast.List)) and len(e.elts) == 2 for e in v.args[0].elts):
                return ast.Dict(keys=[e.elts[0] for e in v.args[0].elts], values=[e.elts[1] for e in v.args[0].elts])
        return None

    def mentions(e, name) -> bool:
        return any(isinstance(x, ast.Name) and x.id == name for x in ast.walk(e))

    def blocks(node):
        for x in ast.walk(node):
            for fld in ('body', 'orelse', 'finalbody'):
                b = getattr(x, fld, None)
                if isinstance(b, list) and b and isinstance(b[0], ast.stmt):
                    yield b
    for body in list(blocks(fn.node)):
        i = 0
        while i < len(body):
            st = body[i]
            tgt = val = None
            if isinstance(st, ast.Assign) and len(st.targets) == 1 and isinstance(st.targets[0], ast.Name):
                tgt, val = st.targets[0].id, st.value
            elif isinstance(st, ast.AnnAssign) and isinstance(st.target, ast.Name) and st.value is not None:
                tgt, val = st.target.id, st.value
            d = as_dict(val) if tgt is not None else None
            if d is None:
                i += 1
                continue
            j = i + 1
            absorbed = 0
            while j < len(body):
                nx = body[j]
                if isinstance(nx, ast.Assign) and len(nx.targets) == 1 and isinstance(nx.targets[0], ast.Subscript) \
                        and isinstance(nx.targets[0].value, ast.Name) and nx.targets[0].value.id == tgt \
                        and isinstance(nx.targets[0].slice, ast.Constant) and not mentions(nx.value, tgt) \
                        and norm(nx.targets[0].slice) not in {norm(k) for k in d.keys}:
                    d.keys.append(nx.targets[0].slice)
                    d.values.append(nx.value)
                elif isinstance(nx, ast.Expr) and isinstance(nx.value, ast.Call) and isinstance(nx.value.func, ast.Attribute) \
                        and nx.value.func.attr == 'update' and isinstance(nx.value.func.value, ast.Name) and nx.value.func.value.id == tgt \
                        and not mentions(ast.Module(body=[ast.Expr(value=a) for a in nx.value.args] + [ast.Expr(value=k.value) for k in nx.value.keywords], type_ignores=[]), tgt):
                    extra = None
                    if len(nx.value.args) == 1 and not nx.value.keywords:
                        extra = as_dict(nx.value.args[0])
                    elif not nx.value.args and nx.value.keywords and all(k.arg for k in nx.value.keywords):
                        extra = ast.Dict(keys=[ast.Constant(value=k.arg) for k in nx.value.keywords], values=[k.value for k in nx.value.keywords])
                    if extra is None or {norm(k) for k in extra.keys} & {norm(k) for k in d.keys}:
                        break
                    d.keys += extra.keys
                    d.values += extra.values
                else:
                    break
                absorbed += 1
                j += 1
            changed = absorbed or not isinstance(val, ast.Dict) or isinstance(st, ast.AnnAssign)
            if changed:
                new = ast.copy_location(ast.Assign(targets=[ast.Name(id=tgt, ctx=ast.Store())], value=d), st)
                body[i:j] = [new]
                done += 1
            i += 1
    if done:
        ast.fix_missing_locations(fn.node)
    return int(done > 0)


def normalise_named_tests(fn) -> int:
    """`flag = <test>` ... `if flag:` / `if not flag:` / `while flag` / `x if flag else y` / `assert flag`  ->  the test itself at the use,
    in place, when `flag` is a local bound exactly once to a pure test (comparison, `is None`, isinstance, and / or / not of such) and
    nothing between the binding and the use can change what the test reads: both lie in the same block, and the statements between them
    store to none of the names / attributes the test mentions and contain no call (other than isinstance / len / np.isscalar ...).
    Hoisting a test into a named boolean is the same branch; the path rules and the lazy-memo idiom read tests as written."""
    from .astutil import single_locals
    from .model import norm
    voc = _vocab(fn)
    if not ({'If', 'While', 'IfExp', 'Assert'} & voc):
        return 0
    PURE_CALLS = {'isinstance', 'len', 'callable', 'hasattr', 'np.isscalar', 'np.ndim', 'np.iscomplexobj', 'np.isrealobj', 'issubclass', 'type'}

    def is_test(e) -> bool:
        if isinstance(e, ast.Compare):
            return all(not any(isinstance(x, ast.Call) and norm(x.func) not in PURE_CALLS for x in ast.walk(s_)) for s_ in [e.left] + e.comparators)
        if isinstance(e, ast.BoolOp):
            return all(is_test(v) for v in e.values)
        if isinstance(e, ast.UnaryOp) and isinstance(e.op, ast.Not):
            return is_test(e.operand)
        if isinstance(e, ast.Call):
            return norm(e.func) in ('isinstance', 'np.isscalar', 'callable', 'hasattr', 'issubclass') and not e.keywords
        return False
    defs = {k: v for k, v in single_locals(fn).items() if is_test(v) and k not in fn.params}
    if not defs:
        return 0
    done = 0

    def reads(e) -> Set[str]:
        out = set()
        for x in ast.walk(e):
            if isinstance(x, ast.Name):
                out.add(x.id)
            elif isinstance(x, ast.Attribute):
                out.add('.' + x.attr)
        return out

    def blocks(node):
        for x in ast.walk(node):
            for fld in ('body', 'orelse', 'finalbody'):
                b = getattr(x, fld, None)
                if isinstance(b, list) and b and isinstance(b[0], ast.stmt):
                    yield b

    def disturbs(st, rd: Set[str]) -> bool:
        for x in ast.walk(st):
            if isinstance(x, ast.Call) and norm(x.func) not in PURE_CALLS:
                return True
            if isinstance(x, ast.Name) and isinstance(x.ctx, (ast.Store, ast.Del)) and x.id in rd:
                return True
            if isinstance(x, ast.Attribute) and isinstance(x.ctx, (ast.Store, ast.Del)) and '.' + x.attr in rd:
                return True
            if isinstance(x, (ast.Subscript,)) and isinstance(x.ctx, (ast.Store, ast.Del)):
                return True
        return False

    class Sub(ast.NodeTransformer):
        def __init__(self, name, test):
            self.name, self.test, self.n = name, test, 0

        def visit_Name(self, n):
            if isinstance(n.ctx, ast.Load) and n.id == self.name:
                self.n += 1
                return ast.copy_location(copy.deepcopy(self.test), n)
            return n

    def test_slots(st):
        """(owner, field) pairs holding a test expression evaluated when the statement `st` is reached"""
        if isinstance(st, (ast.If, ast.While)):
            yield st, 'test'
        elif isinstance(st, ast.Assert):
            yield st, 'test'
        for x in ast.walk(st) if not isinstance(st, (ast.If, ast.While, ast.For, ast.With, ast.Try)) else []:
            if isinstance(x, ast.IfExp):
                yield x, 'test'

    for body in list(blocks(fn.node)):
        for i, st in enumerate(body):
            if not (isinstance(st, ast.Assign) and len(st.targets) == 1 and isinstance(st.targets[0], ast.Name) and st.targets[0].id in defs
                    and st.value is defs[st.targets[0].id]):
                continue
            name, test = st.targets[0].id, st.value
            rd = reads(test)
            for later in body[i + 1:]:
                for owner, fld in test_slots(later):
                    slot = getattr(owner, fld)
                    if any(isinstance(x, ast.Name) and x.id == name for x in ast.walk(slot)):
                        sb = Sub(name, test)
                        setattr(owner, fld, sb.visit(slot))
                        done += sb.n
                if disturbs(later, rd) or isinstance(later, (ast.For, ast.While, ast.With, ast.Try)):
                    break
                if isinstance(later, ast.If) and any(disturbs(x, rd) for x in later.body + later.orelse):
                    # the branches may change the operands: uses AFTER this `if` are not substituted (its own test was, above)
                    break
    if done:
        ast.fix_missing_locations(fn.node)
    return int(done > 0)


def normalise_string_locals(fn) -> int:
    """A local bound exactly once to a STRING literal (a result name, a dictionary key, a file extension) and never rebound is replaced by
    the literal at its uses, in place: rules match names and keys as literals; naming the literal first is the same program."""
    from .astutil import single_locals
    if 'Constant' not in _vocab(fn):
        return 0
    defs = {k: v for k, v in single_locals(fn).items() if isinstance(v, ast.Constant) and isinstance(v.value, str) and k not in fn.params}
    if not defs:
        return 0
    # not when the name is also bound by a loop / with / except / comprehension / walrus or declared global
    other = set()
    for n in ast.walk(fn.node):
        if isinstance(n, (ast.For, ast.comprehension)):
            other |= {x.id for x in ast.walk(n.target) if isinstance(x, ast.Name)}
        elif isinstance(n, (ast.Global, ast.Nonlocal)):
            other |= set(n.names)
        elif isinstance(n, ast.NamedExpr):
            other.add(n.target.id)
        elif isinstance(n, ast.ExceptHandler) and n.name:
            other.add(n.name)
        elif isinstance(n, ast.withitem) and n.optional_vars is not None:
            other |= {x.id for x in ast.walk(n.optional_vars) if isinstance(x, ast.Name)}
    defs = {k: v for k, v in defs.items() if k not in other}
    if not defs:
        return 0
    done = 0

    class R(ast.NodeTransformer):
        def visit_Name(self, n):
            nonlocal done
            if isinstance(n.ctx, ast.Load) and n.id in defs:
                done += 1
                return ast.copy_location(ast.Constant(value=defs[n.id].value), n)
            return n
    R().visit(fn.node)
    return int(done > 0)


def normalise_out_ufuncs(fn) -> int:
    """`np.add(a, b, out=a)` as a statement  ->  `a += b`  (subtract, multiply, divide / true_divide alike; `a` a name, an attribute or a
    subscript written identically both times), in place.  The in-place ufunc call and the augmented assignment are the same operation
    on the same array; rules that follow accumulations / scalings know the augmented form."""
    from .model import norm
    if 'out' not in {k.arg for n in ast.walk(fn.node) if isinstance(n, ast.Call) for k in n.keywords}:
        return 0
    OPS = {'add': ast.Add, 'subtract': ast.Sub, 'multiply': ast.Mult, 'divide': ast.Div, 'true_divide': ast.Div}
    done = 0

    class R(ast.NodeTransformer):
        def visit_Expr(self, n):
            nonlocal done
            c = n.value
            if isinstance(c, ast.Call) and isinstance(c.func, ast.Attribute) and isinstance(c.func.value, ast.Name) \
                    and c.func.value.id in ('np', 'numpy') and c.func.attr in OPS and len(c.args) == 2 \
                    and len(c.keywords) == 1 and c.keywords[0].arg == 'out' and isinstance(c.args[0], (ast.Name, ast.Attribute, ast.Subscript)) \
                    and norm(c.keywords[0].value) == norm(c.args[0]):
                tgt = copy.deepcopy(c.args[0])
                for x in ast.walk(tgt):
                    if hasattr(x, 'ctx'):
                        x.ctx = ast.Load()
                tgt.ctx = ast.Store()
                done += 1
                return ast.copy_location(ast.AugAssign(target=tgt, op=OPS[c.func.attr](), value=c.args[1]), n)
            return n
    R().visit(fn.node)
    if done:
        ast.fix_missing_locations(fn.node)
    return done


def normalise_ifexp(fn) -> int:
    """`x = A if c else B`  ->  `if c: x = A  else: x = B`  (also for `return`, augmented and annotated assignments), in
    place: the path rules follow `if` statements, a conditional expression at the top of a statement is the same branch."""
    done = 0

    class R(ast.NodeTransformer):
        def _split(self, n, get, put):
            nonlocal done
            v = get(n)
            if not isinstance(v, ast.IfExp):
                return n
            a, b = copy.deepcopy(n), copy.deepcopy(n)
            put(a, v.body)
            put(b, v.orelse)
            done += 1
            new = ast.If(test=v.test, body=[self.visit(a)], orelse=[self.visit(b)])
            return ast.copy_location(new, n)

        def visit_Assign(self, n):
            return self._split(n, lambda x: x.value, lambda x, v: setattr(x, 'value', v))

        def visit_AnnAssign(self, n):
            if n.value is None:
                return n
            return self._split(n, lambda x: x.value, lambda x, v: setattr(x, 'value', v))

        def visit_AugAssign(self, n):
            return self._split(n, lambda x: x.value, lambda x, v: setattr(x, 'value', v))

        def visit_Return(self, n):
            if n.value is None:
                return n
            return self._split(n, lambda x: x.value, lambda x, v: setattr(x, 'value', v))

        def visit_FunctionDef(self, n):
            if n is fn.node:
                self.generic_visit(n)
            return n

        def visit_Lambda(self, n):
            return n
    R().visit(fn.node)
    if done:
        ast.fix_missing_locations(fn.node)
    return done


def normalise_dispatch(fn) -> int:
    """`D = {True: f, False: g}` ... `X = D[cond](args)`  ->  `if cond: X = f(args) else: X = g(args)`   (in place; also string
    keys: an if / elif ladder ending in `raise KeyError`).  D must be a local bound once to a dict display with constant
    keys and plain callables as values, and be used only in such subscript-calls; a key that is a local bound once to a
    pure test is replaced by that test.  The callees then go through the ordinary splicing of post-reference helpers."""
    from .astutil import single_locals
    from .model import norm
    if 'Dict' not in _vocab(fn):
        return 0
    defs = single_locals(fn)
    tables = {k: v for k, v in defs.items() if isinstance(v, ast.Dict) and v.keys and all(isinstance(x, ast.Constant) for x in v.keys)
              and all(isinstance(x, (ast.Name, ast.Attribute)) for x in v.values) and k not in fn.params}
    if not tables:
        return 0
    uses = {k: [] for k in tables}
    parents = {}
    for p_ in ast.walk(fn.node):
        for c in ast.iter_child_nodes(p_):
            parents[id(c)] = p_
    for n in ast.walk(fn.node):
        if isinstance(n, ast.Name) and n.id in tables and isinstance(n.ctx, ast.Load):
            uses[n.id].append(n)
    done = 0
    for name, d in tables.items():
        sites = []
        ok = bool(uses[name])
        for u in uses[name]:
            sub = parents.get(id(u))
            call = parents.get(id(sub)) if sub is not None else None
            stmt = parents.get(id(call)) if call is not None else None
            if not (isinstance(sub, ast.Subscript) and sub.value is u and isinstance(call, ast.Call) and call.func is sub
                    and isinstance(stmt, (ast.Assign, ast.Return, ast.Expr)) and getattr(stmt, 'value', None) is call):
                ok = False
                break
            sites.append((stmt, call, sub))
        if not ok:
            continue
        keys = [k.value for k in d.keys]
        for stmt, call, sub in sites:
            key = sub.slice
            if isinstance(key, ast.Name) and key.id in defs and isinstance(defs[key.id], (ast.Compare, ast.BoolOp, ast.UnaryOp, ast.Attribute)):
                key = copy.deepcopy(defs[key.id])

            def mk(fexpr):
                c2 = ast.Call(func=copy.deepcopy(fexpr), args=[copy.deepcopy(a) for a in call.args], keywords=[copy.deepcopy(k) for k in call.keywords])
                s2 = copy.copy(stmt)
                s2 = copy.deepcopy(stmt)
                s2.value = c2
                return ast.copy_location(s2, stmt)
            if set(keys) == {True, False} and all(isinstance(k, bool) for k in keys):
                new = ast.If(test=key, body=[mk(d.values[keys.index(True)])], orelse=[mk(d.values[keys.index(False)])])
            elif all(isinstance(k, str) for k in keys):
                new = None
                tail = [ast.Raise(exc=ast.Call(func=ast.Name(id='KeyError', ctx=ast.Load()), args=[copy.deepcopy(key)], keywords=[]), cause=None)]
                for k, v in reversed(list(zip(keys, d.values))):
                    new = ast.If(test=ast.Compare(left=copy.deepcopy(key), ops=[ast.Eq()], comparators=[ast.Constant(value=k)]), body=[mk(v)], orelse=tail)
                    tail = [new]
            else:
                continue
            ast.copy_location(new, stmt)
            holder = parents.get(id(stmt))
            for fld in ('body', 'orelse', 'finalbody'):
                b = getattr(holder, fld, None)
                if isinstance(b, list) and any(x is stmt for x in b):
                    b[[i for i, x in enumerate(b) if x is stmt][0]] = new
                    done += 1
    if done:
        ast.fix_missing_locations(fn.node)
    return done


def normalise_collectors(fn) -> int:
    """A list / dict that one loop only FILLS (one element per iteration of `for T in R`) and that later code only READS
    element-wise is removed, in place: the filling loop becomes a comprehension, and then

        for x in acc: BODY                 ->  for T in R: x = E; BODY
        for i, x in enumerate(acc): BODY   ->  for T in R: i = T; x = E; BODY          (R = range(N))
        for x, y in zip(acc, acc2): BODY   ->  for T in R: x = E; y = E2; BODY         (both filled over the same R)
        acc[T2] inside `for T2 in R`       ->  E[T := T2]

    (E is the appended / stored expression with the filling loop's own locals expanded).  This undoes the "split one loop
    in two and carry the per-element quantities in a list / dict" refactoring; it is applied only when the filling loop has
    no other effect (simple assignments to locals that are not read after the loop, no branch, no break), R is a `range`
    / a name that is not rebound, and the collector has no other use."""
    from .model import norm
    if not ({'For', 'ListComp', 'DictComp'} & _vocab(fn)):
        return 0
    src0 = ast.dump(fn.node)

    def pure_range(e) -> bool:
        return isinstance(e, ast.Call) and norm(e.func) in ('range', 'np.arange') and not e.keywords and \
            all(not any(isinstance(x, ast.Call) for x in ast.walk(a)) for a in e.args)

    def subst(e, mapping):
        class Sb(ast.NodeTransformer):
            def visit_Name(self, n):
                if isinstance(n.ctx, ast.Load) and n.id in mapping:
                    return ast.copy_location(copy.deepcopy(mapping[n.id]), n)
                return n
        return Sb().visit(copy.deepcopy(e))

    def blocks(node):
        for x in ast.walk(node):
            for fld in ('body', 'orelse', 'finalbody'):
                b = getattr(x, fld, None)
                if isinstance(b, list) and b and isinstance(b[0], ast.stmt):
                    yield b

    def empty_kind(v):
        if (isinstance(v, ast.List) and not v.elts) or (isinstance(v, ast.Call) and norm(v.func) == 'list' and not v.args):
            return 'list'
        if (isinstance(v, ast.Dict) and not v.keys) or (isinstance(v, ast.Call) and norm(v.func) == 'dict' and not v.args and not v.keywords):
            return 'dict'
        return None

    changed_any = False
    for _round in range(6):
        progress = False
        for body in list(blocks(fn.node)):
            for j, L in enumerate(body):
                if not (isinstance(L, ast.For) and not L.orelse and isinstance(L.target, ast.Name) and pure_range(L.iter)):
                    continue
                T = L.target.id
                env = {}
                fills = []                                    # (collector, kind, E)
                ok = True
                for b in L.body:
                    if isinstance(b, ast.Assign) and len(b.targets) == 1 and isinstance(b.targets[0], ast.Name):
                        env[b.targets[0].id] = subst(b.value, env)
                    elif isinstance(b, ast.Expr) and isinstance(b.value, ast.Call) and isinstance(b.value.func, ast.Attribute) \
                            and b.value.func.attr == 'append' and isinstance(b.value.func.value, ast.Name) and len(b.value.args) == 1:
                        fills.append((b.value.func.value.id, 'list', subst(b.value.args[0], env)))
                    elif isinstance(b, ast.Assign) and len(b.targets) == 1 and isinstance(b.targets[0], ast.Subscript) \
                            and isinstance(b.targets[0].value, ast.Name) and norm(b.targets[0].slice) == T:
                        fills.append((b.targets[0].value.id, 'dict', subst(b.value, env)))
                    else:
                        ok = False
                        break
                accs = [f[0] for f in fills]
                if not ok or not fills or len(set(accs)) != len(accs):
                    continue
                if any(isinstance(x, ast.Name) and x.id in accs for _, _, E in fills for x in ast.walk(E)) or \
                        any(isinstance(x, ast.Name) and x.id in accs for v in env.values() for x in ast.walk(v)):
                    continue
                # every collector is initialised empty earlier in this block and not mentioned in between
                inits = {}
                for acc, kind, _ in fills:
                    cand = [i for i in range(j) if isinstance(body[i], ast.Assign) and len(body[i].targets) == 1
                            and isinstance(body[i].targets[0], ast.Name) and body[i].targets[0].id == acc]
                    if not cand or empty_kind(body[cand[-1]].value) != kind:
                        break
                    i0 = cand[-1]
                    if any(isinstance(x, ast.Name) and x.id == acc for k in range(i0 + 1, j) for x in ast.walk(body[k])):
                        break
                    inits[acc] = i0
                if len(inits) != len(fills):
                    continue
                rest = body[j + 1:]
                after = {x.id for x in ast.walk(fn.node) if isinstance(x, ast.Name) and isinstance(x.ctx, ast.Load) and x.lineno > L.lineno
                         and not any(x is y for y in ast.walk(L))}
                leak = (set(env) | {T}) & after
                if leak:
                    def rebound_later(name):
                        for r in rest:
                            for lp in ast.walk(r):
                                if isinstance(lp, ast.For) and any(isinstance(t, ast.Name) and t.id == name for t in ast.walk(lp.target)):
                                    return True
                                if isinstance(lp, ast.Assign) and any(isinstance(t, ast.Name) and t.id == name for t in lp.targets):
                                    return True
                        return False
                    if not all(rebound_later(nm) for nm in leak):
                        continue
                R_txt = norm(L.iter)
                parents = {}
                for r in rest:
                    for p_ in ast.walk(r):
                        for c in ast.iter_child_nodes(p_):
                            parents[id(c)] = p_
                plans = []
                feasible = True
                for acc, kind, E in fills:
                    uses = [x for r in rest for x in ast.walk(r) if isinstance(x, ast.Name) and x.id == acc]
                    outside = [x for x in ast.walk(fn.node) if isinstance(x, ast.Name) and x.id == acc
                               and not any(x is y for r in body for y in ast.walk(r))]
                    if outside or not uses:
                        feasible = False
                        break
                    for u in uses:
                        par = parents.get(id(u))
                        gp = parents.get(id(par)) if par is not None else None
                        if isinstance(par, ast.For) and par.iter is u and kind == 'list' and isinstance(par.target, ast.Name):
                            plans.append(('iter', par, E, None))
                        elif isinstance(par, ast.Call) and norm(par.func) == 'enumerate' and len(par.args) == 1 and isinstance(gp, ast.For) and gp.iter is par \
                                and kind == 'list' and isinstance(gp.target, ast.Tuple) and len(gp.target.elts) == 2 \
                                and all(isinstance(t, ast.Name) for t in gp.target.elts) \
                                and (len(L.iter.args) == 1 or (len(L.iter.args) == 2 and norm(L.iter.args[0]) == '0')):
                            plans.append(('enum', gp, E, None))
                        elif isinstance(par, ast.Subscript) and par.value is u and isinstance(par.ctx, ast.Load) and isinstance(par.slice, ast.Name):
                            encl = par
                            found = None
                            while encl is not None:
                                encl = parents.get(id(encl))
                                if isinstance(encl, ast.For) and isinstance(encl.target, ast.Name) and encl.target.id == par.slice.id \
                                        and norm(encl.iter) == R_txt:
                                    found = encl
                                    break
                            if found is None:
                                feasible = False
                                break
                            plans.append(('sub', par, E, parents))
                        else:
                            feasible = False
                            break
                    if not feasible:
                        break
                if not feasible:
                    continue
                for what, node, E, extra in plans:
                    if what in ('iter', 'enum'):
                        names_in_body = {x.id for b in node.body for x in ast.walk(b) if isinstance(x, ast.Name)}
                        if T in names_in_body or any(k in names_in_body for k in env):
                            feasible = False
                # two 'iter' plans on the same loop (zip) are not handled
                loops_planned = [id(n) for w, n, _, _ in plans if w in ('iter', 'enum')]
                if not feasible or len(loops_planned) != len(set(loops_planned)):
                    continue
                for what, node, E, extra in plans:
                    if what == 'iter':
                        x = node.target.id
                        pre = [ast.copy_location(ast.Assign(targets=[ast.Name(id=x, ctx=ast.Store())], value=copy.deepcopy(E)), node)]
                        node.target = ast.Name(id=T, ctx=ast.Store())
                        node.iter = copy.deepcopy(L.iter)
                        node.body = pre + node.body
                    elif what == 'enum':
                        ix, x = node.target.elts[0].id, node.target.elts[1].id
                        pre = [ast.copy_location(ast.Assign(targets=[ast.Name(id=ix, ctx=ast.Store())], value=ast.Name(id=T, ctx=ast.Load())), node),
                               ast.copy_location(ast.Assign(targets=[ast.Name(id=x, ctx=ast.Store())], value=copy.deepcopy(E)), node)]
                        node.target = ast.Name(id=T, ctx=ast.Store())
                        node.iter = copy.deepcopy(L.iter)
                        node.body = pre + node.body
                    else:
                        par = node
                        repl = subst(E, {T: ast.Name(id=par.slice.id, ctx=ast.Load())})
                        gp = extra.get(id(par))
                        for fld, val in ast.iter_fields(gp):
                            if val is par:
                                setattr(gp, fld, ast.copy_location(repl, par))
                            elif isinstance(val, list):
                                for q, item in enumerate(val):
                                    if item is par:
                                        val[q] = ast.copy_location(repl, par)
                body[j] = ast.copy_location(ast.Pass(), L)
                for acc, i0 in inits.items():
                    body[i0] = ast.copy_location(ast.Pass(), body[i0])
                progress = True
                changed_any = True
                break
            if progress:
                break
        if not progress:
            break
    if changed_any:
        ast.fix_missing_locations(fn.node)
    return int(ast.dump(fn.node) != src0)


def flatten_model(model) -> Optional[Flattener]:
    """Splice calls of post-reference helpers into their callers, in place, for every function of the model."""
    ref = load_reference()
    if ref is None:
        return None
    fl = Flattener(model, ref)
    fl.local_renames = undo_local_renames(model)
    fl.renames = undo_private_renames(model)
    fl.constants = inline_new_constants(model)
    funcs = [f for f in model.all_functions() if f.kind != 'nested']
    new = [f for f in funcs if fl.is_new(f)]
    _VOCAB.clear()

    def run(pass_, *a) -> int:
        n = 0
        for f in funcs:
            r = pass_(*a, f)
            if r:
                _VOCAB.pop(id(f.node), None)
            n += r
        return n
    fl.range_zero = run(normalise_range_zero)
    fl.slices = run(normalise_slices)
    fl.gathers = run(normalise_gathers)
    fl.calls = run(normalise_calls, model)
    fl.dispatch = run(normalise_dispatch)
    fl.out_ufuncs = run(normalise_out_ufuncs)
    try:
        with open(REFERENCE) as f_:
            _shapes = json.load(f_).get('local_shapes', {})
    except OSError:
        _shapes = {}
    fl.return_temps = 0
    for f in funcs:
        r_ = _shapes.get('%s::%s' % (f.path, f.qualname))
        # a function with nested functions / lambdas has no recorded local names (local_shape does not abstract it): left alone
        if r_ and (r_[1] is None or any(isinstance(n_, (ast.FunctionDef, ast.AsyncFunctionDef, ast.Lambda, ast.ClassDef)) and n_ is not f.node
                                        for n_ in ast.walk(f.node))):
            r_ = None
        fl.return_temps += normalise_return_temps(f, set(r_[1]) if r_ else None)
        fl.return_temps += normalise_single_use_temps(f, set(r_[1]) if r_ else None)
    fl.else_after_exit = run(normalise_else_after_exit)
    fl.yoda = run(normalise_yoda)
    fl.negations = run(normalise_negations)
    fl.casts = run(normalise_casts)
    fl.reshapes = run(normalise_reshape_spellings)
    fl.dict_builders = run(normalise_dict_builders)
    fl.string_locals = run(normalise_string_locals)
    fl.format_getattr = run(normalise_format_and_getattr)
    fl.fro_norms = run(normalise_fro_norms)
    fl.range_elements = run(normalise_range_elements)
    fl.named_tests = run(normalise_named_tests)
    fl.ifexps = run(normalise_ifexp)
    fl.collectors = 0
    if not new:
        fl.collectors = run(normalise_collectors)
        _VOCAB.clear()
        return fl
    # a post-reference helper that is a chain of guarded early returns is the single expression it computes
    fl.guarded = 0
    for f in new:
        b_ = _body_without_doc(f.node)
        if len(b_) > 1:
            e_ = _single_expression(f)
            if e_ is not None:
                f.node.body = [ast.copy_location(ast.Return(value=e_), b_[-1])]
                ast.fix_missing_locations(f.node)
                fl.guarded += 1
    # helpers first (so that a helper calling another helper is flat before it is spliced), then everything else
    for _ in range(3):
        for f in new:
            fl.flatten(f)
    for f in funcs:
        if f not in new:
            if fl.flatten(f):
                f.nested.clear()
                for n in f.node.body:
                    f._collect_nested(n)
    # a private post-reference helper that is mentioned nowhere any more is not part of the analysed program
    fl.dead = []
    mentions: Dict[str, int] = {}
    for m in model.modules.values():
        for n in ast.walk(m.tree):
            if isinstance(n, ast.Attribute):
                mentions[n.attr] = mentions.get(n.attr, 0) + 1
            elif isinstance(n, ast.Name):
                mentions[n.id] = mentions.get(n.id, 0) + 1
            elif isinstance(n, ast.Constant) and isinstance(n.value, str) and n.value.isidentifier():
                mentions[n.value] = mentions.get(n.value, 0) + 1        # getattr(self, 'name')
    for f in new:
        if not f.name.startswith('_') or (f.name.startswith('__') and f.name.endswith('__')):
            continue
        if fl.inlined.get(f.qualname, 0) == 0:
            continue
        own = sum(1 for n in ast.walk(f.node) if (isinstance(n, ast.Attribute) and n.attr == f.name) or
                  (isinstance(n, ast.Name) and n.id == f.name))
        if mentions.get(f.name, 0) - own == 0:
            fl.dead.append(f.qualname)
            if f.cls is not None:
                f.cls.methods.pop(f.name, None)
            else:
                f.module.functions.pop(f.name, None)
    _VOCAB.clear()          # splicing changed the callers
    fl.identity_stores = run(drop_identity_stores)
    # the spliced bodies may bring spellings the first passes normalised only in the callers
    for pass_ in (normalise_yoda, normalise_negations, normalise_casts, normalise_out_ufuncs, normalise_reshape_spellings, normalise_dict_builders, normalise_string_locals,
                  normalise_fro_norms, normalise_named_tests):
        run(pass_)
    fl.collectors = run(normalise_collectors)
    _VOCAB.clear()
    return fl
