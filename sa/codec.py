"""E6 - writer/reader agreement rules (dict codecs, JSON tagged-union codec, dispatch tables)."""
from __future__ import annotations

import ast
from typing import Dict, FrozenSet, List, Optional, Set, Tuple

from .model import FuncInfo, Model, is_self_attr, norm, walk_no_nested
from .overlay import AnalysisError


# --------------------------------------------------------------------------------------------
# dict writer
# --------------------------------------------------------------------------------------------
def _dict_expr_items(e: ast.AST, fn: FuncInfo) -> Optional[Dict[str, ast.expr]]:
    if isinstance(e, ast.Dict):
        out = {}
        for k, v in zip(e.keys, e.values):
            if not (isinstance(k, ast.Constant) and isinstance(k.value, str)):
                return None
            out[k.value] = v
        return out
    if isinstance(e, ast.Call) and not e.args and e.keywords and all(k.arg for k in e.keywords):
        f = e.func
        ok = isinstance(f, ast.Name) and (f.id == 'dict' or _is_typeddict(fn, f.id))
        if ok:
            return {k.arg: k.value for k in e.keywords}  # type: ignore
    return None


def _is_typeddict(fn: FuncInfo, name: str) -> bool:
    v = fn.module.assigns.get(name)
    return isinstance(v, ast.Call) and norm(v.func).endswith('TypedDict')


def writer_items(fn: FuncInfo) -> Dict[str, ast.expr]:
    """key -> value expression of the dict a `_to_dict`-like function returns."""
    rets = [n for n in walk_no_nested(fn.node) if isinstance(n, ast.Return) and n.value is not None]
    if len(rets) != 1:
        raise AnalysisError('writer %s: expected exactly one return, found %d' % (fn.qualname, len(rets)))
    e = rets[0].value
    items = _dict_expr_items(e, fn)
    if items is None and isinstance(e, ast.Name):
        defs = [n for n in walk_no_nested(fn.node) if isinstance(n, ast.Assign)
                and any(isinstance(t, ast.Name) and t.id == e.id for t in n.targets)]
        if len(defs) == 1:
            items = _dict_expr_items(defs[0].value, fn)
            if items is not None:
                # later d['k'] = v additions
                for n in walk_no_nested(fn.node):
                    if isinstance(n, ast.Assign) and len(n.targets) == 1 and isinstance(n.targets[0], ast.Subscript) \
                            and isinstance(n.targets[0].value, ast.Name) and n.targets[0].value.id == e.id \
                            and isinstance(n.targets[0].slice, ast.Constant):
                        items[n.targets[0].slice.value] = n.value
    if items is None:
        raise AnalysisError('writer %s: returned value is not a dict literal / dict(...) / TypedDict(...) '
                            '(idiom unknown)' % fn.qualname)
    return items


# --------------------------------------------------------------------------------------------
# dict reader: key sets per path
# --------------------------------------------------------------------------------------------
def _keys_read(e: ast.AST, dname: str) -> Set[str]:
    out: Set[str] = set()
    for n in ast.walk(e):
        if isinstance(n, ast.Subscript) and isinstance(n.value, ast.Name) and n.value.id == dname \
                and isinstance(n.slice, ast.Constant) and isinstance(n.slice.value, str):
            out.add(n.slice.value)
        if isinstance(n, ast.Call) and isinstance(n.func, ast.Attribute) and n.func.attr in ('get', 'pop') \
                and isinstance(n.func.value, ast.Name) and n.func.value.id == dname and n.args \
                and isinstance(n.args[0], ast.Constant) and isinstance(n.args[0].value, str):
            out.add(n.args[0].value)
    return out


def reader_paths(fn: FuncInfo, dname: Optional[str] = None, limit: int = 256) -> List[FrozenSet[str]]:
    """Sets of keys of parameter `dname` read along each normal path of fn."""
    if dname is None:
        ps = [p for p in fn.params if p not in ('self', 'cls')]
        if not ps:
            raise AnalysisError('reader %s has no dict parameter' % fn.qualname)
        dname = ps[0]
    whole = False
    for n in walk_no_nested(fn.node):
        # the dict escaping as a whole (passed on / iterated) means every key may be consumed
        if isinstance(n, ast.Call):
            for a in list(n.args) + [k.value for k in n.keywords]:
                if isinstance(a, ast.Name) and a.id == dname:
                    whole = True
                if isinstance(a, ast.Starred) and isinstance(a.value, ast.Name) and a.value.id == dname:
                    whole = True
            if any(k.arg is None and isinstance(k.value, ast.Name) and k.value.id == dname for k in n.keywords):
                whole = True
    if whole:
        return [frozenset({'*'})]

    def seq(paths: List[Tuple[FrozenSet[str], bool]], more: List[Tuple[FrozenSet[str], bool]]):
        out = []
        for a, done in paths:
            if done:
                out.append((a, True))
                continue
            for b, d2 in more:
                out.append((a | b, d2))
        uniq = list(dict.fromkeys(out))
        if len(uniq) > limit:
            raise AnalysisError('reader %s: too many paths' % fn.qualname)
        return uniq

    def block(body) -> List[Tuple[FrozenSet[str], bool]]:
        paths: List[Tuple[FrozenSet[str], bool]] = [(frozenset(), False)]
        for s in body:
            paths = seq(paths, stmt(s))
        return paths

    def stmt(s) -> List[Tuple[FrozenSet[str], bool]]:
        if isinstance(s, ast.If):
            t = frozenset(_keys_read(s.test, dname))
            res = []
            for br in (s.body, s.orelse):
                for a, d in (block(br) if br else [(frozenset(), False)]):
                    res.append((a | t, d))
            return res
        if isinstance(s, (ast.For, ast.While)):
            head = frozenset(_keys_read(s.iter if isinstance(s, ast.For) else s.test, dname))
            res = [(head, False)]
            for a, d in block(s.body):
                res.append((a | head, False))
            return res
        if isinstance(s, ast.Try):
            res = block(s.body)
            for h in s.handlers:
                res = res + block(h.body)
            return res
        if isinstance(s, ast.With):
            return block(s.body)
        if isinstance(s, ast.Return):
            return [(frozenset(_keys_read(s, dname)), True)]
        if isinstance(s, ast.Raise):
            return []       # exceptional exit: not a normal path
        if isinstance(s, (ast.FunctionDef, ast.ClassDef)):
            return [(frozenset(), False)]
        return [(frozenset(_keys_read(s, dname)), False)]

    paths = block(fn.node.body)
    return list(dict.fromkeys(a for a, _ in paths))


# --------------------------------------------------------------------------------------------
# __eq__ coverage
# --------------------------------------------------------------------------------------------
def eq_compared_attrs(model: Model, fn: FuncInfo) -> Tuple[Set[str], Optional[Set[str]]]:
    """(explicit attrs compared, ignore list if the whole __dict__ is compared else None)."""
    sn = fn.self_name or 'self'
    attrs: Set[str] = set()
    ignore: Optional[Set[str]] = None
    lists: Dict[str, List[str]] = {}
    for n in walk_no_nested(fn.node):
        if isinstance(n, ast.Assign) and len(n.targets) == 1 and isinstance(n.targets[0], ast.Name) \
                and isinstance(n.value, (ast.List, ast.Tuple)) \
                and all(isinstance(e, ast.Constant) and isinstance(e.value, str) for e in n.value.elts):
            lists[n.targets[0].id] = [e.value for e in n.value.elts]
    def names_of(e: ast.AST) -> Optional[List[str]]:
        """the literal list / tuple / set of names e denotes (directly, through list() / tuple() / set(), or a local bound to one)"""
        if isinstance(e, ast.Call) and isinstance(e.func, ast.Name) and e.func.id in ('list', 'tuple', 'set', 'frozenset', 'sorted') \
                and len(e.args) == 1 and not e.keywords:
            return names_of(e.args[0])
        if isinstance(e, ast.Name):
            return lists.get(e.id)
        if isinstance(e, (ast.List, ast.Tuple, ast.Set)) and all(isinstance(x, ast.Constant) and isinstance(x.value, str) for x in e.elts):
            return [x.value for x in e.elts]
        return None
    for n in walk_no_nested(fn.node):
        if isinstance(n, ast.For) and isinstance(n.target, ast.Name) and not (isinstance(n.iter, ast.Name) and n.iter.id in lists) \
                and names_of(n.iter) is not None:
            lists['<iter@%d>' % n.lineno] = names_of(n.iter)
            n_iter_key = '<iter@%d>' % n.lineno
        else:
            n_iter_key = n.iter.id if isinstance(n, ast.For) and isinstance(n.iter, ast.Name) else None
        if isinstance(n, ast.For) and n_iter_key in lists and isinstance(n.target, ast.Name):
            uses_getattr = any(isinstance(c, ast.Call) and isinstance(c.func, ast.Name) and c.func.id == 'getattr'
                               and len(c.args) >= 2 and isinstance(c.args[1], ast.Name) and c.args[1].id == n.target.id
                               for c in ast.walk(n))
            if uses_getattr:
                attrs.update(lists[n_iter_key])
        if isinstance(n, ast.Compare):
            for side in [n.left] + list(n.comparators):
                a = is_self_attr(side, sn)
                if a is not None:
                    attrs.add(a)
        if isinstance(n, ast.Call):
            args = list(n.args)
            for a in args:
                x = is_self_attr(a, sn)
                if x == '__dict__':
                    # the ignore list: keyword `ignore_keys=` or the third positional argument, a literal or a local bound once to one
                    ignore = set()
                    cand = next((k.value for k in n.keywords if k.arg == 'ignore_keys'), None)
                    if cand is None and len(n.args) >= 3:
                        cand = n.args[2]
                    if cand is not None and names_of(cand) is not None:
                        ignore = set(names_of(cand))
                    elif isinstance(cand, (ast.List, ast.Tuple, ast.Set)):
                        ignore = {e.value for e in cand.elts if isinstance(e, ast.Constant)}
                    elif cand is not None:
                        raise AnalysisError('the ignore list `%s` of the __dict__ comparison in %s is not a literal list of names (cannot tell)'
                                            % (norm(cand)[:40], fn.qualname))
                elif x is not None and norm(n.func) in ('np.array_equal', 'numpy.array_equal', 'np.allclose'):
                    attrs.add(x)
    return attrs, ignore


def instance_attrs(model: Model, cls) -> Set[str]:
    """Attributes stored on self anywhere in the class hierarchy (the keys of __dict__)."""
    out: Set[str] = set()
    for k in model.mro(cls):
        for d in (k.methods, k.setters, k.getters):
            for fn in d.values():
                sn = fn.self_name
                if sn is None:
                    continue
                for n in ast.walk(fn.node):
                    if isinstance(n, ast.Attribute) and isinstance(n.ctx, ast.Store) and is_self_attr(n, sn):
                        out.add(n.attr)
    return out


def decode_outcomes(fn: FuncInfo, keys: Set[str], dname: Optional[str] = None, limit: int = 256):
    """Partial evaluation of a JSON object hook on a dictionary that has EXACTLY the string keys `keys`.

    Membership tests `'k' in d` / `'k' not in d` / `d.keys() >= {...}` and `isinstance(d, dict)` are decided; every other
    test is unknown and both branches are followed.  Returns [(kind, keys_read, keys_tested)] for every feasible path,
    kind in {'unchanged' (returns the dictionary itself), 'decoded' (returns something else), 'raise', 'fall-off'}."""
    if dname is None:
        dname = [p for p in fn.params if p not in ('self', 'cls')][0]
    out = []

    def tv(t):
        """three-valued truth of a test: True / False / None"""
        if isinstance(t, ast.UnaryOp) and isinstance(t.op, ast.Not):
            v = tv(t.operand)
            return None if v is None else not v
        if isinstance(t, ast.BoolOp):
            vs = [tv(x) for x in t.values]
            if isinstance(t.op, ast.And):
                if any(v is False for v in vs):
                    return False
                return True if all(v is True for v in vs) else None
            if any(v is True for v in vs):
                return True
            return False if all(v is False for v in vs) else None
        if isinstance(t, ast.Call) and norm(t.func) == 'isinstance' and len(t.args) == 2 and isinstance(t.args[0], ast.Name) and t.args[0].id == dname:
            return True if 'dict' in norm(t.args[1]) or 'Mapping' in norm(t.args[1]) else None
        if isinstance(t, ast.Compare) and len(t.ops) == 1:
            a, op, b = t.left, t.ops[0], t.comparators[0]
            if isinstance(a, ast.Constant) and isinstance(a.value, str) and isinstance(op, (ast.In, ast.NotIn)):
                tgt = b
                if isinstance(tgt, ast.Call) and isinstance(tgt.func, ast.Attribute) and tgt.func.attr == 'keys':
                    tgt = tgt.func.value
                if isinstance(tgt, ast.Name) and tgt.id == dname:
                    r = a.value in keys
                    return r if isinstance(op, ast.In) else not r
        return None

    def tested(t) -> Set[str]:
        o = set()
        for c in ast.walk(t):
            if isinstance(c, ast.Compare) and isinstance(c.left, ast.Constant) and isinstance(c.left.value, str) and len(c.ops) == 1 \
                    and isinstance(c.ops[0], (ast.In, ast.NotIn)):
                o.add(c.left.value)
        return o

    def run(stmts, read, tst, conts):
        if len(out) > limit:
            return
        for i, s in enumerate(stmts):
            rest = stmts[i + 1:]
            if isinstance(s, ast.Return):
                r = read | _keys_read(s, dname)
                kind = 'unchanged' if isinstance(s.value, ast.Name) and s.value.id == dname else 'decoded'
                out.append((kind, frozenset(r), frozenset(tst)))
                return
            if isinstance(s, ast.Raise):
                out.append(('raise', frozenset(read), frozenset(tst)))
                return
            if isinstance(s, ast.If):
                v = tv(s.test)
                rd = read | _keys_read(s.test, dname)
                ts = tst | tested(s.test)
                if v is not False:
                    run(s.body + rest, set(rd), set(ts), conts)
                if v is not True:
                    run(s.orelse + rest, set(rd), set(ts), conts)
                return
            if isinstance(s, (ast.For, ast.While, ast.Try, ast.With)):
                read |= _keys_read(s, dname)
                continue
            read |= _keys_read(s, dname)
        out.append(('fall-off', frozenset(read), frozenset(tst)))
    run(list(fn.node.body), set(), set(), None)
    return out
