"""Static-analysis machinery deciding the pyphysim properties (see /verif/DESIGN.md).

Stdlib only (ast/json/hashlib); pyphysim and numpy are never imported or run.
"""
