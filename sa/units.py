"""Logarithmic / linear unit kinds (a small type system over the expressions of one function).

Every expression gets a kind  'dB' (a level: dB, dBm, dBi),  'lin' (a power or amplitude RATIO in linear scale)  or
None (unknown / dimensionless / anything else).  Kinds come from

  * the repository's own converters: `dB2Linear`, `dBm2Linear` return 'lin' and take 'dB'; `linear2dB`, `linear2dBm`
    return 'dB' and take 'lin'; `10 * log10(x)` is 'dB', `10 ** (x / 10)` is 'lin';
  * names that state their unit: a parameter, local, attribute or method whose name ends in `_dB`, `_dBm`, `_dBi`,
    `_in_dB`, `dB` is 'dB'; one that ends in `_linear`, `_lin` is 'lin'  (methods: the kind of their RESULT - except
    the inverse queries `which_distance_dB(PL)` whose name states the unit of their ARGUMENT, recognised by the
    repository's naming `which_*`);
  * single-assignment locals, and the algebra: dB +- dB = dB, dB +- number = dB, -dB = dB, dB * number = dB (scaling a
    level, e.g. 10 * n * log10(d)), lin * lin = lin, lin / lin = lin, lin ** number = lin, sqrt(lin) = lin,
    number * lin = lin.

Reported (each is a definite mismatch of two KNOWN kinds - unknown never alarms):
  double-conversion   dB2Linear(<lin>) / linear2dB(<dB>)
  mixed-sum           <lin> + <dB>, <lin> - <dB>
  level-product       <dB> * <dB>, <dB> * <lin>, <lin> / <dB>, <dB> / <lin>
  misnamed-binding    x_dB = <lin>, self.y_linear = <dB>
  misnamed-result     a function whose name states a unit returns the other kind
  level-in-capacity   log2(1 + <dB>)
  argument            a <dB> value passed for a parameter named *_linear, or a <lin> value for a parameter named *_dB
"""
from __future__ import annotations

import ast
from typing import Dict, Iterator, Optional, Tuple

from .model import FuncInfo, Model, norm, walk_no_nested

DB, LIN = 'dB', 'lin'
TO_LIN = {'dB2Linear', 'dBm2Linear'}
TO_DB = {'linear2dB', 'linear2dBm'}


def name_kind(name: str) -> Optional[str]:
    n = name.rstrip('_')
    low = n.lower()
    if n.endswith(('_dB', '_dBm', '_dBi', '_in_dB', 'IndB', 'IndBm', 'InDb')) or n in ('dB', 'dBm') or low.endswith(('_db', '_dbm', '_dbi')):
        return DB
    if low.endswith(('_linear', '_lin', 'inlinear')):
        return LIN
    return None


import re

_DB_TXT = re.compile(r'\bin dBm?\b|\(dBm?\)|\(in dBm?\)|\bdB scale\b|\bin dBi\b', re.I)
_LIN_TXT = re.compile(r'\blinear scale\b|\bin linear\b|\(linear\)', re.I)


def _text_kind(txt: str) -> Optional[str]:
    d, l = bool(_DB_TXT.search(txt)), bool(_LIN_TXT.search(txt))
    if d and not l:
        return DB
    if l and not d:
        return LIN
    return None


def doc_kinds(fn: FuncInfo) -> Tuple[Dict[str, str], Optional[str]]:
    """({parameter: kind}, kind of the result) as STATED by the numpydoc sections of the function's docstring."""
    doc = ast.get_docstring(fn.node) or ''
    params: Dict[str, str] = {}
    ret = None
    sect = None
    cur, buf = None, []

    def flush():
        nonlocal ret
        if cur is None:
            return
        k = _text_kind(' '.join(buf))
        if k:
            if sect == 'Parameters' and cur in fn.params:
                params[cur] = k
            elif sect == 'Returns':
                ret = k if ret in (None, k) else 'mixed'
    lines = doc.split('\n')
    i = 0
    while i < len(lines):
        ln = lines[i]
        nxt = lines[i + 1] if i + 1 < len(lines) else ''
        if nxt.strip() and set(nxt.strip()) == {'-'} and ln.strip():
            flush()
            cur, buf = None, []
            sect = ln.strip()
            i += 2
            continue
        if sect in ('Parameters', 'Returns'):
            if ln and not ln.startswith(' ') and ln.strip():
                flush()
                cur = ln.split(':')[0].strip()
                buf = [ln]
            elif cur is not None:
                buf.append(ln.strip())
        i += 1
    flush()
    return params, (ret if ret != 'mixed' else None)


def _callee_name(c: ast.Call) -> str:
    return norm(c.func).split('.')[-1]


def _num(e) -> bool:
    if isinstance(e, ast.Constant) and isinstance(e.value, (int, float)) and not isinstance(e.value, bool):
        return True
    if isinstance(e, ast.UnaryOp) and isinstance(e.op, (ast.USub, ast.UAdd)):
        return _num(e.operand)
    if isinstance(e, ast.BinOp):
        return _num(e.left) and _num(e.right)
    return False


def callees(model: Model, fn: FuncInfo, call: ast.Call):
    """every function a call may reach: for self.m(...) the resolved method and all overrides in subclasses."""
    f = call.func
    if isinstance(f, ast.Attribute) and fn.cls is not None and isinstance(f.value, ast.Name) and f.value.id == fn.self_name:
        out = []
        m = model.lookup_method(fn.cls, f.attr)
        if m is not None:
            out.append(m)
        for sub in model.subclasses(fn.cls):
            if f.attr in sub.methods:
                out.append(sub.methods[f.attr])
        return out
    try:
        t = model.resolve_call(fn, call)
    except Exception:
        t = None
    return [t] if isinstance(t, FuncInfo) else []


def return_kind(model: Model, fn: FuncInfo, _stack=None) -> Optional[str]:
    """kind of what fn returns: stated by its name, else the common known kind of all its return expressions."""
    cache = model.__dict__.setdefault('_unit_ret', {})
    if fn.qualname in cache:
        return cache[fn.qualname]
    if fn.name.startswith('which') or fn.name.startswith('_which'):
        cache[fn.qualname] = None
        return None
    k = name_kind(fn.name) or doc_kinds(fn)[1]
    if k is None:
        _stack = _stack or set()
        if fn.qualname in _stack or len(_stack) > 6:
            return None
        _stack = _stack | {fn.qualname}
        K = Kinds(model, fn, _stack)
        rets = [n for n in walk_no_nested(fn.node) if isinstance(n, ast.Return) and n.value is not None]
        ks = {K.kind(r.value) for r in rets}
        k = ks.pop() if len(ks) == 1 else None
    cache[fn.qualname] = k
    return k


def attr_kind(model: Model, cls, attr: str) -> Optional[str]:
    """kind of an attribute: stated by its name, else the common known kind of every value stored into it in the class family."""
    k = name_kind(attr)
    if k is not None or cls is None:
        return k
    cache = model.__dict__.setdefault('_unit_attr', {})
    key = (cls.name, attr)
    if key in cache:
        return cache[key]
    cache[key] = None
    ks = set()
    for c in model.mro(cls):
        for fn in list(c.methods.values()) + list(c.setters.values()):
            sn = fn.self_name
            if sn is None:
                continue
            K = None
            for n in walk_no_nested(fn.node):
                if isinstance(n, (ast.Assign, ast.AnnAssign)) and getattr(n, 'value', None) is not None:
                    tg = n.targets if isinstance(n, ast.Assign) else [n.target]
                    for t in tg:
                        if isinstance(t, ast.Attribute) and t.attr == attr and isinstance(t.value, ast.Name) and t.value.id == sn:
                            if isinstance(n.value, ast.Constant) and n.value.value is None:
                                continue
                            K = K or Kinds(model, fn, {'<attr>'})
                            ks.add(K.kind(n.value))
    k = ks.pop() if len(ks) == 1 else None
    cache[key] = k
    return k


class Kinds:
    def __init__(self, model: Optional[Model], fn: FuncInfo, _stack=None):
        self.model, self.fn = model, fn
        self._stack = _stack
        self.env: Dict[str, str] = {}
        counts: Dict[str, int] = {}
        for n in ast.walk(fn.node):
            if isinstance(n, ast.Name) and isinstance(n.ctx, ast.Store):
                counts[n.id] = counts.get(n.id, 0) + 1
        self.counts = counts
        dparams, _ = doc_kinds(fn)
        for p in fn.params:
            k = name_kind(p) or dparams.get(p)
            if k and counts.get(p, 0) == 0:
                self.env[p] = k
        # names whose CONTENT is overwritten after the binding (element / slice stores, augmented assignment): their kind is the
        # kind of the binding only if every such store has that kind too
        elem_stores: Dict[str, list] = {}
        for n in walk_no_nested(fn.node):
            tg = n.targets if isinstance(n, ast.Assign) else [n.target] if isinstance(n, ast.AugAssign) else []
            for t in tg:
                root = t
                while isinstance(root, ast.Subscript):
                    root = root.value
                if isinstance(root, ast.Name) and (isinstance(t, ast.Subscript) or isinstance(n, ast.AugAssign)):
                    elem_stores.setdefault(root.id, []).append(n)
        for p in list(self.env):
            if p in elem_stores:
                self.env.pop(p)
        for _ in range(3):
            for n in walk_no_nested(fn.node):
                if isinstance(n, ast.Assign) and len(n.targets) == 1 and isinstance(n.targets[0], ast.Name) \
                        and counts.get(n.targets[0].id) == 1 and n.targets[0].id not in fn.params:
                    k = self.kind(n.value)
                    nm = n.targets[0].id
                    if k and nm in elem_stores:
                        if any(isinstance(st, ast.AugAssign) and not isinstance(st.op, (ast.Add, ast.Sub)) for st in elem_stores[nm]) \
                                or any(self.kind(st.value) != k for st in elem_stores[nm]):
                            k = None
                    if k:
                        self.env[nm] = k
                    elif nm in self.env and nm in elem_stores:
                        self.env.pop(nm)

    def kind(self, e, depth: int = 0) -> Optional[str]:
        if e is None or depth > 14:
            return None
        if isinstance(e, ast.Name):
            if e.id in self.env:
                return self.env[e.id]
            if self.counts.get(e.id, 0) <= 1:
                return name_kind(e.id)
            return None
        if isinstance(e, ast.Attribute):
            k = name_kind(e.attr)
            if k is None and self.model is not None and self._stack is None and isinstance(e.value, ast.Name) \
                    and e.value.id == self.fn.self_name and self.fn.cls is not None:
                if self.fn.cls.defines_property(e.attr) or any(c.defines_property(e.attr) for c in self.model.mro(self.fn.cls)):
                    g = next((c.getters[e.attr] for c in self.model.mro(self.fn.cls) if e.attr in c.getters), None)
                    return return_kind(self.model, g) if g is not None else None
                return attr_kind(self.model, self.fn.cls, e.attr)
            return k
        if isinstance(e, ast.Subscript):
            return self.kind(e.value, depth + 1)
        if isinstance(e, ast.UnaryOp) and isinstance(e.op, (ast.USub, ast.UAdd)):
            return self.kind(e.operand, depth + 1)
        if isinstance(e, ast.IfExp):
            a, b = self.kind(e.body, depth + 1), self.kind(e.orelse, depth + 1)
            return a if a == b else None
        if isinstance(e, ast.Call):
            f = _callee_name(e)
            if f in TO_LIN:
                return LIN
            if f in TO_DB:
                return DB
            if f in ('sqrt', 'abs', 'real', 'asarray', 'array', 'float', 'cast', 'mean', 'sum', 'max', 'min', 'amax', 'amin', 'copy', 'squeeze', 'atleast_1d', 'hstack', 'vstack', 'concatenate', 'ravel', 'flatten', 'reshape', 'list', 'tuple') and e.args:
                a = e.args[-1] if f == 'cast' else e.args[0]
                k = self.kind(a, depth + 1)
                if f == 'sum' and k == DB:
                    return None
                return k
            if f.startswith('which') or f.startswith('_which'):
                return None
            k = name_kind(f)
            if k is None and self.model is not None:
                cands = callees(self.model, self.fn, e)
                ks = {return_kind(self.model, c, self._stack) for c in cands}
                if len(ks) == 1:
                    return ks.pop()
            return k
        if isinstance(e, ast.BinOp):
            l, r = self.kind(e.left, depth + 1), self.kind(e.right, depth + 1)
            if isinstance(e.op, (ast.Add, ast.Sub)):
                if l == DB and (r == DB or r is None and _num(e.right)):
                    return DB
                if r == DB and l is None and _num(e.left):
                    return DB
                if l == LIN and r == LIN:
                    return LIN
                return None
            if isinstance(e.op, ast.Mult):
                # 10 * log10(x)
                for a, b in ((e.left, e.right), (e.right, e.left)):
                    if isinstance(a, ast.Constant) and a.value in (10, 10.0) and isinstance(b, ast.Call) and _callee_name(b) == 'log10':
                        return DB
                if l == LIN and (r == LIN or _num(e.right)):
                    return LIN
                if r == LIN and _num(e.left):
                    return LIN
                if l == DB and _num(e.right) or r == DB and _num(e.left):
                    return DB
                return None
            if isinstance(e.op, ast.Div):
                if l == LIN and (r == LIN or _num(e.right)):
                    return LIN
                if l == DB and _num(e.right):
                    return DB
                return None
            if isinstance(e.op, ast.Pow):
                # 10 ** (x / 10)
                if isinstance(e.left, ast.Constant) and e.left.value in (10, 10.0) and isinstance(e.right, ast.BinOp) \
                        and isinstance(e.right.op, ast.Div) and isinstance(e.right.right, ast.Constant) and e.right.right.value in (10, 10.0):
                    return LIN
                if l == LIN and _num(e.right):
                    return LIN
                return None
        return None


def kind_mismatches(model: Optional[Model], fn: FuncInfo) -> Iterator[Tuple[ast.AST, str, str]]:
    """(node, class, message)."""
    K = Kinds(model, fn)
    for n in walk_no_nested(fn.node):
        if isinstance(n, ast.Call):
            f = _callee_name(n)
            if f in TO_LIN and n.args and K.kind(n.args[0]) == LIN:
                yield n, 'double-conversion', '`%s` converts a value that is already linear (`%s`)' % (norm(n)[:60], norm(n.args[0])[:40])
            elif f in TO_DB and n.args and K.kind(n.args[0]) == DB:
                yield n, 'double-conversion', '`%s` converts a value that is already a level in dB (`%s`)' % (norm(n)[:60], norm(n.args[0])[:40])
            elif f in ('log2', 'log', 'log1p') and n.args and isinstance(n.args[0], ast.BinOp) and isinstance(n.args[0].op, ast.Add) \
                    and (_num(n.args[0].left) and K.kind(n.args[0].right) == DB or _num(n.args[0].right) and K.kind(n.args[0].left) == DB):
                yield n, 'level-in-capacity', '`%s` takes log(1 + x) of a level in dB (the capacity formula needs the linear ratio)' % norm(n)[:60]
            elif f == 'log1p' and n.args and K.kind(n.args[0]) == DB:
                yield n, 'level-in-capacity', '`%s` takes log(1 + x) of a level in dB' % norm(n)[:60]
            elif model is not None and f not in TO_LIN | TO_DB:
                # argument kinds against the callee's parameter names (keywords: by name; positionals: resolved callee)
                for k in n.keywords:
                    if k.arg:
                        want, got = name_kind(k.arg), K.kind(k.value)
                        if want and got and want != got:
                            yield n, 'argument', 'the %s value `%s` is passed for the parameter `%s`' % (got, norm(k.value)[:40], k.arg)
                cands = callees(model, fn, n)
                if len(cands) == 1:
                    ps = [p for p in cands[0].params if p not in ('self', 'cls')]
                    dps = doc_kinds(cands[0])[0]
                    for a, p in zip(n.args, ps):
                        want, got = name_kind(p) or dps.get(p), K.kind(a)
                        if want and got and want != got:
                            yield n, 'argument', 'the %s value `%s` is passed for the parameter `%s` of %s' % (got, norm(a)[:40], p, cands[0].qualname)
        elif isinstance(n, ast.BinOp):
            l, r = K.kind(n.left), K.kind(n.right)
            if isinstance(n.op, (ast.Add, ast.Sub)) and {l, r} == {DB, LIN}:
                yield n, 'mixed-sum', '`%s` adds a level in dB and a linear ratio' % norm(n)[:70]
            elif isinstance(n.op, ast.Mult) and l == DB and r in (DB, LIN) or isinstance(n.op, ast.Mult) and l == LIN and r == DB:
                yield n, 'level-product', '`%s` multiplies a level in dB by a %s quantity (levels add)' % (norm(n)[:70], 'dB' if r == l else 'linear')
            elif isinstance(n.op, ast.Div) and {l, r} == {DB, LIN}:
                yield n, 'level-product', '`%s` divides a dB level and a linear ratio by one another' % norm(n)[:70]
        elif isinstance(n, (ast.Assign, ast.AnnAssign)) and getattr(n, 'value', None) is not None:
            tg = n.targets if isinstance(n, ast.Assign) else [n.target]
            got = K.kind(n.value)
            for t in tg:
                nm = t.id if isinstance(t, ast.Name) else t.attr if isinstance(t, ast.Attribute) else None
                want = name_kind(nm) if nm else None
                if want and got and want != got:
                    yield n, 'misnamed-binding', '`%s` is named as a %s quantity but is bound to the %s value `%s`' % (nm, want, got, norm(n.value)[:50])
        elif isinstance(n, ast.Return) and n.value is not None:
            nm = fn.name
            if nm.startswith('which') or nm.startswith('_which'):
                continue
            want, got = name_kind(nm) or doc_kinds(fn)[1], K.kind(n.value)
            if want and got and want != got:
                yield n, 'misnamed-result', '%s is named / documented as returning a %s quantity but returns the %s value `%s`' % (nm, want, got, norm(n.value)[:50])


def check_units(ctx, rule: str, module_paths, floor: int = 0) -> int:
    ctx.rule(rule, 'logarithmic and linear quantities are never mixed: no double conversion, no dB + linear, no product of levels, no value '
                   'bound / returned / passed under a name that states the other unit (kinds from the repository\'s converters and unit-bearing names)',
             floor=floor)
    M = ctx.model
    n = 0
    for path in module_paths:
        mod = M.module(path)
        fns = [f for c in mod.classes.values() for f in list(c.methods.values()) + list(c.getters.values()) + list(c.setters.values())]
        fns += list(mod.functions.values())
        for fn in fns:
            K = None
            relevant = any((isinstance(x, ast.Call) and _callee_name(x) in TO_LIN | TO_DB) or
                           (isinstance(x, ast.Name) and name_kind(x.id)) or (isinstance(x, ast.Attribute) and name_kind(x.attr)) or
                           (isinstance(x, ast.arg) and name_kind(x.arg)) for x in ast.walk(fn.node)) or name_kind(fn.name)
            if not relevant:
                continue
            construct = fn.qualname
            ctx.instance(rule, construct)
            n += 1
            hits = list(kind_mismatches(M, fn))
            ctx.obligation(rule, construct, not hits, {'mismatches': [(h[1], h[2][:80]) for h in hits]} if hits else None, nontrivial=True)
            for node, cls, msg in hits[:1]:
                ctx.violation(rule, construct, 'unit kinds (%s): %s' % (cls, msg), fn.path, node.lineno, operand='units:' + cls)
    return n
