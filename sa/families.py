"""Derived-state tables (DESIGN.md Appendix A.1): confirmed by reading, one reason per entry.

`deps` of lazy memos are cross-checked against (and extended by) what the defining getter reads.
"""
from .dsf import Family, Spec

MUCHANNEL = Family(
    'multiuser-channel-matrix',
    ['MultiUserChannelMatrix', 'MultiUserChannelMatrixExtInt'],
    [
        Spec('_H_with_pathloss', 'lazy', {'_H_no_pathloss', '_pathloss_matrix'}, ['MultiUserChannelMatrix.H'],
             'cached path-loss-scaled matrix-of-matrices view'),
        Spec('_big_H_with_pathloss', 'lazy', {'_big_H_no_pathloss', '_pathloss_big_matrix', '_pathloss_matrix'},
             ['MultiUserChannelMatrix.big_H'], 'cached path-loss-scaled global matrix'),
        Spec('_big_W', 'lazy', {'_W'}, ['MultiUserChannelMatrix.big_W'], 'block-diagonal of the post filters'),
        Spec('_H_no_pathloss', 'eager', {'_big_H_no_pathloss', '_Nr', '_Nt'},
             ['MultiUserChannelMatrix.randomize', 'MultiUserChannelMatrix.init_from_channel_matrix'],
             'matrix-of-matrices view sharing the memory of the global matrix'),
        Spec('_pathloss_big_matrix', 'eager', {'_pathloss_matrix', '_Nr', '_Nt', '_K', '_extIntK'},
             ['MultiUserChannelMatrix.set_pathloss', 'MultiUserChannelMatrixExtInt.set_pathloss'],
             'per-antenna expansion of the per-link path loss'),
    ])

_IA_SPECS = [
    Spec('_full_F', 'lazy', {'_F', '_P'}, ['IASolverBaseClass.full_F'], 'power-scaled precoder'),
    Spec('_full_W_H', 'lazy', {'_W', '_W_H', '_F', '_P', '_full_F'}, ['IASolverBaseClass.full_W_H'],
         'receive filter compensating the direct equivalent channel'),
    Spec('_full_W', 'lazy', {'_full_W_H'}, ['IASolverBaseClass.full_W'], 'adjoint of the full receive filter'),
    Spec('_W', 'lazy', {'_W_H'}, ['IASolverBaseClass.W'], 'adjoint representation (dual pair with _W_H)'),
    Spec('_W_H', 'lazy', {'_W'}, ['IASolverBaseClass.W_H'], 'adjoint representation (dual pair with _W)'),
]

IA = Family(
    'ia-solvers',
    ['IASolverBaseClass', 'ClosedFormIASolver', 'AlternatingMinIASolver', 'MinLeakageIASolver',
     'MaxSinrIASolver', 'MMSEIASolver'],
    _IA_SPECS,
    suppress={
        ('IterativeIASolverBaseClass._solve_finalize', '_full_F'):
            'edits _F[k] and _full_F[k] in lockstep; the second edit sits behind a defensive *element* test '
            '(self._full_F[k] is not None) that the NONE/CLEAN/DIRTY lattice cannot refine',
    })

PATHLOSS_FS = Family(
    'pathloss-free-space', ['PathLossFreeSpace'],
    [Spec('_C', 'eager', {'_fc', '_n'}, ['PathLossFreeSpace.__init__', 'PathLossFreeSpace.n@setter',
                                        'PathLossFreeSpace.fc@setter'],
          'constant of the log-distance law derived from carrier frequency and exponent')])

JAKES = Family(
    'jakes', ['JakesSampleGenerator'],
    [Spec('_phi_l', 'eager', {'_shape', '_L'}, ['JakesSampleGenerator._set_phi_and_psi_according_to_shape'],
          'per-ray phases shaped like the generator'),
     Spec('_psi_l', 'eager', {'_shape', '_L'}, ['JakesSampleGenerator._set_phi_and_psi_according_to_shape'],
          'per-ray phases shaped like the generator')])

TDL_IR = Family(
    'tdl-impulse-response', ['TdlImpulseResponse'],
    [Spec('_tap_values_dense', 'lazy', {'_tap_values_sparse', '_channel_profile'},
          ['TdlImpulseResponse.tap_values'], 'zero-padded dense taps')])


def _sec_specs():
    out = []
    for i in (1, 2, 3):
        out.append(Spec('_sec%d.pos' % i, 'sub', {'_pos', '_radius', '_rotation'},
                        ['Cell3Sec.__init__', 'Cell3Sec.pos@setter', 'Cell3Sec.radius@setter',
                         'Cell3Sec.rotation@setter'], 'sector hexagon centre follows the cell'))
        out.append(Spec('_sec%d.radius' % i, 'sub', {'_radius'},
                        ['Cell3Sec.__init__', 'Cell3Sec.radius@setter'], 'sector radius follows the cell radius'))
        out.append(Spec('_sec%d.rotation' % i, 'sub', {'_rotation'},
                        ['Cell3Sec.__init__', 'Cell3Sec.rotation@setter'], 'sector rotation follows the cell'))
    return out


CELL3SEC = Family('cell-3sec', ['Cell3Sec'], _sec_specs(),
                  holders={'_sec1': 'Hexagon', '_sec2': 'Hexagon', '_sec3': 'Hexagon'})

RECTANGLE = Family(
    'rectangle', ['Rectangle', 'CellSquare'],
    [Spec('_lower_coord', 'eager', {'_pos'}, ['Rectangle.__init__'], 'absolute corner co-varies with the centre'),
     Spec('_upper_coord', 'eager', {'_pos'}, ['Rectangle.__init__'], 'absolute corner co-varies with the centre')])

MODULATOR = Family(
    'modulator', ['Modulator', 'PSK', 'QPSK', 'BPSK', 'QAM'],
    [Spec('_M', 'eager', {'symbols'}, ['Modulator.setConstellation'], 'cardinality of the table'),
     Spec('_K', 'eager', {'symbols'}, ['Modulator.setConstellation'], 'bits per symbol of the table')])
