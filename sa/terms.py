"""E9 - term normal forms for straight-line scalar formulas.

A formula is normalised to a polynomial over *atoms* with rational coefficients and rational exponents:
    Term = sum_i  c_i * prod_j atom_ij ** e_ij
atoms: symbols (parameters, attribute reads), uninterpreted calls f(t1..tn), pow(base, exp) with a non-constant
exponent (or a sum base with a non-integer exponent).  Rules: + - * / ** with associativity, commutativity,
distribution, constant folding; sqrt(x) = x**(1/2); pow/np.power = **; log10(10**a) = a; 10**log10(a) = a.
Three outcomes, never two: equal normal forms -> holds; well-formed but different -> violation; an operator
the normaliser does not know -> Unknown (analysis cannot tell).  No formula is ever evaluated on data.
"""
from __future__ import annotations

import ast
from fractions import Fraction
from typing import Callable, Dict, List, Optional, Sequence, Set, Tuple

from .model import FuncInfo, Model, norm, walk_no_nested


class Unknown(Exception):
    pass


# atoms are tuples; Term is a canonical tuple of (coef, mono) with mono a tuple of (atom, exp)
Atom = Tuple
Mono = Tuple[Tuple[Atom, Fraction], ...]


def _akey(a) -> str:
    return repr(a)


class Term:
    __slots__ = ('terms',)

    def __init__(self, terms: Dict[Mono, Fraction]):
        self.terms: Tuple[Tuple[Mono, Fraction], ...] = tuple(
            sorted(((m, c) for m, c in terms.items() if c != 0), key=lambda x: repr(x[0])))

    # ---- constructors
    @staticmethod
    def const(c) -> 'Term':
        return Term({(): Fraction(c)})

    @staticmethod
    def atom(a: Atom) -> 'Term':
        return Term({((a, Fraction(1)),): Fraction(1)})

    @staticmethod
    def sym(name: str) -> 'Term':
        return Term.atom(('sym', name))

    # ---- queries
    def is_const(self) -> bool:
        return all(m == () for m, _ in self.terms)

    def const_value(self) -> Fraction:
        return sum((c for _, c in self.terms), Fraction(0))

    def single(self) -> Optional[Tuple[Mono, Fraction]]:
        return self.terms[0] if len(self.terms) == 1 else None

    def __eq__(self, other) -> bool:
        return isinstance(other, Term) and self.terms == other.terms

    def __hash__(self) -> int:
        return hash(self.terms)

    def __repr__(self) -> str:
        return 'T' + repr(self.terms)

    def key(self) -> Tuple:
        return self.terms

    # ---- arithmetic
    def __add__(self, o: 'Term') -> 'Term':
        d: Dict[Mono, Fraction] = dict(self.terms)
        for m, c in o.terms:
            d[m] = d.get(m, Fraction(0)) + c
        return Term(d)

    def scale(self, k: Fraction) -> 'Term':
        return Term({m: c * k for m, c in self.terms})

    def __neg__(self) -> 'Term':
        return self.scale(Fraction(-1))

    def __sub__(self, o: 'Term') -> 'Term':
        return self + (-o)

    def __mul__(self, o: 'Term') -> 'Term':
        d: Dict[Mono, Fraction] = {}
        extra: List['Term'] = []
        for m1, c1 in self.terms:
            for m2, c2 in o.terms:
                m = _mono_mul(m1, m2)
                fx = _fix_pow_atoms(m, c1 * c2)
                if fx is not None:
                    extra.append(fx)
                    continue
                d[m] = d.get(m, Fraction(0)) + c1 * c2
        out = Term(d)
        for e in extra:
            out = out + e
        return out

    def pretty(self) -> str:
        def atom_s(a) -> str:
            if a[0] == 'sym':
                return a[1]
            if a[0] == 'call':
                return '%s(%s)' % (a[1], ', '.join(
                    ('%s=%s' % (t[1], _t(t[2]).pretty())) if (isinstance(t, tuple) and t and t[0] == 'kw') else _t(t).pretty()
                    for t in a[2]))
            if a[0] == 'pow':
                return '(%s)**(%s)' % (_t(a[1]).pretty(), _t(a[2]).pretty())
            return repr(a)

        parts = []
        for m, c in self.terms:
            fs = []
            for a, e in m:
                fs.append(atom_s(a) if e == 1 else '%s**%s' % (atom_s(a), e))
            body = '*'.join(fs)
            if not fs:
                parts.append(str(c))
            elif c == 1:
                parts.append(body)
            elif c == -1:
                parts.append('-' + body)
            else:
                parts.append('%s*%s' % (c, body))
        return ' + '.join(parts) if parts else '0'


def _t(key) -> Term:
    t = Term({})
    t.terms = key
    return t


def _mono_mul(m1: Mono, m2: Mono) -> Mono:
    d: Dict[Atom, Fraction] = {}
    for a, e in m1 + m2:
        d[a] = d.get(a, Fraction(0)) + e
    return tuple(sorted(((a, e) for a, e in d.items() if e != 0), key=lambda x: _akey(x[0])))


def _fix_pow_atoms(m: Mono, c: Fraction) -> Optional[Term]:
    """(B ** E) ** k with constant E and integer k != 1 is renormalised to B ** (E k)  (e.g. sqrt(X)**2 = X)."""
    for i, (a, k) in enumerate(m):
        if a[0] == 'pow' and k != 1 and k.denominator == 1:
            E = _t(a[2])
            if E.is_const():
                rest = Term({tuple(x for j, x in enumerate(m) if j != i): c})
                return rest * t_pow(_t(a[1]), Term.const(E.const_value() * k))
    return None


def t_pow(base: Term, exp: Term) -> Term:
    # constant exponent
    if exp.is_const():
        e = exp.const_value()
        if e == 0:
            return Term.const(1)
        if e == 1:
            return base
        if base.is_const():
            b = base.const_value()
            if e.denominator == 1 and (b != 0 or e > 0):
                return Term.const(b ** int(e))
            # irrational constants stay symbolic
            return Term.atom(('pow', base.key(), exp.key()))
        s = base.single()
        if s is not None:
            m, c = s
            # (c * prod a^k)^e : exact when the coefficient power is rational
            cpow: Optional[Fraction] = None
            if e.denominator == 1:
                cpow = c ** int(e) if (c != 0 or e > 0) else None
            elif c == 1:
                cpow = Fraction(1)
            if cpow is not None and (e.denominator == 1 or all(k.denominator != 1 or True for _, k in m)):
                # combining exponents (x^a)^e = x^(a e) is applied for integer e, or for atoms with exponent 1
                if e.denominator == 1 or all(k == 1 for _, k in m):
                    mm = tuple((a, k * e) for a, k in m)
                    fx = _fix_pow_atoms(mm, cpow)
                    return fx if fx is not None else Term({mm: cpow})
        if e.denominator == 1 and 2 <= e <= 4:
            out = base
            for _ in range(int(e) - 1):
                out = out * base
            return out
        if e.denominator == 1 and -4 <= e <= -1:
            return Term({((('pow', base.key(), Term.const(-1).key()), Fraction(-e)),): Fraction(1)}) \
                if False else Term.atom(('pow', base.key(), exp.key()))
        return Term.atom(('pow', base.key(), exp.key()))
    # 10 ** log10(a) -> a
    if base.is_const() and base.const_value() == 10:
        s = exp.single()
        if s is not None and s[1] == 1 and len(s[0]) == 1 and s[0][0][1] == 1 and s[0][0][0][0] == 'call' \
                and s[0][0][0][1] == 'log10':
            return _t(s[0][0][0][2][0])
    return Term.atom(('pow', base.key(), exp.key()))


def t_call(fname: str, args: Sequence[Term]) -> Term:
    if fname == 'sqrt' and len(args) == 1:
        return t_pow(args[0], Term.const(Fraction(1, 2)))
    if fname in ('pow', 'power') and len(args) == 2:
        return t_pow(args[0], args[1])
    if fname == 'square' and len(args) == 1:
        return t_pow(args[0], Term.const(2))
    if fname == 'log10' and len(args) == 1:
        a = args[0]
        s = a.single()
        # log10(10 ** x) -> x
        if s is not None and s[1] == 1 and len(s[0]) == 1 and s[0][0][1] == 1 and s[0][0][0][0] == 'pow':
            b, e = _t(s[0][0][0][1]), _t(s[0][0][0][2])
            if b.is_const() and b.const_value() == 10:
                return e
        if a.is_const() and a.const_value() > 0:
            v = a.const_value()
            # exact powers of ten fold
            k = 0
            w = v
            while w >= 10 and w.denominator == 1 and w % 10 == 0:
                w /= 10
                k += 1
            if w == 1:
                return Term.const(k)
    if fname in ('sin', 'cos') and len(args) == 1:
        # exact values at the angles pi/2, pi/4, pi/6, pi/3 (needed when a cardinality is a literal)
        s = args[0].single()
        if s is not None and len(s[0]) == 1 and s[0][0] == (('sym', 'pi'), Fraction(1)):
            k = s[1]
            table = {('sin', Fraction(1, 2)): Term.const(1), ('cos', Fraction(1, 2)): Term.const(0),
                     ('sin', Fraction(1, 4)): t_pow(Term.const(2), Term.const(Fraction(-1, 2))),
                     ('cos', Fraction(1, 4)): t_pow(Term.const(2), Term.const(Fraction(-1, 2))),
                     ('sin', Fraction(1, 6)): Term.const(Fraction(1, 2)), ('cos', Fraction(1, 3)): Term.const(Fraction(1, 2)),
                     ('sin', Fraction(1, 3)): t_pow(Term.const(3), Term.const(Fraction(1, 2))) * Term.const(Fraction(1, 2)),
                     ('cos', Fraction(1, 6)): t_pow(Term.const(3), Term.const(Fraction(1, 2))) * Term.const(Fraction(1, 2))}
            if (fname, k) in table:
                return table[(fname, k)]
    return Term.atom(('call', fname, tuple(a.key() for a in args)))


CANON_FUNCS = {'np.log10': 'log10', 'math.log10': 'log10', 'numpy.log10': 'log10', 'log10': 'log10',
               'np.sqrt': 'sqrt', 'math.sqrt': 'sqrt', 'numpy.sqrt': 'sqrt', 'sqrt': 'sqrt',
               'pow': 'pow', 'np.power': 'power', 'np.square': 'square', 'numpy.square': 'square', 'math.pow': 'pow', 'np.log2': 'log2', 'math.log2': 'log2',
               'np.abs': 'abs', 'abs': 'abs', 'np.minimum': 'minimum', 'np.maximum': 'maximum', 'min': 'minimum',
               'np.sin': 'sin', 'math.sin': 'sin', 'np.cos': 'cos', 'np.exp': 'exp', 'math.exp': 'exp',
               'np.sum': 'sum', 'np.mean': 'mean', 'math.erfc': 'erfc', 'erfc': 'erfc', 'special.erfc': 'erfc',
               'float': 'float', 'np.pi': 'pi', 'math.pi': 'pi'}
# wrappers that do not change the value
TRANSPARENT = {'cast', 'float', 'np.asarray', 'np.array', 'np.real'}


TINY = 1e-9


def _snap_test(test: ast.AST) -> Optional[str]:
    """`abs(X) < tiny` with a literal tiny <= 1e-9: returns norm(X) (the snap-to-zero idiom), else None."""
    if isinstance(test, ast.Compare) and len(test.ops) == 1 and isinstance(test.ops[0], (ast.Lt, ast.LtE)) and \
            isinstance(test.left, ast.Call) and norm(test.left.func) in ('abs', 'np.abs', 'np.absolute') and \
            len(test.left.args) == 1 and isinstance(test.comparators[0], ast.Constant) and \
            isinstance(test.comparators[0].value, float) and 0 < test.comparators[0].value <= TINY:
        return norm(test.left.args[0])
    return None


def is_snap_store(s: ast.stmt) -> bool:
    """`X[abs(X) < tiny] = 0`: rounds values below a literal tiny threshold to exactly zero; the formula of X is
    unchanged up to that threshold (treated as the identity, as an assumption that is reported)."""
    return isinstance(s, ast.Assign) and len(s.targets) == 1 and isinstance(s.targets[0], ast.Subscript) and \
        isinstance(s.targets[0].value, ast.Name) and _snap_test(s.targets[0].slice) == s.targets[0].value.id and \
        isinstance(s.value, ast.Constant) and s.value.value == 0


class Env:
    """Symbol table for one function body (single-assignment locals are substituted)."""

    def __init__(self, model: Optional[Model], fn: Optional[FuncInfo], inline: Optional[Set[str]] = None,
                 self_call: Optional[Callable[[str, List[Term]], Optional[Term]]] = None,
                 opaque: Optional[Set[str]] = None):
        self.model, self.fn = model, fn
        self.vars: Dict[str, Term] = {}
        self.fun_alias: Dict[str, str] = {}      # log10 = np.log10
        self.inline = inline or set()
        self.self_call = self_call
        # opaque is not None: every statically resolved repo callee NOT named in it is inlined (helpers extracted by a
        # refactoring are looked through), and module-level constants are expanded; the names in it stay the
        # uninterpreted vocabulary of the specification.
        self.opaque = opaque
        self.depth = 0
        self.floordiv = False        # opt-in: `a // b` becomes the uninterpreted atom floordiv(a, b) instead of Unknown
        self._locals: Optional[Set[str]] = None

    def clone(self) -> 'Env':
        e = Env(self.model, self.fn, self.inline, self.self_call, self.opaque)
        e.vars, e.fun_alias, e.depth = dict(self.vars), dict(self.fun_alias), self.depth
        e.floordiv = self.floordiv
        return e

    def local_names(self) -> Set[str]:
        if self._locals is None:
            out: Set[str] = set()
            if self.fn is not None:
                out |= set(self.fn.params)
                for n in ast.walk(self.fn.node):
                    if isinstance(n, ast.Name) and isinstance(n.ctx, (ast.Store, ast.Del)):
                        out.add(n.id)
            self._locals = out
        return self._locals


def from_ast(e: ast.AST, env: Env) -> Term:
    if isinstance(e, ast.Constant):
        if isinstance(e.value, complex):
            # a + b j with the imaginary unit as a symbol (j*j is NOT reduced: enough to compare linear expressions)
            return Term.const(Fraction(e.value.real)) + Term.const(Fraction(e.value.imag)) * Term.sym('1j')
        if isinstance(e.value, bool) or not isinstance(e.value, (int, float)):
            raise Unknown('non-numeric constant %r' % (e.value,))
        return Term.const(Fraction(e.value))
    if isinstance(e, ast.Name):
        if e.id in env.vars:
            return env.vars[e.id]
        if env.opaque is not None and env.model is not None and env.fn is not None and env.depth < 8 \
                and e.id not in env.local_names():
            c = env.model.module_constant(env.fn.module, e.id)
            if c is not None and not isinstance(c, (ast.Lambda, ast.Dict, ast.List, ast.Set)):
                ce = Env(env.model, env.fn, env.inline, None, env.opaque)
                ce._locals = set()
                ce.depth = env.depth + 1
                try:
                    return from_ast(c, ce)
                except Unknown:
                    pass
        return Term.sym(e.id)
    if isinstance(e, ast.Attribute):
        s = norm(e)
        if s in CANON_FUNCS and CANON_FUNCS[s] == 'pi':
            return Term.sym('pi')
        return Term.sym(s)
    if isinstance(e, ast.UnaryOp):
        v = from_ast(e.operand, env)
        if isinstance(e.op, ast.USub):
            return -v
        if isinstance(e.op, ast.UAdd):
            return v
        raise Unknown('unary operator %s' % type(e.op).__name__)
    if isinstance(e, ast.BinOp):
        l, r = from_ast(e.left, env), from_ast(e.right, env)
        if isinstance(e.op, ast.Add):
            return l + r
        if isinstance(e.op, ast.Sub):
            return l - r
        if isinstance(e.op, ast.Mult):
            return l * r
        if isinstance(e.op, ast.Div):
            return l * t_pow(r, Term.const(-1))
        if isinstance(e.op, ast.Pow):
            return t_pow(l, r)
        if isinstance(e.op, ast.FloorDiv) and getattr(env, 'floordiv', False):
            if l.is_const() and r.is_const() and r.const_value() != 0 and l.const_value().denominator == 1 and r.const_value().denominator == 1:
                return Term.const(Fraction(int(l.const_value()) // int(r.const_value())))
            return t_call('floordiv', [l, r])
        raise Unknown('binary operator %s' % type(e.op).__name__)
    if isinstance(e, ast.Call):
        fs = norm(e.func)
        if fs in TRANSPARENT or fs.split('.')[-1] == 'cast':
            return from_ast(e.args[-1], env)
        # re-shapings that keep every element (the terms are elementwise / reductions over all elements)
        if fs in ('np.broadcast_to', 'numpy.broadcast_to') and len(e.args) == 2 and not e.keywords:
            return from_ast(e.args[0], env)          # the same values, repeated: elementwise terms do not see the difference
        if fs in ('np.ravel', 'np.atleast_1d', 'np.atleast_2d', 'np.ascontiguousarray', 'np.copy') and len(e.args) == 1 \
                and all(k.arg in ('order',) for k in e.keywords):
            return from_ast(e.args[0], env)
        if isinstance(e.func, ast.Attribute) and e.func.attr == 'reshape' and len(e.args) == 1 and norm(e.args[0]) in ('-1', '(-1,)') \
                and all(k.arg == 'order' for k in e.keywords) \
                and not (isinstance(e.func.value, ast.Name) and e.func.value.id in ('np', 'numpy')):
            return from_ast(e.func.value, env)
        if isinstance(e.func, ast.Attribute) and e.func.attr in ('ravel', 'flatten', 'copy') and not e.keywords \
                and len(e.args) <= 1 and all(isinstance(a_, ast.Constant) for a_ in e.args) \
                and not (isinstance(e.func.value, ast.Name) and e.func.value.id in ('np', 'numpy', 'math', 'copy')):
            return from_ast(e.func.value, env)
        if isinstance(e.func, ast.Attribute) and e.func.attr in ('sum', 'mean') and not e.args and not e.keywords \
                and not (isinstance(e.func.value, ast.Name) and e.func.value.id in ('np', 'numpy', 'math')):
            return t_call(e.func.attr, [from_ast(e.func.value, env)])           # x.sum() is np.sum(x)
        args = [from_ast(a, env) for a in e.args]
        kw = {(k.arg or '**'): from_ast(k.value, env) for k in e.keywords}
        if isinstance(e.func, ast.Name) and e.func.id in env.fun_alias:
            fs = env.fun_alias[e.func.id]
        fname = CANON_FUNCS.get(fs)
        if fname is not None and not kw:
            return t_call(fname, args)
        if fs in ('np.multiply', 'np.divide', 'np.true_divide', 'np.add', 'np.subtract') and len(args) == 2 and set(kw) <= {'out'}:
            a_, b_ = args
            return a_ * b_ if fs == 'np.multiply' else a_ + b_ if fs == 'np.add' else a_ - b_ if fs == 'np.subtract' \
                else a_ * t_pow(b_, Term.const(-1))
        if fs in ('np.where', 'numpy.where') and len(args) == 3 and not kw:
            mask_ = e.args[0]
            if isinstance(mask_, ast.Name) and env.fn is not None:
                from .astutil import single_locals as _sl
                mask_ = _sl(env.fn).get(mask_.id, mask_)          # a named mask: `small = np.abs(x) < 1e-15`
            if _snap_test(mask_) == norm(e.args[2]) and args[1].is_const() and args[1].const_value() == 0:
                return args[2]          # snap-to-zero idiom: the identity up to the literal tiny threshold
            # piecewise value: the same term on both sides is that term; otherwise it stays an explicit piecewise atom
            if args[1] == args[2]:
                return args[1]
            return Term.atom(('call', 'where', tuple(a.key() for a in args)))
        # repo function to inline / self method
        short = fs.split('.')[-1]
        if env.self_call is not None and fs.startswith('self.'):
            r = env.self_call(short, args)
            if r is not None:
                return r
        if short in env.inline and env.model is not None and env.fn is not None and env.depth < 6:
            g = env.model.resolve_function(env.fn.module, e.func)
            if g is not None:
                params, body = function_term(env.model, g, env.inline, depth=env.depth + 1)
                if len(params) < len(args):
                    raise Unknown('arity of %s' % fs)
                sub = dict(zip(params, args))
                sub.update(kw)
                return substitute(body, sub)
        if env.opaque is not None and short not in env.opaque and env.model is not None and env.fn is not None:
            g = env.model.resolve_call(env.fn, e)
            if g is not None:
                try:
                    if env.depth >= 6:
                        raise Unknown('helper nesting too deep at %s' % fs)
                    params, body = function_term(env.model, g, env.inline, depth=env.depth + 1, self_call=env.self_call,
                                                 opaque=env.opaque)
                except Unknown:
                    # not a plain formula: the call stays an uninterpreted atom (sound: equal to nothing but itself)
                    return Term.atom(('call', fs, tuple(a.key() for a in args) + tuple(('kw', k, v.key()) for k, v in sorted(kw.items()))))
                if len(params) < len(args) or '**' in kw:
                    raise Unknown('arity of %s' % fs)
                sub = dict(zip(params, args))
                sub.update(kw)
                missing = [p for p in params if p not in sub]
                if missing:
                    a = g.node.args
                    pos = a.posonlyargs + a.args
                    defaults = dict(zip([x.arg for x in pos[len(pos) - len(a.defaults):]], a.defaults))
                    defaults.update({x.arg: d for x, d in zip(a.kwonlyargs, a.kw_defaults) if d is not None})
                    for pn in missing:
                        if pn not in defaults:
                            raise Unknown('missing argument %s of %s' % (pn, fs))
                        sub[pn] = from_ast(defaults[pn], Env(None, None))
                return substitute(body, sub)
        return Term.atom(('call', fs, tuple(a.key() for a in args) + tuple(('kw', k, v.key()) for k, v in sorted(kw.items()))))
    if isinstance(e, ast.Subscript):
        return Term.sym(norm(e))
    if isinstance(e, ast.Compare):
        # a data-dependent condition: an opaque atom (it can only make a formula piecewise, see np.where)
        return Term.atom(('cond', norm(e)))
    raise Unknown('expression kind %s: %s' % (type(e).__name__, norm(e)[:50]))


def substitute(t: Term, sub: Dict[str, Term], calls=None) -> Term:
    """Replace symbols by terms; `calls` maps a call name to f(args: List[Term]) -> Optional[Term] (an interpretation of that
    call: None keeps the call as an atom)."""
    out = Term({})
    for m, c in t.terms:
        prod = Term.const(c)
        for a, e in m:
            prod = prod * t_pow(_subst_atom(a, sub, calls), Term.const(e))
        out = out + prod
    return out


def _subst_atom(a: Atom, sub: Dict[str, Term], calls=None) -> Term:
    if a[0] == 'sym':
        return sub.get(a[1], Term.atom(a))
    if a[0] == 'call':
        args = []
        kws = []
        for x in a[2]:
            if isinstance(x, tuple) and x and x[0] == 'kw':
                kws.append(('kw', x[1], substitute(_t(x[2]), sub, calls).key()))
            else:
                args.append(substitute(_t(x), sub, calls))
        if calls and not kws:
            f = calls.get(a[1]) or calls.get(a[1].split('.')[-1])
            if f is not None:
                r = f(args)
                if r is not None:
                    return r
        canon = a[1] if a[1] in set(CANON_FUNCS.values()) else None
        if canon and not kws:
            return t_call(canon, args)
        return Term.atom(('call', a[1], tuple(x.key() for x in args) + tuple(kws)))
    if a[0] == 'pow':
        return t_pow(substitute(_t(a[1]), sub, calls), substitute(_t(a[2]), sub, calls))
    return Term.atom(a)


def function_term(model: Optional[Model], fn: FuncInfo, inline: Optional[Set[str]] = None, depth: int = 0,
                  self_call=None, opaque: Optional[Set[str]] = None) -> Tuple[List[str], Term]:
    """(parameter names, normal form of the returned value) of a straight-line scalar function.

    Accepted statements: single-target assignments of formulas to locals, function aliases chosen by a branch
    (`log10 = np.log10` / `math.log10`), if/else whose branches produce the same normal forms, a final return.
    Anything else raises Unknown.
    """
    env = Env(model, fn, inline, self_call, opaque)
    env.depth = depth
    params = [p for p in fn.params if p not in ('self', 'cls')]

    def run(body: List[ast.stmt], env: Env) -> Optional[Term]:
        for s in body:
            if isinstance(s, ast.Expr) and isinstance(s.value, ast.Constant):
                continue
            if is_snap_store(s):
                continue
            if isinstance(s, ast.AugAssign) and isinstance(s.target, ast.Name) and isinstance(s.op, (ast.Add, ast.Sub, ast.Mult, ast.Div, ast.Pow)):
                cur = env.vars.get(s.target.id, Term.sym(s.target.id))
                val = from_ast(s.value, env)
                if isinstance(s.op, ast.Add):
                    env.vars[s.target.id] = cur + val
                elif isinstance(s.op, ast.Sub):
                    env.vars[s.target.id] = cur - val
                elif isinstance(s.op, ast.Mult):
                    env.vars[s.target.id] = cur * val
                elif isinstance(s.op, ast.Div):
                    env.vars[s.target.id] = cur * t_pow(val, Term.const(-1))
                else:
                    env.vars[s.target.id] = t_pow(cur, val)
                continue
            if isinstance(s, (ast.Assign, ast.AnnAssign)):
                tg = s.targets[0] if isinstance(s, ast.Assign) else s.target
                if s.value is None:
                    continue
                if not isinstance(tg, ast.Name):
                    raise Unknown('store to %s' % norm(tg))
                fs = norm(s.value)
                if fs in CANON_FUNCS and isinstance(s.value, (ast.Attribute, ast.Name)):
                    env.fun_alias[tg.id] = fs
                    continue
                env.vars[tg.id] = from_ast(s.value, env)
                continue
            if isinstance(s, ast.Return):
                if s.value is None:
                    raise Unknown('bare return')
                return from_ast(s.value, env)
            if isinstance(s, ast.If):
                e1, e2 = env.clone(), env.clone()
                r1 = run(s.body, e1)
                r2 = run(s.orelse, e2) if s.orelse else None
                if (r1 is None) != (r2 is None) and s.orelse:
                    raise Unknown('branch returns on one side only')
                if r1 is not None and r2 is not None:
                    if r1 != r2:
                        raise Unknown('data-dependent branch with different results')
                    return r1
                if r1 is not None and not s.orelse:
                    raise Unknown('conditional early return')
                canon1 = {k: CANON_FUNCS.get(v, v) for k, v in e1.fun_alias.items()}
                canon2 = {k: CANON_FUNCS.get(v, v) for k, v in e2.fun_alias.items()}
                if s.orelse and (canon1 != canon2 or e1.vars != e2.vars):
                    raise Unknown('data-dependent branch assigns different formulas')
                if not s.orelse and (e1.vars != env.vars or
                                     {k: CANON_FUNCS.get(v, v) for k, v in env.fun_alias.items()} != canon1):
                    raise Unknown('one-sided branch changes a formula')
                env.vars, env.fun_alias = e1.vars, e1.fun_alias
                continue
            if isinstance(s, (ast.Assert, ast.Pass)):
                continue
            raise Unknown('statement kind %s' % type(s).__name__)
        return None

    r = run(fn.node.body, env)
    if r is None:
        raise Unknown('function %s has no return of a formula' % fn.qualname)
    return params, r


def parse_spec(src: str, env: Optional[Env] = None, **symbols: Term) -> Term:
    """Specification term written as a Python expression, normalised by the very same rules."""
    e = ast.parse(src, mode='eval').body
    env = env or Env(None, None)
    env.vars.update(symbols)
    return from_ast(e, env)


# ---------------------------------------------------------------------------------------------
def path_terms(model: Optional[Model], fn: FuncInfo, inline: Optional[Set[str]] = None, self_call=None,
               limit: int = 32, opaque: Optional[Set[str]] = None) -> List[Tuple[Tuple[str, ...], Term]]:
    """Normal form of the returned value along every path of a loop-free function: [(conditions, term)]."""
    results: List[Tuple[Tuple[str, ...], Term]] = []

    def clone(env: Env) -> Env:
        return env.clone()

    def run(body: List[ast.stmt], env: Env, conds: Tuple[str, ...], rest: List[List[ast.stmt]]) -> None:
        if len(results) > limit:
            raise Unknown('too many paths')
        for i, s in enumerate(body):
            if isinstance(s, ast.Expr) and isinstance(s.value, ast.Constant):
                continue
            if is_snap_store(s):
                continue
            if isinstance(s, ast.AugAssign) and isinstance(s.target, ast.Name) and isinstance(s.op, (ast.Add, ast.Sub, ast.Mult, ast.Div, ast.Pow)):
                cur = env.vars.get(s.target.id, Term.sym(s.target.id))
                val = from_ast(s.value, env)
                if isinstance(s.op, ast.Add):
                    env.vars[s.target.id] = cur + val
                elif isinstance(s.op, ast.Sub):
                    env.vars[s.target.id] = cur - val
                elif isinstance(s.op, ast.Mult):
                    env.vars[s.target.id] = cur * val
                elif isinstance(s.op, ast.Div):
                    env.vars[s.target.id] = cur * t_pow(val, Term.const(-1))
                else:
                    env.vars[s.target.id] = t_pow(cur, val)
                continue
            if isinstance(s, (ast.Assign, ast.AnnAssign)):
                tg = s.targets[0] if isinstance(s, ast.Assign) else s.target
                if s.value is None:
                    continue
                if not isinstance(tg, ast.Name):
                    raise Unknown('store to %s' % norm(tg))
                fs = norm(s.value)
                if fs in CANON_FUNCS and isinstance(s.value, (ast.Attribute, ast.Name)):
                    env.fun_alias[tg.id] = fs
                    continue
                env.vars[tg.id] = from_ast(s.value, env)
                continue
            if isinstance(s, ast.Return):
                if s.value is None:
                    raise Unknown('bare return')
                results.append((conds, from_ast(s.value, env)))
                return
            if isinstance(s, ast.If):
                tail = [body[i + 1:]] + rest
                run(s.body, clone(env), conds + (norm(s.test),), tail)
                run(s.orelse, clone(env), conds + ('not (%s)' % norm(s.test),), tail)
                return
            if isinstance(s, (ast.Assert, ast.Pass)):
                continue
            if isinstance(s, ast.Raise):
                return
            raise Unknown('statement kind %s' % type(s).__name__)
        if rest:
            run(rest[0], env, conds, rest[1:])

    env = Env(model, fn, inline, self_call, opaque)
    run(fn.node.body, env, (), [])
    if not results:
        raise Unknown('function %s has no return of a formula' % fn.qualname)
    return results


def local_terms(model: Optional[Model], fn: FuncInfo, inline: Optional[Set[str]] = None,
                opaque: Optional[Set[str]] = None) -> Dict[str, Term]:
    """Normal forms of the single-assignment locals of fn that are plain formulas (others are skipped)."""
    counts: Dict[str, int] = {p: 1 for p in fn.params}     # a re-assigned parameter is not single-assignment
    for n in walk_no_nested(fn.node):
        if isinstance(n, (ast.Assign, ast.AnnAssign, ast.AugAssign)):
            for t in (n.targets if isinstance(n, ast.Assign) else [n.target]):
                for x in ast.walk(t):
                    if isinstance(x, ast.Name) and isinstance(x.ctx, ast.Store):
                        counts[x.id] = counts.get(x.id, 0) + 1
        elif isinstance(n, (ast.For, ast.comprehension)):
            for x in ast.walk(n.target):
                if isinstance(x, ast.Name):
                    counts[x.id] = counts.get(x.id, 0) + 2
    env = Env(model, fn, inline, None, opaque)
    out: Dict[str, Term] = {}
    # `a, b = np.broadcast_arrays(x, y)`: for elementwise terms a is x and b is y (only when that is the single binding of a and b)
    bcast: Dict[int, List[Tuple[str, ast.expr]]] = {}
    for n in walk_no_nested(fn.node):
        if isinstance(n, ast.Assign) and len(n.targets) == 1 and isinstance(n.targets[0], (ast.Tuple, ast.List)) \
                and isinstance(n.value, ast.Call) and norm(n.value.func) in ('np.broadcast_arrays', 'numpy.broadcast_arrays') \
                and not n.value.keywords and len(n.value.args) == len(n.targets[0].elts) \
                and all(isinstance(t_, ast.Name) for t_ in n.targets[0].elts):
            bcast[id(n)] = [(t_.id, a_) for t_, a_ in zip(n.targets[0].elts, n.value.args)]
    # names (re)bound ONLY by top-level statements of the function body follow sequential semantics (the value after the
    # last of them); augmented assignments included
    nested: Set[str] = set()
    for top in fn.node.body:
        if isinstance(top, (ast.Assign, ast.AnnAssign, ast.AugAssign, ast.Expr, ast.Return, ast.Pass, ast.Assert)):
            continue
        for x in ast.walk(top):
            if isinstance(x, ast.Name) and isinstance(x.ctx, (ast.Store, ast.Del)):
                nested.add(x.id)
    sequential = {k for k, v in counts.items() if v > 1 and k not in nested and k not in fn.params}
    top_level = {id(n) for n in fn.node.body}
    for n in sorted((n for n in walk_no_nested(fn.node) if isinstance(n, (ast.Assign, ast.AnnAssign, ast.AugAssign))),
                    key=lambda n: (n.lineno, n.col_offset)):
        if isinstance(n, ast.AugAssign):
            if isinstance(n.target, ast.Name) and n.target.id in sequential and id(n) in top_level and n.target.id in env.vars \
                    and isinstance(n.op, (ast.Add, ast.Sub, ast.Mult, ast.Div)):
                try:
                    val = from_ast(n.value, env)
                except Unknown:
                    env.vars.pop(n.target.id, None)
                    out.pop(n.target.id, None)
                    continue
                cur = env.vars[n.target.id]
                t = cur + val if isinstance(n.op, ast.Add) else cur - val if isinstance(n.op, ast.Sub) else \
                    cur * val if isinstance(n.op, ast.Mult) else cur * t_pow(val, Term.const(-1))
                env.vars[n.target.id] = t
                out[n.target.id] = t
            continue
        tg = n.targets[0] if isinstance(n, ast.Assign) else n.target
        if id(n) in bcast:
            vals_ = []
            try:
                vals_ = [(nm_, from_ast(a_, env)) for nm_, a_ in bcast[id(n)]]
            except Unknown:
                vals_ = []
            for nm_, t_ in vals_:
                if counts.get(nm_, 0) == 1 or (nm_ in sequential and id(n) in top_level):
                    env.vars[nm_] = t_
                    out[nm_] = t_
            continue
        if not isinstance(tg, ast.Name) or n.value is None:
            continue
        if counts.get(tg.id, 0) != 1 and not (tg.id in sequential and id(n) in top_level):
            continue
        try:
            t = from_ast(n.value, env)
        except Unknown:
            env.vars.pop(tg.id, None)
            out.pop(tg.id, None)
            continue
        env.vars[tg.id] = t
        out[tg.id] = t
    return out


def block_env(model: Optional[Model], fn: FuncInfo, stmts: List[ast.stmt], env: Optional[Env] = None,
              opaque: Optional[Set[str]] = None) -> Env:
    """Sequential semantics of a straight-line statement list: plain and augmented assignments to names, and ufunc calls
    writing into a named local through out= (np.divide(x, n, out=x)).  Anything else that binds a name forgets it."""
    env = env or Env(model, fn, None, None, opaque)
    for s in stmts:
        try:
            if isinstance(s, (ast.Assign, ast.AnnAssign)) and s.value is not None:
                tg = s.targets[0] if isinstance(s, ast.Assign) else s.target
                if isinstance(tg, ast.Name):
                    env.vars[tg.id] = from_ast(s.value, env)
                continue
            if isinstance(s, ast.AugAssign) and isinstance(s.target, ast.Name) and isinstance(s.op, (ast.Add, ast.Sub, ast.Mult, ast.Div)):
                cur = env.vars.get(s.target.id, Term.sym(s.target.id))
                val = from_ast(s.value, env)
                env.vars[s.target.id] = cur + val if isinstance(s.op, ast.Add) else cur - val if isinstance(s.op, ast.Sub) else \
                    cur * val if isinstance(s.op, ast.Mult) else cur * t_pow(val, Term.const(-1))
                continue
            if isinstance(s, ast.Expr) and isinstance(s.value, ast.Call):
                outs = [k.value for k in s.value.keywords if k.arg == 'out']
                if outs and isinstance(outs[0], ast.Name):
                    plain = ast.Call(func=s.value.func, args=s.value.args, keywords=[k for k in s.value.keywords if k.arg != 'out'])
                    env.vars[outs[0].id] = from_ast(ast.copy_location(plain, s.value), env)
                continue
        except Unknown:
            for x in ast.walk(s):
                if isinstance(x, ast.Name) and isinstance(x.ctx, ast.Store):
                    env.vars.pop(x.id, None)
            continue
        for x in ast.walk(s):
            if isinstance(x, ast.Name) and isinstance(x.ctx, ast.Store):
                env.vars.pop(x.id, None)
    return env


def atoms_of(t: Term):
    """All atoms occurring anywhere in t (recursively)."""
    for m, _ in t.terms:
        for a, _e in m:
            yield a
            if a[0] == 'call':
                for x in a[2]:
                    if isinstance(x, tuple) and x and x[0] == 'kw':
                        yield from atoms_of(_t(x[2]))
                    else:
                        yield from atoms_of(_t(x))
            elif a[0] == 'pow':
                yield from atoms_of(_t(a[1]))
                yield from atoms_of(_t(a[2]))


def coefficient_of(t: Term, atom_pred) -> Term:
    """Sum of (rest of monomial) over monomials containing exactly one atom (exponent 1) matching atom_pred."""
    out = Term({})
    for m, c in t.terms:
        hits = [(a, e) for a, e in m if atom_pred(a)]
        if len(hits) == 1 and hits[0][1] == 1:
            rest = tuple((a, e) for a, e in m if not atom_pred(a))
            out = out + Term({rest: c})
    return out


def as_fraction(t: Term) -> Tuple[Term, Term]:
    """(numerator, denominator) with every inverse integer power of a sum moved into the denominator."""
    dens: Dict[Tuple, int] = {}

    def neg_power(a, k) -> Optional[Tuple[Tuple, int]]:
        if a[0] == 'pow':
            E = _t(a[2])
            if E.is_const():
                tot = E.const_value() * k
                if tot < 0 and tot.denominator == 1:
                    return a[1], int(-tot)
        return None

    for m, _c in t.terms:
        for a, k in m:
            r = neg_power(a, k)
            if r is not None:
                dens[r[0]] = max(dens.get(r[0], 0), r[1])
    if not dens:
        return t, Term.const(1)
    den = Term.const(1)
    for bkey, p in dens.items():
        den = den * t_pow(_t(bkey), Term.const(p))
    num = Term({})
    for m, c in t.terms:
        own: Dict[Tuple, int] = {}
        rest = []
        for a, k in m:
            r = neg_power(a, k)
            if r is not None:
                own[r[0]] = own.get(r[0], 0) + r[1]
            else:
                rest.append((a, k))
        part = Term({tuple(rest): c})
        for bkey, p in dens.items():
            q = p - own.get(bkey, 0)
            if q:
                part = part * t_pow(_t(bkey), Term.const(q))
        num = num + part
    return num, den


def rat_equal(a: Term, b: Term) -> bool:
    """Equality of rational expressions by cross-multiplication of cleared denominators."""
    if a == b:
        return True
    na, da = as_fraction(a)
    nb, db = as_fraction(b)
    return na * db == nb * da
