"""C17 - saving and loading parameters and results loses nothing (writer/reader agreement)."""
from __future__ import annotations

import ast
from typing import Dict, List, Optional, Set, Tuple

from .. import codec
from ..model import FuncInfo, Model, is_self_attr, norm, walk_no_nested
from ..report import Ctx
from ..selftest import Mutant, synthetic_overlay

RES = 'pyphysim/simulations/results.py'
PAR = 'pyphysim/simulations/parameters.py'
SER = 'pyphysim/util/serialize.py'

EXPLANATION = (
    'Decides the writer/reader agreement clauses of C17, not value equality. C17.a: every key emitted by '
    '_to_dict of Result / SimulationResults / SimulationParameters is consumed on EVERY normal path of the '
    'matching _from_dict. C17.b: every attribute __eq__ looks at (explicit list, or whole __dict__ minus the '
    'ignore list, including attributes attached from outside the class) is serialised by _to_dict. C17.c: JSON '
    'tagged-union codec - per isinstance branch of NumpyOrSetEncoder.default: emitted keys are consumed by the '
    'decoder branch of the same tag, scalar converter kind matches the type family (integer->int, floating->float), '
    'families are covered abstractly (np.integer/np.floating, any width), and the fall-through delegates to '
    'JSONEncoder.default; to_json/from_json use exactly this encoder/hook. C17.d: save and load dispatch on the '
    'same extensions with the same default. Not decided: file-name injectivity, pickle fidelity, idempotence as values.'
    ' C17.g: a reader never feeds the items of one stored group through a writer that replaces the entry of the key.')

PAIRS = [
    (RES, 'Result', 10),
    (RES, 'SimulationResults', 4),
    (PAR, 'SimulationParameters', 4),
]

INT_FAMILY = {'int', 'np.integer', 'np.signedinteger', 'np.unsignedinteger', 'np.int_', 'np.intc', 'np.intp',
              'np.int8', 'np.int16', 'np.int32', 'np.int64', 'np.uint8', 'np.uint16', 'np.uint32', 'np.uint64',
              'np.long', 'np.longlong', 'np.short', 'np.byte'}
FLOAT_FAMILY = {'float', 'np.floating', 'np.float16', 'np.float32', 'np.float64', 'np.float128', 'np.float_',
                'np.double', 'np.single', 'np.half', 'np.longdouble'}
ABSTRACT = {'int': 'np.integer', 'float': 'np.floating'}


def _underlying_attr(model: Model, cls, e: ast.AST, sn: str) -> Optional[str]:
    """self._x, or self.prop where the getter returns self._x, possibly wrapped in .to_dict()/calls."""
    for n in ast.walk(e):
        a = is_self_attr(n, sn)
        if a is None:
            continue
        p = model.lookup_property(cls, a)
        if p is not None and p[0] is not None:
            rets = [r for r in walk_no_nested(p[0].node) if isinstance(r, ast.Return) and r.value is not None]
            names = {is_self_attr(r.value, p[0].self_name or 'self') for r in rets}
            if len(names) == 1 and None not in names:
                return names.pop()
        return a
    return None


def _receiver_is(model: Model, fn: FuncInfo, recv: ast.AST, cname: str) -> bool:
    """Cheap static typing of a receiver expression: annotation, constructor assignment, loader call."""
    def makes(v: ast.AST) -> bool:
        return isinstance(v, ast.Call) and (norm(v.func) == cname or norm(v.func).startswith(cname + '.'))
    if isinstance(recv, ast.Name):
        a = fn.node.args
        for p in a.posonlyargs + a.args + a.kwonlyargs:
            if p.arg == recv.id and p.annotation is not None and cname in norm(p.annotation):
                return True
        for n in walk_no_nested(fn.node):
            if isinstance(n, ast.Assign) and any(isinstance(t, ast.Name) and t.id == recv.id for t in n.targets) \
                    and makes(n.value):
                return True
            if isinstance(n, ast.AnnAssign) and isinstance(n.target, ast.Name) and n.target.id == recv.id \
                    and cname in norm(n.annotation):
                return True
        return False
    if isinstance(recv, ast.Attribute) and fn.cls is not None and is_self_attr(recv, fn.self_name or 'self'):
        for k in model.mro(fn.cls):
            for d in (k.methods, k.setters):
                for f in d.values():
                    for n in ast.walk(f.node):
                        if isinstance(n, ast.Assign) and makes(n.value) and \
                                any(is_self_attr(t, f.self_name or 'self') == recv.attr for t in n.targets):
                            return True
    return False


def external_attachers(model: Model, cname: str) -> List[Tuple[FuncInfo, str, int]]:
    out = []
    for fn in model.all_functions():
        if fn.cls is not None and fn.cls.name == cname:
            continue
        for n in ast.walk(fn.node):
            if isinstance(n, ast.Attribute) and isinstance(n.ctx, ast.Store) and not is_self_attr(n, fn.self_name or ''):
                if _receiver_is(model, fn, n.value, cname):
                    out.append((fn, n.attr, n.lineno))
    return out


def check(ctx: Ctx) -> None:
    M = ctx.model
    ctx.assume('dict codecs are the _to_dict/_from_dict pairs reached through JsonSerializable.to_json/from_json; '
               'pickle fidelity is the library contract of pickle')
    # ------------------------------------------------------------------ C17.a / C17.b
    ctx.rule('C17.a', 'every key written by _to_dict is consumed on every normal path of _from_dict', floor=18)
    ctx.rule('C17.b', 'every attribute equality looks at is serialised', floor=10)
    for path, cname, nkeys in PAIRS:
        cls = M.cls(cname)
        w = M.func(path, cname + '._to_dict')
        r = M.func(path, cname + '._from_dict')
        items = codec.writer_items(w)
        paths = codec.reader_paths(r)
        if not paths:
            ctx.error('C17.a: reader %s has no normal path' % r.qualname)
        for key in sorted(items):
            construct = '%s:%s' % (cname, key)
            ctx.instance('C17.a', construct)
            missing_on = [sorted(p) for p in paths if key not in p and '*' not in p]
            ok = not missing_on
            ctx.obligation('C17.a', construct, ok, {'key': key, 'reader_paths': len(paths),
                                                     'paths_not_consuming_it': missing_on[:2]})
            if not ok:
                ctx.violation('C17.a', r.qualname, 'key %r written by %s is ignored on a path of %s that reads only %s: '
                              'the round trip loses that field' % (key, w.qualname, r.qualname, missing_on[0]),
                              r.path, r.lineno, operand=key)
        wkeys = set(items)
        for p in paths:
            for k in sorted(set(p) - wkeys - {'*'}):
                ctx.violation('C17.a', r.qualname, 'reader consumes key %r that %s never writes (KeyError on load)'
                              % (k, w.qualname), r.path, r.lineno, operand='unwritten:' + k)
        # --- __eq__ coverage
        eq = M.func(path, cname + '.__eq__')
        sn = w.self_name or 'self'
        written_attrs = {a for a in (_underlying_attr(M, cls, v, sn) for v in items.values()) if a}
        attrs, ignore = codec.eq_compared_attrs(M, eq)
        compared: Dict[str, str] = {a: 'explicit' for a in attrs if not a.startswith('__')}
        if ignore is not None:
            for a in codec.instance_attrs(M, cls):
                if a not in ignore:
                    compared.setdefault(a, '__dict__')
            for fn, a, line in external_attachers(M, cname):
                if a not in ignore:
                    compared.setdefault(a, 'attached by %s' % fn.qualname)
        for a in sorted(compared):
            construct = '%s.__eq__:%s' % (cname, a)
            ctx.instance('C17.b', construct)
            ok = a in written_attrs or (a == 'parameters' and 'parameters' in written_attrs)
            ctx.obligation('C17.b', construct, ok, {'attribute': a, 'how_compared': compared[a],
                                                     'serialised_attrs': sorted(written_attrs)})
            if not ok:
                ctx.violation('C17.b', '%s.__eq__' % cname,
                              'equality compares attribute %r (%s) but %s does not serialise it: a JSON round trip '
                              'of an object with a non-default %s compares unequal'
                              % (a, compared[a], w.qualname, a), eq.path, eq.lineno, operand=a)
    # ------------------------------------------------------------------ C17.h
    ctx.rule('C17.h', 'a dict codec writes each of its keys for EVERY state of the object: a key added only under a test on the state '
                      '(`if self.x > 0: d[k] = self.x`) is replaced by the reader\'s default for the other states, which is a different value '
                      'unless the test is exactly "x != default"', floor=3)
    for path, cname, nkeys in PAIRS:
        w = M.func(path, cname + '._to_dict')
        ctx.instance('C17.h', w.qualname)
        sn_ = w.self_name or 'self'
        cond = []

        def scan(body, guards):
            for st_ in body:
                if isinstance(st_, ast.If):
                    dep = any(isinstance(x_, ast.Name) and x_.id == sn_ for x_ in ast.walk(st_.test))
                    scan(st_.body, guards + [st_.test] if dep else guards)
                    scan(st_.orelse, guards + [st_.test] if dep else guards)
                elif isinstance(st_, (ast.For, ast.While, ast.With, ast.Try)):
                    for fld_ in ('body', 'orelse', 'finalbody'):
                        scan(getattr(st_, fld_, []) or [], guards)
                elif isinstance(st_, ast.Assign) and len(st_.targets) == 1 and isinstance(st_.targets[0], ast.Subscript) \
                        and isinstance(st_.targets[0].slice, ast.Constant) and isinstance(st_.targets[0].slice.value, str) and guards:
                    cond.append((st_, guards[-1]))
        scan(w.node.body, [])
        # a key written in BOTH branches of the test is written for every state
        by_key = {}
        for st_, g_ in cond:
            by_key.setdefault((st_.targets[0].slice.value, id(g_)), []).append(st_)
        bad_ = []
        for (k_, gid_), sts_ in by_key.items():
            owner = [n_ for n_ in ast.walk(w.node) if isinstance(n_, ast.If) and id(n_.test) == gid_][0]
            in_body = any(any(x_ is s2 for x_ in ast.walk(ast.Module(body=owner.body, type_ignores=[]))) for s2 in sts_)
            in_else = any(any(x_ is s2 for x_ in ast.walk(ast.Module(body=owner.orelse, type_ignores=[]))) for s2 in sts_)
            if not (in_body and in_else):
                bad_.append((k_, sts_[0], owner.test))
        ctx.obligation('C17.h', w.qualname, not bad_, {'keys_written_under_a_state_test': [(k_, norm(t_)[:50]) for k_, _s, t_ in bad_]})
        for k_, st_, t_ in bad_[:1]:
            ctx.violation('C17.h', w.qualname, 'key %r is written only when `%s`: for the other states the reader falls back to its default (or '
                          'fails), so the object read back differs from the one written' % (k_, norm(t_)[:60]), w.path, st_.lineno,
                          operand='conditional-key:' + k_)
    # ------------------------------------------------------------------ C17.g
    from ..idioms import grouped_items_through_replacing_writer, replacing_writers
    ctx.rule('C17.g', 'a reader never feeds the items of one stored GROUP (a list per key) through a writer that replaces the entry of the '
                      'key (one-element list) when an appending sibling exists: only the last item of each group would survive the round trip',
             floor=3)
    rw = replacing_writers(M)
    if 'add_result' not in rw:
        ctx.error('C17.g: SimulationResults.add_result is no longer recognised as a replacing writer with an appending sibling (cannot tell)')
    for path, cname, nkeys in PAIRS:
        r = M.func(path, cname + '._from_dict')
        ctx.instance('C17.g', r.qualname)
        hits = list(grouped_items_through_replacing_writer(M, r))
        ctx.obligation('C17.g', r.qualname, not hits, {'replacing_writers': sorted(rw), 'calls_in_nested_loops': [norm(h[0])[:60] for h in hits]},
                       nontrivial=any(isinstance(x, (ast.For, ast.ListComp, ast.DictComp)) for x in ast.walk(r.node)))
        for call, m, depth in hits[:1]:
            ctx.violation('C17.g', r.qualname, '`%s` is called once per item of each stored group (loop depth %d), but %s REPLACES the entry of the '
                          'key with a one-element list: a result list with several values comes back with only its last value'
                          % (norm(call)[:50], depth, m.qualname), r.path, call.lineno, operand='replacing-writer:' + m.name)
    from ..dsf import auto_memo_check
    ctx.rule('C17.e', 'no auto-discovered lazily filled cache of the classes in the anchored modules can be stale at the exit of a public method (dependencies = what the fill expression reads, incl. mutating calls on held sub-objects)', floor=3)
    auto_memo_check(ctx, 'C17.e', [RES, PAR, SER])
    _check_json(ctx)
    _check_dispatch(ctx)
    _check_filename_values(ctx)


def _check_filename_values(ctx: Ctx) -> None:
    """C17.f: scalar parameter values reach the file-name template unrounded."""
    M = ctx.model
    ctx.rule('C17.f', 'replace_dict_values (the file-name builder) hands every scalar value of the dictionary to the template as it is: no '
                      'rounding / truncation / fixed-precision formatting of a value on its way into the name (distinct values must give '
                      'distinct names)', floor=1)
    fn = M.func('pyphysim/util/misc.py', 'replace_dict_values')
    ctx.instance('C17.f', fn.qualname)
    LOSSY = {'round', 'np.round', 'np.around', 'np.round_', 'np.floor', 'np.ceil', 'np.trunc', 'np.rint', 'int', 'math.floor', 'math.ceil',
             'math.trunc', 'np.float32', 'np.float16', 'np.format_float_positional', 'np.format_float_scientific'}
    hits = []
    for n in walk_no_nested(fn.node):
        if isinstance(n, ast.Call) and norm(n.func) in LOSSY:
            hits.append((n, 'the value passes through `%s`' % norm(n)[:50]))
        if isinstance(n, ast.Call) and norm(n.func) == 'format' and len(n.args) == 2 and isinstance(n.args[1], ast.Constant) \
                and isinstance(n.args[1].value, str) and '.' in n.args[1].value:
            hits.append((n, 'the value is formatted with the fixed precision %r' % n.args[1].value))
        if isinstance(n, ast.BinOp) and isinstance(n.op, ast.Mod) and isinstance(n.left, ast.Constant) and isinstance(n.left.value, str) \
                and __import__('re').search(r'%\.?\d*[efg]', n.left.value):
            hits.append((n, 'the value is formatted with `%s`' % n.left.value))
        if isinstance(n, ast.FormattedValue) and n.format_spec is not None and '.' in norm(n.format_spec):
            hits.append((n, 'the value is formatted with a fixed precision f-string spec'))
        if isinstance(n, ast.Call) and isinstance(n.func, ast.Attribute) and n.func.attr == 'format' and isinstance(n.func.value, ast.Constant) \
                and isinstance(n.func.value.value, str) and __import__('re').search(r'\{[^}]*:[^}]*\.\d', n.func.value.value):
            hits.append((n, 'the value is formatted with the fixed precision template %r' % n.func.value.value))
    ctx.obligation('C17.f', fn.qualname, not hits, {'lossy_steps': [h[1] for h in hits]} if hits else None, nontrivial=True)
    for node, why in hits[:1]:
        ctx.violation('C17.f', fn.qualname, '%s: two parameter values that differ below that precision (e.g. noise powers 3.98e-14 and 7.94e-14 W) get '
                      'the same file name, and the second save overwrites the first' % why, fn.path, node.lineno, operand='lossy-name')


# ----------------------------------------------------------------------------------------------
def _isinstance_types(test: ast.AST, var: str) -> Optional[List[str]]:
    if isinstance(test, ast.Call) and isinstance(test.func, ast.Name) and test.func.id == 'isinstance' \
            and len(test.args) == 2 and isinstance(test.args[0], ast.Name) and test.args[0].id == var:
        t = test.args[1]
        elts = t.elts if isinstance(t, ast.Tuple) else [t]
        return [norm(e).replace('numpy.', 'np.') for e in elts]
    return None


def _check_json(ctx: Ctx) -> None:
    M = ctx.model
    ctx.rule('C17.c', 'JSON codec: emitted keys consumed per tag, converter kind matches the type family, abstract '
                      'families, fall-through delegates, to_json/from_json use this codec', floor=6)
    enc = M.func(SER, 'NumpyOrSetEncoder.default')
    dec = M.func(SER, 'json_numpy_or_set_obj_hook')
    var = [p for p in enc.params if p != 'self'][0]
    dvar = dec.params[0]
    # decoder: tag -> keys consumed in that branch
    dec_tags: Dict[str, Set[str]] = {}
    for n in walk_no_nested(dec.node):
        if isinstance(n, ast.If):
            tags = [c.left.value for c in ast.walk(n.test)
                    if isinstance(c, ast.Compare) and isinstance(c.left, ast.Constant) and isinstance(c.left.value, str)
                    and len(c.ops) == 1 and isinstance(c.ops[0], ast.In)
                    and isinstance(c.comparators[0], ast.Name) and c.comparators[0].id == dvar]
            for t in tags:
                keys = set()
                for s in n.body:
                    keys |= codec._keys_read(s, dvar)
                dec_tags.setdefault(t, set()).update(keys)
    seen_int = seen_float = False
    body = enc.node.body
    for s in body:
        if not isinstance(s, ast.If):
            continue
        types = _isinstance_types(s.test, var)
        if types is None:
            continue
        rets = [r for r in ast.walk(s) if isinstance(r, ast.Return) and r.value is not None]
        if len(rets) != 1:
            ctx.error('C17.c: encoder branch for %s has %d returns (idiom unknown)' % (types, len(rets)))
        rv = rets[0].value
        construct = 'NumpyOrSetEncoder.default:' + '|'.join(types)
        ctx.instance('C17.c', construct)
        if isinstance(rv, ast.Dict):
            # layout: whatever flattens/reshapes the payload must do so in C order on both sides ('K'/'A' depend on the
            # memory layout of the individual array, the decoder cannot know it)
            for c_ in [n for n in ast.walk(rv) if isinstance(n, ast.Call) and isinstance(n.func, ast.Attribute)
                       and n.func.attr in ('ravel', 'flatten', 'reshape')]:
                order = 'C'
                for k_ in c_.keywords:
                    if k_.arg == 'order':
                        order = k_.value.value if isinstance(k_.value, ast.Constant) else '?'
                if c_.func.attr in ('ravel', 'flatten') and c_.args and isinstance(c_.args[0], ast.Constant):
                    order = c_.args[0].value
                lconstruct = 'NumpyOrSetEncoder.default:' + '|'.join(types) + ':layout'
                ctx.instance('C17.c', lconstruct)
                ctx.obligation('C17.c', lconstruct, order == 'C', {'call': norm(c_)[:60], 'order': order})
                if order != 'C':
                    ctx.violation('C17.c', 'NumpyOrSetEncoder.default', 'the array payload is flattened with memory order %r (`%s`) but the '
                                  'decoder rebuilds it in C order: arrays that are not C-contiguous (a transpose, a Fortran array) come back '
                                  'with permuted values' % (order, norm(c_)[:50]), enc.path, c_.lineno, operand='layout')
            keys = {k.value for k in rv.keys if isinstance(k, ast.Constant)}
            # the decoder is evaluated on a dictionary that has exactly the emitted keys (membership tests decided, the rest followed
            # on both branches): it must never hand such a dictionary back unchanged, and the paths that decode it must read every key
            outs = codec.decode_outcomes(dec, keys)
            unchanged = [o for o in outs if o[0] in ('unchanged', 'fall-off')]
            decoded = [o for o in outs if o[0] == 'decoded']
            if unchanged or not decoded:
                ctx.obligation('C17.c', construct, False, {'emitted': sorted(keys), 'decoder_paths': [(o[0], sorted(o[1])) for o in outs]})
                ctx.violation('C17.c', 'NumpyOrSetEncoder.default', 'branch for %s emits keys %s of which none/several '
                              'is a tag the decoder dispatches on (%s): on load the dictionary is %s' % (
                                  types, sorted(keys), sorted(dec_tags), 'returned as a plain dictionary' if unchanged else 'never decoded'),
                              enc.path, s.lineno, operand='tag:' + '|'.join(types))
                continue
            consumed = set.intersection(*[set(o[1]) | set(o[2]) for o in decoded])
            tag = sorted(k for k in keys if any(k in o[2] for o in decoded))
            unread = keys - consumed
            ok = not unread
            ctx.obligation('C17.c', construct, ok, {'tag': tag, 'emitted': sorted(keys), 'decoder_consumes': sorted(consumed),
                                                     'decoder_paths': len(outs)})
            if not ok:
                ctx.violation('C17.c', 'json_numpy_or_set_obj_hook',
                              'encoder branch for %s emits %s but the decoder branch for tag %r never reads %s: '
                              'that information (e.g. dtype/shape of arrays) is lost on load'
                              % (types, sorted(keys), '/'.join(tag), sorted(unread)), dec.path, dec.lineno,
                              operand='/'.join(tag) + ':' + ','.join(sorted(unread)))
        else:
            fam = 'int' if set(types) & INT_FAMILY and not set(types) & FLOAT_FAMILY else \
                  'float' if set(types) & FLOAT_FAMILY and not set(types) & INT_FAMILY else None
            if fam is None:
                continue
            if fam == 'int':
                seen_int = True
            else:
                seen_float = True
            conv = rv.func.id if isinstance(rv, ast.Call) and isinstance(rv.func, ast.Name) else norm(rv)
            ok_conv = conv == fam
            ctx.obligation('C17.c', construct + ':converter', ok_conv, {'types': types, 'converter': conv})
            if not ok_conv:
                ctx.violation('C17.c', 'NumpyOrSetEncoder.default',
                              'the %s-family branch %s converts with `%s(...)` instead of `%s(...)`: values are '
                              'silently changed (e.g. np.float32(2.75) -> 2)' % (fam, types, conv, fam),
                              enc.path, s.lineno, operand='converter:' + fam)
            ok_abs = ABSTRACT[fam] in types
            ctx.obligation('C17.c', construct + ':family', ok_abs, {'types': types, 'needs': ABSTRACT[fam]})
            if not ok_abs:
                ctx.violation('C17.c', 'NumpyOrSetEncoder.default',
                              'the %s-family branch enumerates widths %s instead of the abstract %s: numpy scalars '
                              'of other widths (e.g. int16/float16) are not serialisable'
                              % (fam, types, ABSTRACT[fam]), enc.path, s.lineno, operand='family:' + fam)
    if not (seen_int and seen_float):
        ctx.error('C17.c: integer/floating scalar branches of the encoder not found')
    # fall-through
    last = body[-1]
    construct = 'NumpyOrSetEncoder.default:fall-through'
    ctx.instance('C17.c', construct)
    ok = False
    if isinstance(last, ast.Return) and isinstance(last.value, ast.Call):
        f = norm(last.value.func)
        ok = f in ('super().default', 'json.JSONEncoder.default', 'JSONEncoder.default',
                   'super(NumpyOrSetEncoder, self).default')
    ctx.obligation('C17.c', construct, ok, {'stmt': norm(last)})
    if not ok:
        ctx.violation('C17.c', 'NumpyOrSetEncoder.default',
                      'fall-through `%s` does not delegate to JSONEncoder.default: unsupported objects do not raise '
                      'TypeError but are replaced by an encoder object (unbounded recursion)' % norm(last),
                      enc.path, last.lineno, operand='fall-through')
    # to_json / from_json are wired to this codec
    tj = M.func(SER, 'JsonSerializable.to_json')
    fj = M.func(SER, 'JsonSerializable.from_json')
    ok1 = any(isinstance(n, ast.keyword) and n.arg == 'cls' and norm(n.value) == 'NumpyOrSetEncoder' for n in ast.walk(tj.node))
    ok2 = any(isinstance(n, ast.keyword) and n.arg == 'object_hook' and norm(n.value) == 'json_numpy_or_set_obj_hook'
              for n in ast.walk(fj.node))
    ctx.instance('C17.c', 'JsonSerializable.to_json/from_json')
    ctx.obligation('C17.c', 'JsonSerializable.to_json/from_json', ok1 and ok2, {'encoder_wired': ok1, 'hook_wired': ok2})
    if not (ok1 and ok2):
        ctx.violation('C17.c', 'JsonSerializable', 'to_json/from_json no longer use NumpyOrSetEncoder / '
                      'json_numpy_or_set_obj_hook together (encoder=%s hook=%s)' % (ok1, ok2), tj.path, tj.lineno,
                      operand='wiring')


def _dict_table(fn: FuncInfo, name: str) -> Optional[Dict[str, str]]:
    """the one dict display of the function that maps file EXTENSIONS ('.x' string keys) to callables (names / attributes) - whatever
    local it is bound to, or subscripted in place"""
    tabs = [n for n in walk_no_nested(fn.node) if isinstance(n, ast.Dict) and n.keys
            and all(isinstance(k, ast.Constant) and isinstance(k.value, str) and k.value.startswith('.') for k in n.keys)
            and all(isinstance(v, (ast.Name, ast.Attribute)) for v in n.values)]
    if len(tabs) != 1:
        return None
    return {k.value: norm(v) for k, v in zip(tabs[0].keys, tabs[0].values)}


def _default_ext(fn: FuncInfo) -> Set[str]:
    out = set()
    for n in walk_no_nested(fn.node):
        if isinstance(n, ast.If) and isinstance(n.test, ast.Compare) and isinstance(n.test.comparators[0], ast.Constant) \
                and n.test.comparators[0].value == '':
            for s in ast.walk(n):
                if isinstance(s, ast.Assign) and isinstance(s.value, ast.Constant) and isinstance(s.value.value, str) \
                        and s.value.value.startswith('.'):
                    out.add(s.value.value)
    return out


def _check_dispatch(ctx: Ctx) -> None:
    M = ctx.model
    ctx.rule('C17.d', 'save and load dispatch on the same extensions and assume the same default extension', floor=2)
    sv = M.func(RES, 'SimulationResults.save_to_file')
    ld = M.func(RES, 'SimulationResults.load_from_file')
    st = _dict_table(sv, 'ext_to_save_func_mapping')
    lt = _dict_table(ld, 'ext_to_load_func_mapping')
    if st is None or lt is None:
        ctx.error('C17.d: save/load dispatch tables not found (idiom unknown)')
    ctx.instance('C17.d', 'dispatch-keys')
    ok = set(st) == set(lt)
    ctx.obligation('C17.d', 'dispatch-keys', ok, {'save': st, 'load': lt})
    if not ok:
        ctx.violation('C17.d', 'SimulationResults.save_to_file/load_from_file',
                      'extensions handled on save %s differ from those on load %s' % (sorted(st), sorted(lt)),
                      sv.path, sv.lineno, operand='keys')
    for ext in sorted(set(st) & set(lt)):
        fmt = ext.strip('.')
        okp = fmt in st[ext] and fmt in lt[ext]
        ctx.instance('C17.d', 'format:' + ext)
        ctx.obligation('C17.d', 'format:' + ext, okp, {'save_func': st[ext], 'load_func': lt[ext]})
        if not okp:
            ctx.violation('C17.d', 'SimulationResults.save_to_file/load_from_file',
                          'extension %s is saved by %s but loaded by %s' % (ext, st[ext], lt[ext]),
                          sv.path, sv.lineno, operand='format:' + ext)
    ds, dl = _default_ext(sv), _default_ext(ld)
    ctx.instance('C17.d', 'default-extension')
    ok = ds == dl and len(ds) == 1
    ctx.obligation('C17.d', 'default-extension', ok, {'save_default': sorted(ds), 'load_default': sorted(dl)})
    if not ok:
        ctx.violation('C17.d', 'SimulationResults.save_to_file/load_from_file',
                      'default extension appended on save %s differs from the one assumed on load %s'
                      % (sorted(ds), sorted(dl)), sv.path, sv.lineno, operand='default-ext')


# ----------------------------------------------------------------------------------------------
_SYN = '''
class Box:
    def __init__(self):
        self.a = 0
        self.b = 0
    def __eq__(self, other):
        return self.a == other.a and self.b == other.b
    def _to_dict(self):
        return {'a': self.a, 'b': self.b}
    @staticmethod
    def _from_dict(d):
        x = Box()
        if d['a'] > 0:
            x.a = d['a']
            x.b = d['b']
        else:
            x.a = d['a']
        return x
'''


def synthetic():
    ov = synthetic_overlay({'pyphysim/syn.py': _SYN})
    ctx = Ctx('C17', ov)
    w = ctx.model.func('pyphysim/syn.py', 'Box._to_dict')
    r = ctx.model.func('pyphysim/syn.py', 'Box._from_dict')
    items = codec.writer_items(w)
    paths = codec.reader_paths(r)
    missing = [k for k in items if any(k not in p for p in paths)]
    return [('codec-key-dropped-on-one-path', missing == ['b'])]


MUTANTS = [
    Mutant('results-read-back-through-the-replacing-writer', RES, 'SimulationResults._from_dict',
           [('replace', 'simresults._results = results', 'for lst in results.values():\n        for r in lst:\n            simresults.add_result(r)')],
           r'C17\.g:SimulationResults\._from_dict:replacing-writer:add_result'),
    Mutant('benign-results-read-back-through-the-appending-writer', RES, 'SimulationResults._from_dict',
           [('replace', 'simresults._results = results', 'for lst in results.values():\n        for r in lst:\n            simresults.append_result(r)')],
           None, benign=True),
    Mutant('file-name-values-rounded', 'pyphysim/util/misc.py', 'replace_dict_values',
           [('regex', r'(\n        new_dict\[n\] = v)', r'\n        if isinstance(v, float):\n            v = round(v, 12)\1')], r'C17\.f:replace_dict_values:lossy-name'),
    Mutant('drop-num_updates-from-writer', RES, 'Result._to_dict', [('regex', r'num_updates=self\.num_updates,\s*', '')],
           r'C17\.a:Result\._from_dict:unwritten:num_updates'),
    Mutant('reader-misspells-key', RES, 'Result._from_dict', [('replace', "d['total_list']", "d['total_lst']")],
           r'C17\.a:Result\._from_dict:(total_list|unwritten:total_lst)'),
    Mutant('drop-unpack_index-from-reader', PAR, 'SimulationParameters._from_dict',
           [('delete', r"sim_params\._unpack_index = d\['unpack_index'\]")],
           r'C17\.a:SimulationParameters\._from_dict:unpack_index'),
    Mutant('eq-compares-unserialised-attr', RES, 'Result.__eq__',
           [('replace', "'_result_sum']", "'_result_sum', '_extra']")], r'C17\.b:Result\.__eq__:_extra'),
    Mutant('int-converter-in-float-branch', SER, 'NumpyOrSetEncoder.default',
           [('regex', r'(np\.floating[^\n]*\n\s*return )float\(', r'\1int(')],
           r'C17\.c:NumpyOrSetEncoder\.default:converter:float'),
    Mutant('tag-renamed-in-encoder-only', SER, 'NumpyOrSetEncoder.default',
           [('replace', "'_is_set'", "'_is_a_set'")], r'C17\.c:NumpyOrSetEncoder\.default:tag'),
    Mutant('decoder-ignores-dtype', SER, 'json_numpy_or_set_obj_hook',
           [('regex', r"dct\.get\('dtype'\)", "None")], r'C17\.c:json_numpy_or_set_obj_hook:_is_numpy_array'),
    Mutant('json-only-on-save', RES, 'SimulationResults.load_from_file',
           [('regex', r",\s*'\.json': SimulationResults\._load_from_json_file", '')], r'C17\.d:.*keys'),
    Mutant('revert-fix-73dda6d-int-family', SER, 'NumpyOrSetEncoder.default',
           [('replace', 'isinstance(obj, np.integer)', 'isinstance(obj, (np.int32, np.int64))')], r'C17\.c:NumpyOrSetEncoder\.default:family:int'),
    Mutant('revert-fix-73dda6d-fall-through', SER, 'NumpyOrSetEncoder.default',
           [('replace', 'return super().default(obj)', 'return json.JSONEncoder(self, obj)')], r'C17\.c:NumpyOrSetEncoder\.default:fall-through'),
    Mutant('revert-fix-73dda6d-decoder-shape', SER, 'json_numpy_or_set_obj_hook',
           [('regex', r"shape = dct\.get\('shape'\)", 'shape = None')], r'C17\.c:json_numpy_or_set_obj_hook:_is_numpy_array'),
    Mutant('revert-fix-508e8d2-choice-branch', RES, 'Result._from_dict',
           [('regex', r"\n    r\._total = d\['total'\]\n    r\._value_list = d\['value_list'\]\n    r\._total_list = d\['total_list'\]\n    r\.num_updates = d\['num_updates'\]\n    r\._result_sum = d\['result_sum'\]\n    r\._result_squared_sum = d\['result_squared_sum'\]", ''),
            ('regex', r"(accumulate_values=d\['accumulate_values_bool'\]\))\n    return r",
             r"\1\n        r._value_list = d['value_list']\n        r._total_list = d['total_list']\n        r.num_updates = d['num_updates']\n        r._result_sum = d['result_sum']\n        r._result_squared_sum = d['result_squared_sum']\n    return r")],
           r'C17\.a:Result\._from_dict:(value_list|num_updates)'),
    Mutant('revert-fix-572c2a9-current_rep', RES, 'SimulationResults._to_dict',
           [('regex', r"'current_rep': self\.current_rep,\s*", '')], r'C17\.[ab]:SimulationResults'),
    Mutant('encoder-flattens-in-K-order', SER, 'NumpyOrSetEncoder.default',
           [('replace', "'data': obj.tolist()", "'data': obj.ravel(order='K').tolist()")], r'C17\.c:NumpyOrSetEncoder\.default:layout'),
    Mutant('benign-reorder-isinstance-branches', SER, 'NumpyOrSetEncoder.default',
           [('regex', r"(    if isinstance\(obj, np\.ndarray\).*?)(    if isinstance\(obj, set\):\n        return [^\n]*\n)", r'\2\1')],
           None, benign=True),
]

ENGINES = ['model', 'codec']
TECHNIQUE = 'static analysis: writer/reader key-set agreement per reader path, __eq__ coverage, tagged-union codec kinds'
