"""C13 - path-loss and antenna-gain models: derived constants follow setters, small-distance policy, units."""
from __future__ import annotations

import ast
from typing import Dict, List, Optional, Set

from .. import terms as T
from ..dsf import analyse_class
from ..families import PATHLOSS_FS
from ..model import FuncInfo, is_self_attr, norm, walk_no_nested
from ..paths import ExcHierarchy, FlagInterp, guards_and_stores
from ..report import Ctx
from ..selftest import Mutant

PL = 'pyphysim/channels/pathloss.py'
AG = 'pyphysim/channels/antennagain.py'

EXPLANATION = (
    'Decides the structural clauses of C13, not monotonicity or numeric accuracy. C13.a: (DSF) after ANY sequence '
    'of setter calls the free-space constant _C is consistent with _fc and _n; the model parameters '
    '(_n,_C,_fc,_hbs,_hms,_area_type) are written only by constructors and their own setters; Okumura-Hata setters '
    'validate before they store; forward and inverse formulas read the live attributes. C13.b: on every path of '
    'PathLossBase.calc_path_loss_dB a normal return is reached only after the "< 0" test, whose true edge clamps or '
    'raises as selected by handle_small_distances_bool; overrides only delegate. C13.c: (terms) calc_path_loss = '
    'dB2Linear(-calc_path_loss_dB), which_distance = which_distance_dB(-linear2dB), identical in the three bases; '
    'sector antenna pattern = gain_lin * dB2Linear(-min(12 (theta/theta3dB)^2, Am)). C13.d: wherever the inverse '
    'query is offered it is the algebraic inverse of the forward formula (term composition = identity) or raises '
    'NotImplementedError. Not decided: monotonicity, Friis within 0.01 dB, values in (0,1].'
    ' General rules also applied here (see DESIGN 10.5): validate-before-commit (no `raise` reachable after the object was already changed in a public mutator); input immutability (no in-place modification of an array argument, alias- and view-aware).'
    " C13.l: no arithmetic / domain error of a formula is swallowed into a constant. C13.m: raw array-like inputs are not raised to integer powers in the caller's dtype.")

PARAM_ATTRS = {'_n', '_C', '_fc', '_hbs', '_hms', '_area_type'}


def check(ctx: Ctx) -> None:
    M = ctx.model
    ctx.assume('E1 assumptions; real arithmetic for the term identities; shadowing is a random additive dB term')
    # ------------------------------------------------------------------ C13.a
    ctx.rule('C13.a', 'DSF on PathLossFreeSpace; parameter attributes written only by constructors/own setters; '
                      'range-validated setters store after the guard; formulas read live attributes', floor=20)
    analyse_class(ctx, 'C13.a', PATHLOSS_FS, 'PathLossFreeSpace')
    mod = M.module(PL)
    for c in mod.classes.values():
        for fn in list(c.methods.values()) + list(c.setters.values()) + list(c.getters.values()):
            sn = fn.self_name
            if sn is None:
                continue
            for n in ast.walk(fn.node):
                if isinstance(n, ast.Attribute) and isinstance(n.ctx, ast.Store) and is_self_attr(n, sn) in PARAM_ATTRS:
                    construct = '%s:%s' % (fn.qualname, n.attr)
                    ctx.instance('C13.a', construct)
                    own = fn.kind == 'setter' and (fn.name == n.attr.lstrip('_') or n.attr == '_C')
                    ok = fn.name == '__init__' or own
                    ctx.obligation('C13.a', construct, ok, {'writer': fn.qualname, 'attr': n.attr})
                    if not ok:
                        ctx.violation('C13.a', fn.qualname, 'writes model parameter %s outside the constructor and its '
                                      'own setter: derived constants / range validation are bypassed' % n.attr,
                                      fn.path, n.lineno, operand='writer:' + n.attr)
    for fn in M.all_functions():
        if fn.module is mod or fn.kind == 'nested':
            continue
        for n in ast.walk(fn.node):
            if isinstance(n, ast.Attribute) and isinstance(n.ctx, ast.Store) and n.attr in {'_C', '_n', '_hbs', '_hms', '_area_type'} \
                    and not is_self_attr(n, fn.self_name or ''):
                ctx.violation('C13.a', fn.qualname, 'foreign write to path-loss parameter `%s`' % norm(n), fn.path, n.lineno,
                              operand='foreign:' + n.attr)
    oh = M.cls('PathLossOkomuraHata')
    for name, fn in sorted(oh.setters.items()):
        guards, stores = guards_and_stores(fn, set(fn.params) - {'self'}, fn.self_name or 'self')
        construct = 'PathLossOkomuraHata.%s@setter' % name
        ctx.instance('C13.a', construct)
        ok = bool(guards) and bool(stores) and all(s[0] > max(g[0] for g in guards) for s in stores)
        ctx.obligation('C13.a', construct, ok, {'guards': guards, 'stores': [s[2] for s in stores]})
        if not ok:
            ctx.violation('C13.a', construct, 'the setter stores (%s) before / without its range guard (%s): an invalid '
                          'value is kept after the exception' % ([s[2] for s in stores], [g[1] for g in guards]),
                          fn.path, fn.lineno, operand='validate-before-store')
    gen = M.cls('PathLossGeneral')
    for meth, need in (('which_distance_dB', {'_C', '_n'}), ('_calc_deterministic_path_loss_dB', {'_C', '_n'})):
        fn = gen.methods.get(meth)
        if fn is None:
            ctx.error('C13.a: PathLossGeneral.%s vanished' % meth)
        stored_attrs = {n.attr for k_ in M.mro(gen) for f_ in list(k_.methods.values()) + list(k_.setters.values())
                        for n in ast.walk(f_.node) if isinstance(n, ast.Attribute) and isinstance(n.ctx, ast.Store)}
        if not need <= stored_attrs:
            ctx.error('C13.a: the parameters %s of PathLossGeneral are stored nowhere any more (renamed?): cannot tell' % sorted(need - stored_attrs))
        reads = {is_self_attr(n, fn.self_name or 'self') for n in ast.walk(fn.node)} - {None}
        # properties n / C resolve to the attributes
        reads |= {'_' + r for r in reads if not r.startswith('_')}
        construct = 'PathLossGeneral.%s:live' % meth
        ctx.instance('C13.a', construct)
        ok = need <= reads
        ctx.obligation('C13.a', construct, ok, {'reads': sorted(reads)})
        if not ok:
            ctx.violation('C13.a', 'PathLossGeneral.' + meth, 'does not read the live parameters %s (reads %s): forward and '
                          'inverse can drift apart after a setter call' % (sorted(need), sorted(reads)), fn.path, fn.lineno,
                          operand='live')
    from ..dsf import auto_memo_check
    ctx.rule('C13.e', 'no auto-discovered lazily filled cache of the classes in the anchored modules can be stale at the exit of a public method (dependencies = what the fill expression reads, incl. mutating calls on held sub-objects)', floor=8)
    auto_memo_check(ctx, 'C13.e', [PL, AG])
    from ..commit import check_family
    check_family(ctx, 'C13.g', ['PathLossBase'], floor=8)
    from ..idioms import check_input_immutability, public_api
    check_input_immutability(ctx, 'C13.h', public_api(ctx.model, [PL, AG]), floor=20)
    from ..units import check_units
    check_units(ctx, 'C13.i', [PL, AG], floor=20)
    from ..idioms import check_no_stale_masks, check_options_forwarded
    check_no_stale_masks(ctx, 'C13.j', [PL, AG], floor=30)
    check_options_forwarded(ctx, 'C13.k', [PL, AG], floor=10)
    _check_policy(ctx)
    _check_units(ctx)
    _check_inverse(ctx)
    _check_kwargs_chain(ctx)


def _check_policy(ctx: Ctx) -> None:
    M = ctx.model
    ctx.rule('C13.b', 'small-distance policy on every path of calc_path_loss_dB; overrides delegate', floor=3)
    fn = M.func(PL, 'PathLossBase.calc_path_loss_dB')
    sn = fn.self_name or 'self'
    q = 'PathLossBase.calc_path_loss_dB'

    def is_neg_test(t: ast.AST) -> bool:
        for c in ast.walk(t):
            if isinstance(c, ast.Compare) and len(c.ops) == 1:
                l, r, op = c.left, c.comparators[0], c.ops[0]
                if isinstance(op, ast.Lt) and isinstance(r, ast.Constant) and r.value == 0:
                    return True
                if isinstance(op, ast.Gt) and isinstance(l, ast.Constant) and l.value == 0:
                    return True
        return False

    def is_policy_test(t: ast.AST) -> bool:
        return any(is_self_attr(n, sn) == 'handle_small_distances_bool' for n in ast.walk(t))

    def polarity(t: ast.AST) -> Optional[bool]:
        """True: the true edge means the clamp policy is selected; False: the raise policy; None: not recognised."""
        if isinstance(t, ast.UnaryOp) and isinstance(t.op, ast.Not):
            p = polarity(t.operand)
            return None if p is None else not p
        if is_self_attr(t, sn) == 'handle_small_distances_bool':
            return True
        if isinstance(t, ast.Compare) and len(t.ops) == 1 and is_self_attr(t.left, sn) == 'handle_small_distances_bool' \
                and isinstance(t.comparators[0], ast.Constant) and isinstance(t.comparators[0].value, bool):
            v, op = t.comparators[0].value, t.ops[0]
            if isinstance(op, (ast.Is, ast.Eq)):
                return v
            if isinstance(op, (ast.IsNot, ast.NotEq)):
                return not v
        return None

    def policy_flags(t: ast.AST):
        p = polarity(t)
        if p is None:
            ctx.error('C13.b: the test `%s` on handle_small_distances_bool is not of a recognised form (cannot tell)' % norm(t))
        return (['pol-clamp'], ['pol-raise']) if p else (['pol-raise'], ['pol-clamp'])

    rets = [n for n in walk_no_nested(fn.node) if isinstance(n, ast.Return) and n.value is not None]
    if not rets or not all(isinstance(r.value, ast.Name) for r in rets):
        ctx.error('C13.b: calc_path_loss_dB does not return a local (idiom unknown)')
    var = rets[0].value.id

    def is_clamp(s: ast.stmt) -> bool:
        if isinstance(s, ast.Assign) and isinstance(s.value, ast.Constant) and s.value.value == 0:
            t = s.targets[0]
            if isinstance(t, ast.Name) and t.id == var:
                return True
            if isinstance(t, ast.Subscript) and isinstance(t.value, ast.Name) and t.value.id == var:
                return True
        return False

    test_rules = [(is_neg_test, ['tested', 'neg'], ['tested'])]
    pol_t, pol_f = [], []
    it = FlagInterp(fn, ExcHierarchy(M), test_rules=[
        (is_neg_test, ['tested', 'neg'], ['tested']),
        (lambda t: is_policy_test(t) and policy_flags(t)[0] == ['pol-clamp'], ['pol-clamp'], ['pol-raise']),
        (lambda t: is_policy_test(t) and policy_flags(t)[0] == ['pol-raise'], ['pol-raise'], ['pol-clamp']),
    ], stmt_rules=[(is_clamp, ['clamped'])], expand=__import__('sa.astutil', fromlist=['expander']).expander(fn))
    it.run(FlagInterp.start())
    ctx.instance('C13.b', q)
    bad_ret, bad_raise = [], []
    for st, node in it.exits:
        for el in st:
            if 'tested' not in el:
                bad_ret.append('a return is reachable without the "< 0" test')
            elif 'neg' in el and 'clamped' not in el:
                bad_ret.append('negative loss returned unclamped (policy flags %s)' % sorted(el))
            elif 'neg' in el and 'pol-raise' in el:
                bad_ret.append('negative loss is clamped although the policy says raise')
    for s, st in it.raises:
        for el in st:
            if 'neg' in el and 'pol-clamp' in el:
                bad_raise.append('raises although the policy says clamp')
    raised_on_neg = any('neg' in el and 'pol-raise' in el for s, st in it.raises for el in st)
    ok = not bad_ret and not bad_raise and raised_on_neg
    ctx.obligation('C13.b', q, ok, {'returns': len(it.exits), 'raises': len(it.raises),
                                    'problems': sorted(set(bad_ret + bad_raise)), 'raise_on_negative_under_raise_policy': raised_on_neg})
    if not ok:
        why = sorted(set(bad_ret + bad_raise)) or ['no raise on a negative loss under the raise policy']
        ctx.violation('C13.b', q, 'small-distance policy broken: %s' % '; '.join(why), fn.path, fn.lineno, operand='policy')
    # overrides delegate to super()
    base = M.cls('PathLossBase')
    for c in M.subclasses(base):
        o = c.methods.get('calc_path_loss_dB')
        if o is None:
            continue
        construct = '%s.calc_path_loss_dB:delegates' % c.name
        ctx.instance('C13.b', construct)
        body = [s for s in o.node.body if not (isinstance(s, ast.Expr) and isinstance(s.value, ast.Constant))]
        ok = len(body) == 1 and isinstance(body[0], ast.Return) and isinstance(body[0].value, ast.Call) \
            and norm(body[0].value.func) in ('super().calc_path_loss_dB', 'PathLossBase.calc_path_loss_dB')
        ctx.obligation('C13.b', construct, ok, {'body': [norm(s)[:80] for s in body]})
        if not ok:
            ctx.violation('C13.b', '%s.calc_path_loss_dB' % c.name, 'the override does more than delegating to the base '
                          'implementation: the small-distance policy can be bypassed', o.path, o.lineno, operand='delegates')


def _term_of(ctx: Ctx, fn: FuncInfo, inline=None) -> T.Term:
    try:
        ps = T.path_terms(ctx.model, fn, inline)
    except T.Unknown as e:
        ctx.error('C13: cannot normalise %s: %s' % (fn.qualname, e))
    ts = {t for _, t in ps}
    if len(ts) != 1:
        ctx.error('C13: %s has %d different formulas' % (fn.qualname, len(ts)))
    return ts.pop()


def _check_units(ctx: Ctx) -> None:
    M = ctx.model
    ctx.rule('C13.c', 'unit discipline as terms: linear = dB2Linear(-dB), distance query through -linear2dB, antenna pattern', floor=6)
    d = T.Term.sym('d')
    for cname in ('PathLossBase', 'PathLossIndoorBase', 'PathLossOutdoorBase'):
        c = M.cls(cname)
        fn = c.methods.get('calc_path_loss')
        if fn is not None:
            t = _term_of(ctx, fn)
            construct = '%s.calc_path_loss' % cname
            ctx.instance('C13.c', construct)
            # accept with or without forwarding **kargs
            cands = [a for a in T.atoms_of(t) if a[0] == 'call' and a[1] == 'self.calc_path_loss_dB']
            ok = False
            if len({a for a in cands}) == 1:
                inner = T.Term.atom(cands[0])
                want = T.Term.atom(('call', 'conversion.dB2Linear', ((-inner).key(),)))
                ok = t == want and T._t(cands[0][2][0]) == d
            ctx.obligation('C13.c', construct, ok, {'normal_form': t.pretty()})
            if not ok:
                ctx.violation('C13.c', construct, 'linear path loss is not dB2Linear(-calc_path_loss_dB(d)): `%s`' % t.pretty(),
                              fn.path, fn.lineno, operand='units')
        fn = c.methods.get('which_distance')
        if fn is not None:
            t = _term_of(ctx, fn)
            construct = '%s.which_distance' % cname
            ctx.instance('C13.c', construct)
            want = T.parse_spec('self.which_distance_dB(-conversion.linear2dB(pl))')
            ok = t == want
            ctx.obligation('C13.c', construct, ok, {'normal_form': t.pretty(), 'specification': want.pretty()})
            if not ok:
                ctx.violation('C13.c', construct, 'distance-for-linear-loss is not which_distance_dB(-linear2dB(pl)): `%s`'
                              % t.pretty(), fn.path, fn.lineno, operand='units')
    fn = M.func(AG, 'AntGainBS3GPP25996.get_antenna_gain')
    t = _term_of(ctx, fn)
    construct = 'AntGainBS3GPP25996.get_antenna_gain'
    ctx.instance('C13.c', construct)
    want = T.parse_spec('self.ant_gain * dB2Linear(-np.minimum(12 * (angle / self.theta_3db) ** 2, self.Am))')
    ok = t == want
    ctx.obligation('C13.c', construct, ok, {'normal_form': t.pretty(), 'specification': want.pretty()})
    if not ok:
        ctx.violation('C13.c', construct, 'sector pattern is `%s`, not gain_lin * dB2Linear(-min(12 (theta/theta3dB)^2, Am))'
                      % t.pretty(), fn.path, fn.lineno, operand='pattern')
    # the stored gain is linear: every store to ant_gain is a constant 1 or dB2Linear(...)
    for cname in ('AntGainOmni', 'AntGainBS3GPP25996'):
        init = M.cls(cname).methods['__init__']
        for n in walk_no_nested(init.node):
            if isinstance(n, ast.Assign) and any(is_self_attr(t_, 'self') == 'ant_gain' for t_ in n.targets):
                construct = '%s.__init__:ant_gain' % cname
                ctx.instance('C13.c', construct)
                v = n.value
                ok = (isinstance(v, ast.Call) and norm(v.func).split('.')[-1] == 'dB2Linear') or \
                     (isinstance(v, ast.Constant) and v.value in (1, 1.0))
                ctx.obligation('C13.c', construct, ok, {'stored': norm(v)}, nontrivial=False)
                if not ok:
                    ctx.violation('C13.c', '%s.__init__' % cname, 'antenna gain stored as `%s` (a dB value?) but used as a '
                                  'linear factor' % norm(v), init.path, n.lineno, operand='ant_gain')


def _check_kwargs_chain(ctx: Ctx) -> None:
    """C13.f: for every concrete model whose deterministic formula takes extra named arguments (e.g. the number of walls), each hop
    of the public chain calc_path_loss -> calc_path_loss_dB -> _calc_deterministic_path_loss_dB forwards **kargs."""
    M = ctx.model
    ctx.rule('C13.f', 'extra model arguments reach the deterministic formula through every hop of the linear and dB API', floor=1)
    base = M.cls('PathLossBase')
    for c in M.subclasses(base):
        det = c.methods.get('_calc_deterministic_path_loss_dB')
        if det is None:
            continue
        extra = [p for p in det.params if p not in ('self', 'd')]
        has_var = det.node.args.kwarg is not None
        if not extra:
            continue
        hops = [('calc_path_loss', 'calc_path_loss_dB'), ('calc_path_loss_dB', 'calc_path_loss_dB'),
                ('calc_path_loss_dB', '_calc_deterministic_path_loss_dB')]
        chain = []
        cur = M.lookup_method(c, 'calc_path_loss')
        seen = set()
        problems = []
        todo = [M.lookup_method(c, 'calc_path_loss'), M.lookup_method(c, 'calc_path_loss_dB')]
        # follow super() delegation of calc_path_loss_dB down to the base implementation
        k = M.lookup_method(c, 'calc_path_loss_dB')
        while k is not None and k.cls is not base:
            nxt = M.lookup_method(c, 'calc_path_loss_dB', after=k.cls)
            if nxt is None or nxt in todo:
                break
            todo.append(nxt)
            k = nxt
        for f in todo:
            if f is None or id(f.node) in seen:
                continue
            seen.add(id(f.node))
            if f.node.args.kwarg is None:
                problems.append('%s does not accept **kargs' % f.qualname)
                continue
            kw = f.node.args.kwarg.arg
            calls = [n for n in ast.walk(f.node) if isinstance(n, ast.Call) and isinstance(n.func, ast.Attribute)
                     and n.func.attr in ('calc_path_loss_dB', '_calc_deterministic_path_loss_dB')]
            for n in calls:
                fwd = any(k_.arg is None and isinstance(k_.value, ast.Name) and k_.value.id == kw for k_ in n.keywords)
                chain.append((f.qualname, n.func.attr, fwd))
                if not fwd:
                    problems.append('%s calls %s without **%s' % (f.qualname, n.func.attr, kw))
        construct = '%s:%s' % (c.name, ','.join(extra))
        ctx.instance('C13.f', construct)
        ctx.obligation('C13.f', construct, not problems, {'extra_arguments': extra, 'hops': chain})
        for pr in problems:
            fq = pr.split(' ')[0]
            ctx.violation('C13.f', fq, 'model %s takes %s in its deterministic formula but %s: calc_path_loss(d, %s=...) silently uses the '
                          'default and disagrees with calc_path_loss_dB(d, %s=...)' % (c.name, extra, pr, extra[0], extra[0]),
                          PL, 1, operand='kwargs:' + c.name)


def _check_inverse(ctx: Ctx) -> None:
    M = ctx.model
    from ..idioms import check_no_defaults_on_error
    check_no_defaults_on_error(ctx, 'C13.l', [PL, AG], floor=40)
    from ..idioms import check_no_integer_powers_of_inputs
    check_no_integer_powers_of_inputs(ctx, 'C13.m', [PL, AG], floor=10)
    from ..idioms import check_no_cyclic_resize
    check_no_cyclic_resize(ctx, 'C13.n', [PL, AG], floor=40)
    ctx.rule('C13.d', 'an offered inverse query is the algebraic inverse of the forward formula, or raises', floor=3)
    base = M.cls('PathLossBase')
    for c in [base] + M.subclasses(base):
        inv = c.methods.get('which_distance_dB')
        if inv is None:
            continue
        construct = '%s.which_distance_dB' % c.name
        ctx.instance('C13.d', construct)
        body = [s for s in inv.node.body if not (isinstance(s, ast.Expr) and isinstance(s.value, ast.Constant))]
        always_raises = bool(body) and isinstance(body[-1], ast.Raise) and not any(isinstance(n, ast.Return) for n in ast.walk(inv.node))
        if always_raises:
            ctx.obligation('C13.d', construct, True, {'kind': 'raises'}, nontrivial=False)
            continue
        fwd = M.lookup_method(c, '_calc_deterministic_path_loss_dB')
        ok, detail = False, {}
        returns_value = any(isinstance(n, ast.Return) and n.value is not None and not (isinstance(n.value, ast.Constant) and n.value.value is None)
                            for n in walk_no_nested(inv.node))
        try:
            # every repo callee (the dB/linear converters, helpers) is looked through
            pi, ti = T.function_term(M, inv, opaque=set())
            pf, tf = T.function_term(M, fwd, opaque=set())
            comp = T.substitute(ti, {pi[0]: tf})
            ok = comp == T.Term.sym(pf[0])
            detail = {'inverse': ti.pretty(), 'forward': tf.pretty(), 'inverse(forward(d))': comp.pretty()}
        except T.Unknown as e:
            if returns_value:
                ctx.error('C13.d: %s returns a value that is not a closed formula (%s): whether it inverts the forward formula is not decidable '
                          'here (cannot tell)' % (construct, e))
            detail = {'not_a_formula': str(e), 'body': [norm(s)[:60] for s in body]}
        ctx.obligation('C13.d', construct, ok, detail)
        if not ok:
            ctx.violation('C13.d', construct, 'the inverse query is offered but is neither the algebraic inverse of the forward '
                          'formula nor an explicit NotImplementedError (%s): it silently returns a wrong value / None'
                          % detail, inv.path, inv.lineno, operand='inverse')


def synthetic():
    from ..report import Ctx as C
    from ..selftest import synthetic_overlay
    src = '''
class P:
    def __init__(self):
        self._v = 1.0
    @property
    def v(self):
        return self._v
    @v.setter
    def v(self, value):
        self._v = value
        if value < 0:
            raise RuntimeError("bad")
'''
    c = C('C13', synthetic_overlay({'pyphysim/syn.py': src}))
    fn = c.model.cls('P').setters['v']
    g, s = guards_and_stores(fn, {'value'})
    return [('store-before-guard', bool(g) and bool(s) and not all(x[0] > max(y[0] for y in g) for x in s))]


MUTANTS = [
    Mutant('log-domain-error-becomes-0-dB', PL, 'PathLossGeneral._calc_deterministic_path_loss_dB',
           [('replace', 'PL = 10 * self._n * log10(d) + self._C', 'try:\n        PL = 10 * self._n * log10(d) + self._C\n    except ValueError:\n        PL = 0.0')],
           r'C13\.l:PathLossGeneral\._calc_deterministic_path_loss_dB:default-on-error'),
    Mutant('attenuation-squared-in-the-callers-dtype', AG, 'AntGainBS3GPP25996.get_antenna_gain',
           [('replace', '12 * (angle / self.theta_3db) ** 2', '12 * angle ** 2 / self.theta_3db ** 2')],
           r'C13\.m:AntGainBS3GPP25996\.get_antenna_gain:integer-power:angle'),
    Mutant('benign-attenuation-np-square-of-ratio', AG, 'AntGainBS3GPP25996.get_antenna_gain',
           [('replace', '12 * (angle / self.theta_3db) ** 2', '12 * np.square(angle / self.theta_3db)')], None, benign=True),
    Mutant('wall-masks-computed-before-the-broadcast', PL, 'PathLossMetisPS7._calc_PS7_path_loss_dB_same_floor',
           [('regex', r'(        \[_, num_walls\] = np\.broadcast_arrays\(d, num_walls\)\n)', r'        LOS_index = num_walls == 0\n        NLOS_index = ~LOS_index\n\1'),
            ('regex', r'(assert isinstance\(num_walls, np\.ndarray\)\n)        LOS_index = num_walls == 0\n        NLOS_index = ~LOS_index\n', r'\1')],
           r'C13\.j:PathLossMetisPS7\._calc_PS7_path_loss_dB_same_floor:stale-mask'),
    Mutant('linear-loss-passed-to-the-dB-inverse-query', PL, 'PathLossBase.which_distance',
           [('replace', 'self.which_distance_dB(-conversion.linear2dB(pl))', 'self.which_distance_dB(-pl)')], r'C13\.[ci]:PathLossBase\.which_distance'),
    Mutant('linear-query-returns-the-level', PL, 'PathLossBase.calc_path_loss',
           [('replace', 'pl = conversion.dB2Linear(-self.calc_path_loss_dB(d, **kargs))', 'pl = -self.calc_path_loss_dB(d, **kargs)')], r'C13\.[ci]:PathLossBase\.calc_path_loss'),
    Mutant('antenna-gain-converted-twice', AG, 'AntGainOmni.__init__',
           [('replace', 'self.ant_gain = dB2Linear(ant_gain)', 'self.ant_gain = dB2Linear(dB2Linear(ant_gain))')], r'C13\.i:AntGainOmni\.__init__'),
    Mutant('swap-fc-setter-statements', PL, 'PathLossFreeSpace.fc@setter',
           [('regex', r'(self\._fc = value)\n(\s*)(self\._C = [^\n]*)', r'\3\n\2\1')], r'C13\.a:PathLossFreeSpace\.fc@setter:_C'),
    Mutant('drop-recompute-in-n-setter', PL, 'PathLossFreeSpace.n@setter',
           [('delete', r'self\._C = ')], r'C13\.a:PathLossFreeSpace\.n@setter:_C'),
    Mutant('store-before-guard-hbs', PL, 'PathLossOkomuraHata.hbs@setter',
           [('regex', r'(    if value < 30\.0)', r'    self._hbs = value\n\1')], r'C13\.a:PathLossOkomuraHata\.hbs@setter'),
    Mutant('return-before-negative-test', PL, 'PathLossBase.calc_path_loss_dB',
           [('regex', r'(\n    if np\.any\(np\.array\(PL\) < 0\))', r'\n    if isinstance(d, float):\n        return PL\1')],
           r'C13\.b:PathLossBase\.calc_path_loss_dB:policy'),
    Mutant('delete-raise-branch', PL, 'PathLossBase.calc_path_loss_dB',
           [('regex', r'raise RuntimeError\(msg\.format\(d\)\)', 'pass')], r'C13\.b:PathLossBase\.calc_path_loss_dB:policy'),
    Mutant('linear-without-minus', PL, 'PathLossBase.calc_path_loss',
           [('replace', 'conversion.dB2Linear(-self.calc_path_loss_dB(d, **kargs))', 'conversion.dB2Linear(self.calc_path_loss_dB(d, **kargs))')],
           r'C13\.c:PathLossBase\.calc_path_loss'),
    Mutant('antenna-pattern-positive-exponent', AG, 'AntGainBS3GPP25996.get_antenna_gain',
           [('replace', 'dB2Linear(-np.minimum', 'dB2Linear(np.minimum')], r'C13\.c:AntGainBS3GPP25996\.get_antenna_gain'),
    Mutant('inverse-forgets-C', PL, 'PathLossGeneral.which_distance_dB',
           [('replace', '(PL - self._C)', 'PL')], r'C13\.[ad]:PathLossGeneral\.which_distance_dB'),
    Mutant('revert-fix-metis-inverse-stub', PL, 'PathLossMetisPS7.which_distance_dB',
           [('regex', r'raise NotImplementedError\([^\n]*\)', 'pass')], r'C13\.d:PathLossMetisPS7\.which_distance_dB'),
    Mutant('indoor-linear-api-drops-kwargs', PL, 'PathLossIndoorBase.calc_path_loss',
           [('replace', 'self.calc_path_loss_dB(d, **kargs)', 'self.calc_path_loss_dB(d)')], r'C13\.f:PathLossIndoorBase\.calc_path_loss'),
    Mutant('benign-invert-policy-branches', PL, 'PathLossBase.calc_path_loss_dB',
           [('regex', r'if self\.handle_small_distances_bool is True:\n(.*?)\n        else:\n(.*?)\n    return PL',
             r'if not self.handle_small_distances_bool:\n\2\n        else:\n\1\n    return PL')], None, benign=True),
    Mutant('benign-C-via-local', PL, 'PathLossFreeSpace.fc@setter',
           [('regex', r'self\._C = (self\._calculate_C_from_fc_and_n\([^\n]*\))', r'c = \1\n    self._C = c')], None, benign=True),
]

ENGINES = ['model', 'dsf', 'paths', 'terms']
TECHNIQUE = ('static analysis: derived-state freshness dataflow, who-may-write, validate-before-store, flag-domain path '
             'interpretation of the small-distance policy, term normal forms for unit discipline and inverse pairs')


def sweep(overlay):
    from ..dsf import dsf_sweep
    from ..selftest import sweep_lines
    out = dsf_sweep(overlay, PATHLOSS_FS, 'C13')
    import re
    for q in ('PathLossOkomuraHata.fc@setter', 'PathLossOkomuraHata.hbs@setter', 'PathLossOkomuraHata.hms@setter',
              'PathLossOkomuraHata.area_type@setter', 'PathLossBase.calc_path_loss_dB'):
        out += sweep_lines(overlay, PL, q, lambda t: t.startswith('raise ') or re.match(r'^PL(\[.*\])? = 0', t) is not None, 'C13')
    return out
