"""C07 - a simulation stopped at any point resumes without losing or double counting work."""
from __future__ import annotations

import ast
from typing import Any, Dict, List, Optional, Set

from .. import codec
from ..astutil import stmts_in_order
from ..model import FuncInfo, is_self_attr, norm, walk_no_nested
from ..paths import ExcHierarchy, PathInterp
from ..report import Ctx
from ..runner_rules import RUNNER, analyse_runner, definite
from ..selftest import Mutant, synthetic_overlay
PAR = 'pyphysim/simulations/parameters.py'

RES = 'pyphysim/simulations/results.py'

EXPLANATION = (
    'Decides the crash-consistency protocol of C07 structurally (no crash is ever executed). C07.a: every file '
    'opened for writing below SimulationResults.save_to_file is a temporary name that is afterwards moved onto the '
    'final name with os.replace/os.rename on every normal path (an interruption at ANY write call leaves the '
    'previous file intact, never a torn one). C07.b: the count written into the saved object is the counter that '
    'is balanced with the merged results (difference 0 at every save site, exception edges included); '
    'save_partial_results stores it in current_rep before saving; the resume path reads that same field; both '
    'formats carry it (pickle: whole object; JSON: _to_dict/_from_dict). C07.c: every normal exit of the '
    'per-variation routine passes the unconditional final save. C07.d: loaded partial results are returned only '
    'after the parameter comparison, whose mismatch raises a class not swallowed by the enclosing handlers. '
    'C07.e: partial files are deleted only after the final file was saved. Not decided: fsync-level durability, '
    'concurrent writers, restartability of the user iteration. C07.f: the parameter comparison behind the resume guard never compares mapping keys as sequences (insertion order).')


def _reachable_from_save(ctx: Ctx) -> List[FuncInfo]:
    M = ctx.model
    cls = M.cls('SimulationResults')
    start = M.func(RES, 'SimulationResults.save_to_file')
    seen: Dict[str, FuncInfo] = {}
    todo = [start]
    while todo:
        fn = todo.pop()
        if fn.qualname in seen:
            continue
        seen[fn.qualname] = fn
        sn = fn.self_name
        for n in ast.walk(fn.node):
            a = is_self_attr(n, sn) if sn else None
            if a is not None:
                m = M.lookup_method(cls, a)
                if m is not None:
                    todo.append(m)
    return list(seen.values())


def _write_mode(c: ast.Call, fn: Optional[FuncInfo] = None, fns: Optional[List[FuncInfo]] = None) -> Optional[str]:
    """Literal write mode of an open() call; a mode that is a PARAMETER of fn is resolved at fn's call sites."""
    mexpr = c.args[1] if len(c.args) >= 2 else None
    for k in c.keywords:
        if k.arg == 'mode':
            mexpr = k.value
    modes: List[Any] = []
    if isinstance(mexpr, ast.Constant):
        modes = [mexpr.value]
    elif isinstance(mexpr, ast.Name) and fn is not None and mexpr.id in fn.params and fns:
        a = fn.node.args
        names = [x.arg for x in a.posonlyargs + a.args]
        if fn.self_name and names and names[0] == fn.self_name:
            names = names[1:]
        pos = names.index(mexpr.id) if mexpr.id in names else None
        for g in fns:
            for n in ast.walk(g.node):
                if isinstance(n, ast.Call) and isinstance(n.func, ast.Attribute) and n.func.attr == fn.name:
                    v = n.args[pos] if pos is not None and pos < len(n.args) else None
                    for k in n.keywords:
                        if k.arg == mexpr.id:
                            v = k.value
                    if isinstance(v, ast.Constant):
                        modes.append(v.value)
    w = sorted({m for m in modes if isinstance(m, str) and any(ch in m for ch in 'wax+')})
    return ','.join(w) if w else None


def check_atomic(ctx: Ctx, rule: str, fns: List[FuncInfo]) -> int:
    n_sites = 0
    for fn in fns:
        stmts = stmts_in_order(fn)
        for s in stmts:
            calls = []
            if isinstance(s, ast.With):
                calls = [it.context_expr for it in s.items if isinstance(it.context_expr, ast.Call)]
            elif isinstance(s, (ast.Assign, ast.Expr)) and isinstance(s.value, ast.Call):
                calls = [s.value]
            for c in calls:
                if not (isinstance(c.func, ast.Name) and c.func.id == 'open' and c.args):
                    continue
                mode = _write_mode(c, fn, fns)
                if mode is None:
                    continue
                n_sites += 1
                construct = fn.qualname
                for one_mode in mode.split(','):        # one instance per format written through this site
                    ctx.instance(rule, construct + ':open(%s)' % one_mode)
                target = norm(c.args[0])
                params = set(fn.params)
                # the opened name must be a temporary (not a parameter = the final name) ...
                is_tmp = isinstance(c.args[0], ast.Name) and c.args[0].id not in params
                if is_tmp:
                    # every definition of the temporary name must differ from the bare final name (no alias on any path)
                    defs = [n.value for n in walk_no_nested(fn.node) if isinstance(n, ast.Assign)
                            and any(isinstance(t, ast.Name) and t.id == c.args[0].id for t in n.targets)]
                    if not defs or any(isinstance(d, ast.Name) and d.id in params for d in defs) or \
                            any(isinstance(d, ast.IfExp) and any(isinstance(x, ast.Name) and x.id in params for x in (d.body, d.orelse)) for d in defs):
                        is_tmp = False
                # ... that is moved onto a parameter-named final file after the write block, at the same level
                moved = False
                final = None
                body = _enclosing_body(fn, s)
                if body is not None:
                    idx = body.index(s)
                    for s2 in body[idx + 1:]:
                        # the move must be an unconditional statement of the same block (not nested under a test)
                        m = s2.value if isinstance(s2, ast.Expr) else None
                        if isinstance(m, ast.Call) and norm(m.func) in ('os.replace', 'os.rename', 'shutil.move') \
                                and len(m.args) == 2 and norm(m.args[0]) == target:
                            final = norm(m.args[1])
                            moved = isinstance(m.args[1], ast.Name) and m.args[1].id in params
                ok = is_tmp and moved
                # the temporary is opened TRUNCATING: exclusive creation ('x') or appending ('a') makes a temporary left behind by a
                # crash in the middle of an earlier save fatal (FileExistsError) or part of the next file
                bad_modes = [m_ for m_ in mode.split(',') if 'x' in m_ or 'a' in m_]
                if ok and bad_modes:
                    ctx.obligation(rule, construct + ':open(%s)' % mode, False, {'opened': target, 'mode': mode})
                    ctx.violation(rule, construct, 'opens the temporary `%s` with mode %r: a temporary file left behind by an interruption in the '
                                  'middle of an earlier save then makes every later save %s' % (
                                      target, bad_modes[0], 'raise FileExistsError (the restart fails)' if 'x' in bad_modes[0]
                                      else 'append to the stale content (the file cannot be loaded)'), fn.path, c.lineno, operand='open-mode')
                    continue
                ctx.obligation(rule, construct + ':open(%s)' % mode, ok,
                               {'opened': target, 'temporary': is_tmp, 'moved_onto': final})
                if not ok:
                    ctx.violation(rule, construct,
                                  'opens `%s` for writing (mode %r) directly / without moving a temporary file onto the '
                                  'final name afterwards: an interruption inside the write leaves a truncated file that '
                                  'the restart cannot load' % (target, mode), fn.path, c.lineno, operand='open')
    return n_sites


def _enclosing_body(fn: FuncInfo, stmt: ast.stmt) -> Optional[List[ast.stmt]]:
    for n in ast.walk(fn.node):
        for fld in ('body', 'orelse', 'finalbody'):
            b = getattr(n, fld, None)
            if isinstance(b, list) and stmt in b:
                return b
    return None


def check(ctx: Ctx) -> None:
    M = ctx.model
    ctx.assume('os.replace/os.rename onto an existing file is atomic (POSIX); pickle/json writers write only through '
               'the file object they are given; only calls reaching _run_simulation raise SkipThisOne')
    # ------------------------------------------------------------------ C07.a
    ctx.rule('C07.a', 'atomic write discipline below save_to_file: write a temporary, then os.replace onto the final name', floor=2)
    fns = _reachable_from_save(ctx)
    n = check_atomic(ctx, 'C07.a', fns)
    ctx.stats['functions_reachable_from_save_to_file'] = sorted(f.qualname for f in fns)
    # ------------------------------------------------------------------ C07.b / C07.c
    fn, it = analyse_runner(M)
    q = 'SimulationRunner._simulate_for_current_params_common'
    ctx.rule('C07.b', 'saved count == merged count at every save site; count stored in current_rep before saving; resume '
                      'reads that field; both formats carry it', floor=5)
    for c, st, sfn, ds in it.save_sites:
        construct = q + ':' + c.func.attr
        ctx.instance('C07.b', construct)
        bad = [d for d in ds if definite(d)]
        args = [norm(a) for a in c.args]
        if not bad and any(d == 'unknown' for d in ds):
            ctx.error('C07.b: the analysis lost track of the counter/results given to %s(%s) in %s (cannot tell)'
                      % (c.func.attr, ', '.join(args), sfn.qualname))
        ok = not bad and len(args) >= 3
        ctx.obligation('C07.b', construct, ok, {'args': args, 'in': sfn.qualname, 'results_minus_counter': [str(d) for d in ds]})
        if not ok:
            ctx.violation('C07.b', q, 'at %s(%s) in %s the saved count and the merged results can disagree (results - counter '
                          'in %s): a restart would lose or double count repetitions'
                          % (c.func.attr, ', '.join(args), sfn.qualname, sorted({str(d) for d in ds})), sfn.path, c.lineno,
                          operand=c.func.attr)
    sv = M.func(RUNNER, 'SimulationResultsSaver.save_partial_results')
    stmts = stmts_in_order(sv)
    stores = [s for s in stmts if isinstance(s, ast.Assign) and any(
        isinstance(t, ast.Attribute) and t.attr == 'current_rep' and isinstance(t.value, ast.Name)
        and t.value.id == 'current_sim_results' for t in s.targets)]
    saves = [s for s in stmts for c in ast.walk(s) if isinstance(c, ast.Call) and isinstance(c.func, ast.Attribute)
             and c.func.attr == 'save_to_file']
    ctx.instance('C07.b', 'SimulationResultsSaver.save_partial_results:store-before-save')
    ok = len(stores) == 1 and norm(stores[0].value) == 'current_rep' and bool(saves) \
        and all(s.lineno > stores[0].lineno for s in saves) \
        and all(norm(c.func.value) == 'current_sim_results' for s in saves for c in ast.walk(s)
                if isinstance(c, ast.Call) and isinstance(c.func, ast.Attribute) and c.func.attr == 'save_to_file')
    ctx.obligation('C07.b', 'SimulationResultsSaver.save_partial_results:store-before-save', ok,
                   {'stores': [norm(s) for s in stores], 'save_calls': len(saves)})
    if not ok:
        ctx.violation('C07.b', 'SimulationResultsSaver.save_partial_results',
                      'the counter is not stored into current_sim_results.current_rep (exactly once, from the '
                      '`current_rep` argument) before every save_to_file of that object', sv.path, sv.lineno,
                      operand='store-before-save')
    # resume reads that same field of the loaded object: on the resume path (results = the loaded object) the loop
    # starts with the counter equal to the loaded object's own current_rep (wherever that read was written)
    heads = [el for st in it.head_states for el in st]
    resumed = [el for el in heads if el[0] not in (None, ('?', 0)) and el[0][0] == 'L']
    ctx.instance('C07.b', q + ':resume-read')
    okr = bool(resumed) and all(el[1] not in (None, ('?', 0)) and el[1][0] == 'L' and el[0][1] == el[1][1] for el in resumed)
    if not resumed and any(el[0] == ('?', 0) for el in heads):
        ctx.error('C07.b: the analysis lost track of the results object before the loop (cannot tell)')
    ctx.obligation('C07.b', q + ':resume-read', okr, {'loop_entry_states': sorted(repr(el[:2]) for el in heads)})
    if not okr:
        ctx.violation('C07.b', q, 'the resume path does not enter the loop with the counter read from %s.current_rep '
                      '(entry states %s)' % (it.R, sorted(repr(el[:2]) for el in heads)), fn.path, fn.lineno, operand='resume-read')
    # JSON format carries the field
    w = M.func(RES, 'SimulationResults._to_dict')
    r = M.func(RES, 'SimulationResults._from_dict')
    items = codec.writer_items(w)
    paths = codec.reader_paths(r)
    ctx.instance('C07.b', 'SimulationResults._to_dict/_from_dict:current_rep')
    okj = 'current_rep' in items and norm(items['current_rep']) == 'self.current_rep' \
        and all('current_rep' in p or '*' in p for p in paths)
    restored = any(isinstance(n, ast.Assign) and any(isinstance(t, ast.Attribute) and t.attr == 'current_rep' for t in n.targets)
                   and 'current_rep' in codec._keys_read(n.value, r.params[0]) for n in ast.walk(r.node))
    okj = okj and restored
    ctx.obligation('C07.b', 'SimulationResults._to_dict/_from_dict:current_rep', okj,
                   {'written': 'current_rep' in items, 'restored': restored})
    if not okj:
        ctx.violation('C07.b', 'SimulationResults._to_dict', 'the JSON representation does not carry current_rep: partial '
                      'results saved as .json are resumed with the constructor default (-1) and every repetition is '
                      'run and counted again', w.path, w.lineno, operand='json-current_rep')
    # ------------------------------------------------------------------ C07.c
    ctx.rule('C07.c', 'every normal exit of the per-variation routine passes the unconditional final save', floor=1)
    for st, node in it.exits:
        construct = q + ':exit'
        ctx.instance('C07.c', construct)
        ok = all(el[2] for el in st)
        ctx.obligation('C07.c', construct, ok, {'exit': type(node).__name__, 'states': len(st)})
        if not ok:
            ctx.violation('C07.c', q, 'a normal exit (line %s) is reachable without passing save_partial_results: the '
                          'repetitions of that variation are not durably saved' % getattr(node, 'lineno', '?'),
                          fn.path, getattr(node, 'lineno', fn.lineno), operand='final-save')
    _check_load_guard(ctx)
    _check_stamp_before_save(ctx)
    _check_cleanup(ctx)
    _check_order_insensitive_compare(ctx)
    from ..idioms import check_exact_matching
    check_exact_matching(ctx, 'C07.g', [PAR], floor=20)
    from ..idioms import check_no_mutation_while_iterating
    check_no_mutation_while_iterating(ctx, 'C07.h', [RUNNER, RES], floor=8)


class _Guard(PathInterp):
    """state: frozenset of flags {'loaded', 'checked'}"""

    def __init__(self, fn, h, loaded_name_holder):
        super().__init__(fn, h)
        self.holder = loaded_name_holder
        self.returns: List = []

    def join(self, a, b):
        return a & b if isinstance(a, frozenset) else a

    def on_assign(self, s, st):
        if isinstance(s, ast.Assign) and isinstance(s.value, ast.Call) and isinstance(s.value.func, ast.Attribute) \
                and s.value.func.attr == 'load_from_file' and isinstance(s.targets[0], ast.Name):
            self.holder['name'] = s.targets[0].id
            return st | {'loaded'}
        return st

    def may_raise(self, c, st):
        if isinstance(c.func, ast.Attribute) and c.func.attr == 'load_from_file':
            return ['OSError']
        return []

    def on_test(self, test, st):
        nm = self.holder.get('name')
        if nm is None:
            return st, st
        # recognise  `not current_params == loaded.params` / `!=` in either operand order
        neg = False
        t = test
        while isinstance(t, ast.UnaryOp) and isinstance(t.op, ast.Not):
            t, neg = t.operand, not neg
        if isinstance(t, ast.Compare) and len(t.ops) == 1 and isinstance(t.ops[0], (ast.Eq, ast.NotEq)):
            from ..astutil import expand as _expand_g, single_locals as _single_g
            _defs_g = {k_: v_ for k_, v_ in _single_g(self.fn).items() if k_ != nm}     # the loaded object itself stays a name
            sides = {norm(_expand_g(t.left, _defs_g, set())), norm(_expand_g(t.comparators[0], _defs_g, set()))}
            # (`loaded_params = loaded.params` named first is looked through)
            if '%s.params' % nm in sides and any(s != '%s.params' % nm for s in sides):
                equal_on_true = isinstance(t.ops[0], ast.Eq) != neg
                self.holder['compare'] = norm(test)
                if equal_on_true:
                    return st | {'checked'}, st | {'mismatch'}
                return st | {'mismatch'}, st | {'checked'}
        return st, st

    def on_return(self, s, st):
        self.returns.append((s, st))
        return st

    def on_raise(self, s, st):
        self.holder.setdefault('raises', []).append((s, st))


class _Stamp(PathInterp):
    """state: frozenset; 'stamped' once `<results>.current_rep = <current_rep argument>` ran on the path"""

    def __init__(self, fn, h, res_name, rep_name):
        super().__init__(fn, h)
        self.res, self.rep = res_name, rep_name
        self.saves: List = []

    def join(self, a, b):
        return a & b if isinstance(a, frozenset) else a

    def on_assign(self, s, st):
        if isinstance(s, ast.Assign):
            for t in s.targets:
                if isinstance(t, ast.Attribute) and t.attr == 'current_rep' and norm(t.value) == self.res:
                    return (st | {'stamped'}) if norm(s.value) == self.rep else (st - {'stamped'})
        return st

    def may_raise(self, c, st):
        if isinstance(c.func, ast.Attribute) and c.func.attr == 'save_to_file' and norm(c.func.value) == self.res:
            self.saves.append((c, st))
            return ['OSError']
        return []


def _check_stamp_before_save(ctx: Ctx) -> None:
    """C07.i: what is written to the partial-results file carries the number of repetitions it contains."""
    M = ctx.model
    ctx.rule('C07.i', 'every save of partial results is preceded, on every path, by the store of the current repetition count into the very '
                      'object that is saved (the restart continues from that count: a stale count merges repetitions twice)', floor=1)
    fn = M.func(RUNNER, 'SimulationResultsSaver.save_partial_results')
    ps = [p_ for p_ in fn.params if p_ != 'self']
    res = [p_ for p_ in ps if 'result' in p_]
    rep = [p_ for p_ in ps if 'rep' in p_]
    if len(res) != 1 or len(rep) != 1:
        ctx.error('C07.i: save_partial_results no longer takes one repetition count and one results object (cannot tell)')
    g = _Stamp(fn, ExcHierarchy(M), res[0], rep[0])
    g.run(frozenset())
    ctx.instance('C07.i', fn.qualname)
    if not g.saves:
        ctx.error('C07.i: no save_to_file call on the results object found in save_partial_results (cannot tell)')
    bad = [c for c, st in g.saves if 'stamped' not in st]
    ctx.obligation('C07.i', fn.qualname, not bad, {'saves': len(g.saves), 'saves_reachable_without_the_count': [c.lineno for c in bad]})
    if bad:
        ctx.violation('C07.i', fn.qualname, '`%s` can be reached without `%s.current_rep = %s` having run on that path: the file then '
                      'holds the merged repetitions of this save with the repetition count of an earlier one, and a restart repeats (and merges '
                      'again) work that is already in the file' % (norm(bad[0])[:50], res[0], rep[0]), fn.path, bad[0].lineno, operand='stale-count')


def _check_load_guard(ctx: Ctx) -> None:
    M = ctx.model
    ctx.rule('C07.d', 'loaded partial results are returned only after the parameter comparison; mismatch raises an '
                      'uncaught class', floor=1)
    fn = M.func(RUNNER, 'SimulationResultsSaver.load_partial_results')
    q = 'SimulationResultsSaver.load_partial_results'
    holder: Dict = {}
    g = _Guard(fn, ExcHierarchy(M), holder)
    g.run(frozenset())
    nm = holder.get('name')
    if nm is None:
        ctx.error('C07.d: load_from_file call not found in load_partial_results')
    ctx.instance('C07.d', q)
    rets = [(s, st) for s, st in g.returns if s.value is not None and norm(s.value) == nm]
    ok = bool(rets) and all('checked' in st and 'mismatch' not in st for s, st in rets)
    ctx.obligation('C07.d', q + ':guard-before-return', ok,
                   {'loaded_local': nm, 'compare': holder.get('compare'), 'returns_of_loaded': len(rets)})
    if not ok:
        ctx.violation('C07.d', q, 'the loaded results `%s` can be returned without having passed the comparison of the '
                      'current parameters with the loaded ones: foreign partial results would be merged' % nm,
                      fn.path, fn.lineno, operand='guard-before-return')
    # the mismatch edge raises, and the raise escapes the function
    mism = [(s, st) for s, st in holder.get('raises', []) if 'mismatch' in st]
    escaped = [n for (_, exc, n) in g.exc_exits if isinstance(n, ast.Raise)]
    ok2 = bool(mism) and all(any(n is s for n in escaped) for s, _ in mism)
    ctx.obligation('C07.d', q + ':mismatch-raises', ok2,
                   {'raise_on_mismatch': [norm(s.exc)[:60] for s, _ in mism], 'escaping_raises': len(escaped)})
    if not ok2:
        ctx.violation('C07.d', q, 'a parameter mismatch does not end in an exception that leaves the function '
                      '(missing raise, or the raised class is swallowed by an enclosing handler): foreign partial '
                      'results are silently used or ignored instead of refused', fn.path, fn.lineno,
                      operand='mismatch-raises')


def _check_order_insensitive_compare(ctx: Ctx) -> None:
    """C07.f: the comparison behind the resume guard does not depend on the insertion order of the parameter mapping."""
    from ..idioms import mapping_attrs, ordered_mapping_comparisons
    M = ctx.model
    ctx.rule('C07.f', 'the parameter comparison used by the resume guard (SimulationParameters.__eq__ / __ne__) never compares the keys of a '
                      'mapping as a sequence nor pairs two mappings by position: a parameter object rebuilt from a file has the same '
                      'content in a possibly different insertion order', floor=1)
    cls = M.cls('SimulationParameters')
    maps = mapping_attrs(M, cls)
    for name in ('__eq__', '__ne__'):
        fn = M.lookup_method(cls, name)
        if fn is None:
            if name == '__eq__':
                ctx.error('C07.f: SimulationParameters defines no __eq__: the resume guard compares identities (cannot tell)')
            continue
        q = fn.qualname
        ctx.instance('C07.f', q)
        hits = list(ordered_mapping_comparisons(fn, maps))
        ctx.obligation('C07.f', q, not hits, {'mapping_attributes': sorted(maps), 'ordered': [norm(h[0])[:70] for h in hits]}, nontrivial=name == '__eq__')
        for node, why in hits[:1]:
            ctx.violation('C07.f', q, '`%s`: %s; partial results saved by an identical simulation are refused whenever the mapping of the '
                          'loaded object was filled in a different order (e.g. after a restart in a new interpreter)' % (norm(node)[:80], why),
                          fn.path, node.lineno, operand='ordered-keys')


def _check_cleanup(ctx: Ctx) -> None:
    M = ctx.model
    ctx.rule('C07.e', 'partial files are deleted only after the final results were saved', floor=1)
    fn = M.func(RUNNER, 'SimulationResultsSaver.cleanup')
    q = 'SimulationResultsSaver.cleanup'
    ctx.instance('C07.e', q)
    stmts = stmts_in_order(fn)
    save_ln = [c.lineno for s in stmts for c in ast.walk(s) if isinstance(c, ast.Call) and isinstance(c.func, ast.Attribute)
               and c.func.attr == 'save_to_file']
    del_ln = [c.lineno for s in stmts for c in ast.walk(s) if isinstance(c, ast.Call) and isinstance(c.func, ast.Attribute)
              and ('delete_partial_results' in c.func.attr or c.func.attr in ('remove', 'unlink'))]
    if not del_ln:
        ctx.error('C07.e: deletion of partial results not found in cleanup')
    # deletion must be dominated by the save: same block after it, or nested under the same condition after it
    ok = bool(save_ln) and all(d > max(save_ln) for d in del_ln)
    if ok:
        # both under the same `if` (or the delete unconditional after an unconditional save)
        body_s = _enclosing_body(fn, _stmt_at(fn, max(save_ln)))
        body_d = _enclosing_body(fn, _stmt_at(fn, min(del_ln)))
        ok = body_s is body_d or body_s is fn.node.body
    ctx.obligation('C07.e', q, ok, {'save_lines': save_ln, 'delete_lines': del_ln})
    if not ok:
        ctx.violation('C07.e', q, 'partial result files can be deleted before/without the final results having been '
                      'saved: an interruption in between loses all work', fn.path, fn.lineno, operand='order')


def _stmt_at(fn: FuncInfo, line: int) -> ast.stmt:
    best = None
    for s in stmts_in_order(fn):
        if s.lineno <= line <= (s.end_lineno or s.lineno) and not isinstance(s, (ast.If, ast.For, ast.While, ast.Try, ast.With)):
            best = s
    return best


_SYN = '''
import os
class S:
    def save_ok(self, filename):
        tmp = filename + '.tmp'
        with open(tmp, 'w') as f:
            f.write('x')
        os.replace(tmp, filename)
    def save_torn(self, filename):
        with open(filename, 'w') as f:
            f.write('x')
'''


def synthetic():
    ov = synthetic_overlay({'pyphysim/syn.py': _SYN})
    ctx = Ctx('C07', ov)
    ctx.rule('SYN', 'synthetic', 1)
    fns = [ctx.model.func('pyphysim/syn.py', 'S.save_ok'), ctx.model.func('pyphysim/syn.py', 'S.save_torn')]
    check_atomic(ctx, 'SYN', fns)
    return [('torn-write', ctx.keys() == ['SYN:S.save_torn:open'])]


MUTANTS = [
    Mutant('temporary-opened-exclusively', RES, 'SimulationResults._save_to_pickle',
           [('replace', "open(tmp_filename, 'wb')", "open(tmp_filename, 'xb')")], r'C07\.a:SimulationResults\._save_to_pickle:open-mode'),
    Mutant('parameter-names-compared-in-insertion-order', PAR, 'SimulationParameters.__eq__',
           [('replace', 'set(self.parameters.keys()) != set(other.parameters.keys())', 'list(self.parameters.keys()) != list(other.parameters.keys())')],
           r'C07\.f:SimulationParameters\.__eq__:ordered-keys'),
    Mutant('benign-parameter-names-compared-as-key-views', PAR, 'SimulationParameters.__eq__',
           [('replace', 'set(self.parameters.keys()) != set(other.parameters.keys())', 'self.parameters.keys() != other.parameters.keys()')],
           None, benign=True),
    Mutant('revert-fix-direct-write-json', RES, 'SimulationResults._save_to_json',
           [('regex', r"with open\(\w+, 'w'\)", "with open(filename, 'w')")], r'C07\.a:SimulationResults\._save_to_json'),
    Mutant('revert-fix-no-replace-pickle', RES, 'SimulationResults._save_to_pickle',
           [('delete', r'os\.replace\(')], r'C07\.a:SimulationResults\._save_to_pickle'),
    Mutant('final-save-gets-count-plus-one', RUNNER, 'SimulationRunner._simulate_for_current_params_common',
           [('replace', 'self._simulation_results_saver.save_partial_results(current_rep, current_params, current_sim_results)',
             'self._simulation_results_saver.save_partial_results(current_rep + 1, current_params, current_sim_results)')],
           r'C07\.b:.*:save_partial_results'),
    Mutant('early-return-before-final-save', RUNNER, 'SimulationRunner._simulate_for_current_params_common',
           [('regex', r'(\n(\s*)partial_results_filename = self\._simulation_results_saver\.save_partial_results)',
             r'\n\2if current_rep >= self.rep_max:\n\2    return (current_rep, current_sim_results, None)\1')],
           r'C07\.c:.*final-save'),
    Mutant('count-not-stored-before-save', RUNNER, 'SimulationResultsSaver.save_partial_results',
           [('delete', r'current_sim_results\.current_rep = current_rep')], r'C07\.b:SimulationResultsSaver\.save_partial_results'),
    Mutant('drop-raise-on-mismatch', RUNNER, 'SimulationResultsSaver.load_partial_results',
           [('regex', r'raise ValueError\([^\n]*\)', 'pass')], r'C07\.d:.*'),
    Mutant('catch-everything', RUNNER, 'SimulationResultsSaver.load_partial_results',
           [('replace', 'except IOError:', 'except Exception:')], r'C07\.d:.*mismatch-raises'),
    Mutant('delete-partials-before-final-save', RUNNER, 'SimulationResultsSaver.cleanup',
           [('regex', r'(\n(\s*)self\.results\.save_to_file\(self\._results_base_filename\))\n\s*(self\.__delete_partial_results_maybe\(\))',
             r'\n\2\3\1')], r'C07\.e:'),
    Mutant('revert-fix-json-current_rep', RES, 'SimulationResults._to_dict',
           [('regex', r"'current_rep': self\.current_rep,\s*", '')], r'C07\.b:SimulationResults\._to_dict'),
    Mutant('benign-invert-comparison', RUNNER, 'SimulationResultsSaver.load_partial_results',
           [('replace', 'if not current_params == current_sim_results.params:', 'if current_params != current_sim_results.params:')],
           None, benign=True),
    Mutant('benign-other-temp-name', RES, 'SimulationResults._save_to_json',
           [('regex', r"'\{0\}\.tmp'\.format\(filename\)", "filename + '.partial'")], None, benign=True),
]

ENGINES = ['model', 'paths', 'codec']
TECHNIQUE = ('static analysis: atomic-write discipline over the save call graph, must-pass-through and '
             'guard-before-return path rules with exception routing, writer/reader field agreement')


def sweep(overlay):
    from ..selftest import simple_statement, sweep_lines
    out = []
    for path, q in ((RUNNER, 'SimulationRunner._simulate_for_current_params_common'),
                    (RUNNER, 'SimulationResultsSaver.save_partial_results'), (RUNNER, 'SimulationResultsSaver.load_partial_results'),
                    (RUNNER, 'SimulationResultsSaver.cleanup'), (RES, 'SimulationResults._save_to_pickle'),
                    (RES, 'SimulationResults._save_to_json')):
        out += sweep_lines(overlay, path, q, simple_statement, 'C07')
    return out
