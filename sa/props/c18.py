"""C18 - reference sequences: exact prime table, shift grids, root tables."""
from __future__ import annotations

import ast
from typing import Dict, List, Optional

from ..astutil import const_value
from ..model import FuncInfo, norm, walk_no_nested
from ..report import Ctx
from ..selftest import Mutant
from ..tables import sieve

RS = 'pyphysim/reference_signals/root_sequence.py'
ZC = 'pyphysim/reference_signals/zadoffchu.py'
SRS = 'pyphysim/reference_signals/srs.py'
DMRS = 'pyphysim/reference_signals/dmrs.py'

LTE_MAX = 1200                      # top of the LTE numerology in the property's quantifier (sizes 25..1200)

EXPLANATION = (
    'Decides the table/constant clauses of C18 exhaustively from the literal text. C18.a: the literal prime table '
    'read from the AST equals the checker\'s own sieve on [2, last], is strictly increasing, reaches the largest '
    'prime <= 1200 (1193), and the lookup has the shape T[T <= n][-1]; together this decides "base length = '
    'largest prime not exceeding the size" for EVERY size 25..1200 (exhaustive: 1176 sizes evaluated against the '
    'sieve with the checker\'s arithmetic, no repo code executed). C18.b: SRS uses 8 and DMRS 12 cyclic shifts and '
    'get_shifted_root_seq asserts |n_cs| < denominator and uses phase 2 pi n_cs/denominator; ROOT_TABLE1/2 have 30 '
    'rows of 12/24 entries from {+-1,+-3}; sizes 12/24 are looked up in those tables, larger ones use Zadoff-Chu. '
    'Not decided: CAZAC identities, estimator exactness, LS normal equations (numeric).'
    ' General rules also applied here (see DESIGN 10.5): input immutability (no in-place modification of an array argument, alias- and view-aware). C18.g: all tests of the `normalize` flag (parameter, attribute, property, the estimator\'s copy) have the same form.')


def _literal_ints(e: ast.AST) -> Optional[List[int]]:
    if isinstance(e, ast.Call) and e.args:
        e = e.args[0]
    if isinstance(e, (ast.List, ast.Tuple)):
        out = []
        for x in e.elts:
            v = const_value(x)
            if not isinstance(v, int):
                return None
            out.append(v)
        return out
    return None


def check(ctx: Ctx) -> None:
    M = ctx.model
    mod = M.module(RS)
    ctx.rule('C18.a', 'prime table exact up to 1193; lookup T[T <= n][-1]; every size 25..1200 gets the largest prime <= size', floor=3)
    node = mod.assigns.get('_SMALL_PRIME_LIST')
    if node is None:
        ctx.error('C18.a: _SMALL_PRIME_LIST vanished')
    table = _literal_ints(node)
    if table is None:
        ctx.error('C18.a: _SMALL_PRIME_LIST is not a literal list of integers (idiom unknown)')
    ctx.stats['prime_table_entries'] = len(table)
    ctx.stats['prime_table_last'] = table[-1] if table else None
    line = next((n.lineno for n in mod.tree.body if isinstance(n, ast.Assign) and any(
        isinstance(t, ast.Name) and t.id == '_SMALL_PRIME_LIST' for t in n.targets)), 1)
    ctx.instance('C18.a', '_SMALL_PRIME_LIST')
    incr = all(a < b for a, b in zip(table, table[1:]))
    ref = sieve(max(table[-1], LTE_MAX)) if table else []
    exact = table == [p for p in ref if p <= table[-1]]
    ctx.obligation('C18.a', '_SMALL_PRIME_LIST:exact', incr and exact,
                   {'entries': len(table), 'strictly_increasing': incr, 'equals_sieve_up_to_last': exact, 'last': table[-1]})
    if not (incr and exact):
        bad = sorted(set(table) ^ set(p for p in ref if p <= table[-1]))[:6]
        ctx.violation('C18.a', '_SMALL_PRIME_LIST', 'the table is not exactly the increasing list of primes up to %d '
                      '(differences: %s, increasing=%s)' % (table[-1], bad, incr), RS, line, operand='exact')
    top = max(p for p in ref if p <= LTE_MAX)
    reach = table[-1] >= top
    ctx.obligation('C18.a', '_SMALL_PRIME_LIST:reach', reach, {'last': table[-1], 'needed': top})
    if not reach:
        ctx.violation('C18.a', '_SMALL_PRIME_LIST', 'the table stops at %d but sizes up to %d need primes up to %d: e.g. '
                      'size 1200 gets Nzc %d instead of %d' % (table[-1], LTE_MAX, top, table[-1], top), RS, line,
                      operand='reach')
    # lookup shape
    fn = M.func(RS, 'RootSequence._get_largest_prime_lower_than_number')
    ctx.instance('C18.a', fn.qualname)
    p = fn.params[0] if fn.params else 'seq_size'
    shapes = [norm(n) for n in ast.walk(fn.node) if isinstance(n, ast.Subscript)]
    from ..astutil import const_value
    TBL = '_SMALL_PRIME_LIST'
    verdicts = []
    from ..astutil import expander
    import copy as _copy
    _ex = expander(fn)
    _nodes = list(ast.walk(fn.node)) + [y for x in ast.walk(fn.node) if isinstance(x, ast.Subscript) for y in [_ex(x)]]
    for n in _nodes:
        # T[T <op> size][k]
        if isinstance(n, ast.Subscript) and isinstance(n.value, ast.Subscript) and norm(n.value.value) == TBL \
                and isinstance(n.value.slice, ast.Compare) and len(n.value.slice.ops) == 1:
            c = n.value.slice
            a, b, op = norm(c.left), norm(c.comparators[0]), c.ops[0]
            k = const_value(n.slice)
            if (a, b) == (TBL, p) and isinstance(op, ast.LtE) or (a, b) == (p, TBL) and isinstance(op, ast.GtE):
                verdicts.append('ok' if k == -1 else 'bad: takes element %r of the primes <= size, not the last' % (k,))
            elif TBL in (a, b) and p in (a, b):
                verdicts.append('bad: the primes are filtered with `%s`, not with `<= size`' % norm(c))
        # T[np.searchsorted(T, size, side='right') - 1]
        if isinstance(n, ast.Subscript) and norm(n.value) == TBL and isinstance(n.slice, ast.BinOp) and isinstance(n.slice.op, ast.Sub) \
                and const_value(n.slice.right) == 1 and isinstance(n.slice.left, ast.Call) and norm(n.slice.left.func).endswith('searchsorted'):
            sc = n.slice.left
            side = next((const_value(kw.value) for kw in sc.keywords if kw.arg == 'side'), 'left')
            args = [norm(x) for x in sc.args]
            if args[-2:] == [TBL, p] or args == [p]:
                verdicts.append('ok' if side == 'right' else "bad: searchsorted(side='left') - 1 gives the largest prime BELOW the size")
    if not verdicts:
        ctx.error('C18.a: the prime lookup of %s is not of a recognised form (T[T <= size][-1] and its spellings; found %s): cannot tell'
                  % (fn.qualname, shapes[:4]))
    ok_shape = all(v == 'ok' for v in verdicts)
    ctx.obligation('C18.a', fn.qualname + ':lookup', ok_shape, {'subscripts': shapes, 'verdicts': verdicts})
    if not ok_shape:
        ctx.violation('C18.a', fn.qualname, 'the lookup is not T[T <= size][-1] (%s): it no longer selects the largest '
                      'prime not exceeding the size' % [v for v in verdicts if v != 'ok'], fn.path, fn.lineno, operand='lookup')
    # exhaustive evaluation of the decided semantics with the checker's arithmetic
    if ok_shape:
        ctx.instance('C18.a', 'sizes-25..1200')
        wrong = []
        for size in range(25, LTE_MAX + 1):
            got = [q for q in table if q <= size][-1]
            want = [q for q in ref if q <= size][-1]
            if got != want:
                wrong.append((size, got, want))
        ctx.stats['sizes_evaluated'] = LTE_MAX - 24
        ctx.obligation('C18.a', 'sizes-25..1200', not wrong, {'sizes': LTE_MAX - 24, 'wrong': len(wrong), 'first_wrong': wrong[:3]})
        if wrong and reach and incr and exact:
            ctx.violation('C18.a', 'RootSequence._get_largest_prime_lower_than_number', '%d sizes get a wrong base length, '
                          'e.g. %s' % (len(wrong), wrong[:3]), fn.path, fn.lineno, operand='sizes')
    # the constructor uses the lookup for size > 24 and the tables for 12 / 24
    init = M.func(RS, 'RootSequence.__init__')
    ctx.instance('C18.a', 'RootSequence.__init__')
    src = norm(init.node)
    ok = 'self._get_largest_prime_lower_than_number(size)' in src and 'calcBaseZC(Nzc, root_index)' in src
    ctx.obligation('C18.a', 'RootSequence.__init__:uses-lookup', ok, None, nontrivial=False)
    if not ok:
        ctx.violation('C18.a', 'RootSequence.__init__', 'the constructor no longer derives Nzc from the prime lookup / builds '
                      'calcBaseZC(Nzc, root_index)', init.path, init.lineno, operand='uses-lookup')

    from ..dsf import auto_memo_check
    ctx.rule('C18.c', 'no auto-discovered lazily filled cache of the classes in the anchored modules can be stale at the exit of a public method (dependencies = what the fill expression reads, incl. mutating calls on held sub-objects)', floor=4)
    auto_memo_check(ctx, 'C18.c', [RS, SRS, DMRS, 'pyphysim/reference_signals/channel_estimation.py'])
    from ..idioms import check_input_immutability, public_api
    check_input_immutability(ctx, 'C18.f', public_api(ctx.model, [RS, ZC, SRS, DMRS], constructors=True), floor=8)
    _check_inputs_untouched(ctx)
    _check_ls_identity(ctx)
    from ..idioms import check_init_order
    check_init_order(ctx, 'C18.i', [SRS, DMRS, 'pyphysim/reference_signals/channel_estimation.py'], floor=2)
    from ..idioms import check_no_persistent_buffers
    check_no_persistent_buffers(ctx, 'C18.j', [SRS, DMRS, 'pyphysim/reference_signals/channel_estimation.py'], floor=5)
    from ..idioms import check_flag_tests_agree
    check_flag_tests_agree(ctx, 'C18.g', [RS, ZC, SRS, DMRS, 'pyphysim/reference_signals/channel_estimation.py'], floor=1)
    _check_extension(ctx)
    # ------------------------------------------------------------------ C18.b
    ctx.rule('C18.b', 'shift grids 8 (SRS) / 12 (DMRS); shift assertion and phase; root tables 30 x 12/24 over {+-1,+-3}', floor=5)
    for path, fname, want in ((SRS, 'get_srs_seq', 8), (DMRS, 'get_dmrs_seq', 12)):
        fn = M.func(path, fname)
        ctx.instance('C18.b', fname)
        calls = [n for n in walk_no_nested(fn.node) if isinstance(n, ast.Call) and norm(n.func).endswith('get_shifted_root_seq')]
        val = None
        if len(calls) == 1 and len(calls[0].args) == 3:
            a = calls[0].args[2]
            val = const_value(a)
            if val is None and isinstance(a, ast.Name):
                v = fn.module.assigns.get(a.id)
                val = const_value(v) if v is not None else None
        ok = val == want and len(calls) == 1 and [norm(x) for x in calls[0].args[:2]] == fn.params[:2]
        ctx.obligation('C18.b', fname, ok, {'denominator': val, 'expected': want})
        if not ok:
            ctx.violation('C18.b', fname, 'passes %s as the number of cyclic shifts to get_shifted_root_seq; the standard grid '
                          'is %d' % (val, want), fn.path, fn.lineno, operand='denominator')
    fn = M.func(ZC, 'get_shifted_root_seq')
    ctx.instance('C18.b', 'get_shifted_root_seq')
    asserts = [norm(n.test) for n in walk_no_nested(fn.node) if isinstance(n, ast.Assert)]
    # the shift guard, decided for every order position of |n_cs| relative to 0 and the denominator (any spelling made of comparisons)
    from ..astutil import expander as _exp18, order_truth_table
    _ex18 = _exp18(fn)
    pn = fn.params[1] if len(fn.params) > 1 else 'n_cs'
    dn = fn.params[2] if len(fn.params) > 2 else 'denominator'
    tabs = [order_truth_table(_ex18(n.test), 'abs(%s)' % pn, ['0', dn]) for n in walk_no_nested(fn.node) if isinstance(n, ast.Assert)
            and any(norm(x) == 'abs(%s)' % pn for x in ast.walk(_ex18(n.test)))]
    if not tabs or any(t_ is None for t_ in tabs):
        ctx.error('C18.b: get_shifted_root_seq no longer guards |%s| with assertions made of comparisons with 0 and %s (cannot tell)' % (pn, dn))
    acc = {k_: all(t_[k_] for t_ in tabs) for k_ in tabs[0]}
    ok_a = acc['at 0'] and acc['between 0 and %s' % dn] and not acc['at %s' % dn] and not acc['above %s' % dn]
    from .. import terms as T
    loc = T.local_terms(M, fn)
    want_ramp = T.parse_spec('2 * pi * %s / %s' % (pn, dn))
    ramp_names = [k_ for k_, v_ in loc.items() if v_ == want_ramp]
    ok_p = bool(ramp_names)
    if not ok_p and not any(any(a_ == ('sym', 'pi') for a_ in T.atoms_of(v_)) for v_ in loc.values()):
        ctx.error('C18.b: get_shifted_root_seq no longer computes its phase ramp as a formula of pi in a local (cannot tell)')
    ctx.obligation('C18.b', 'get_shifted_root_seq', ok_a and ok_p, {'asserts': asserts, 'phase_ramp_local': ramp_names})
    if not (ok_a and ok_p):
        ctx.violation('C18.b', 'get_shifted_root_seq', 'shift guard |n_cs| < denominator (%s) or phase ramp 2 pi n_cs/denominator '
                      '(%s) broken' % (ok_a, ok_p), fn.path, fn.lineno, operand='shift')
    for name, width in (('ROOT_TABLE1', 12), ('ROOT_TABLE2', 24)):
        node = mod.assigns.get(name)
        ctx.instance('C18.b', name)
        ok, detail = False, {}
        if isinstance(node, ast.Dict):
            keys = [k.value for k in node.keys if isinstance(k, ast.Constant)]
            rows = [_literal_ints(v) for v in node.values]
            ok = sorted(keys, key=lambda s: int(s)) == [str(i) for i in range(30)] and all(
                r is not None and len(r) == width and set(r) <= {1, -1, 3, -3} for r in rows)
            detail = {'rows': len(rows), 'width': width,
                      'bad_rows': [k for k, r in zip(keys, rows) if r is None or len(r) != width or not set(r) <= {1, -1, 3, -3}][:5]}
        ctx.obligation('C18.b', name, ok, detail)
        if not ok:
            ctx.violation('C18.b', name, 'root table is not 30 rows (keys "0".."29") of %d phases from {+-1,+-3}: %s'
                          % (width, detail), RS, 1, operand='table')


def _check_extension(ctx: Ctx) -> None:
    """C18.e: the extended sequence is whole copies of the base sequence followed by a prefix of it (starting at index 0) and
    the piece lengths add up to the requested size - as terms, on both branches."""
    from .. import terms as T
    M = ctx.model
    ctx.rule('C18.e', 'cyclic extension: pieces are whole copies plus a prefix from index 0, and their lengths sum to `size` (terms)', floor=2)
    fn = M.func(ZC, 'get_extended_ZF')
    seq, size = fn.params[0], fn.params[1]
    loc = T.local_terms(M, fn)
    env = T.Env(M, fn)
    env.vars.update(loc)
    RS = loc.get('root_seq_size', T.Term.sym(seq + '.size'))
    want = T.Term.sym(size)
    branches = [n for n in walk_no_nested(fn.node) if isinstance(n, ast.If)]
    if len(branches) != 1:
        ctx.error('C18.e: get_extended_ZF no longer has its two branches')

    def piece_len(e: ast.AST):
        if isinstance(e, ast.Name) and e.id == seq:
            return RS, True
        if isinstance(e, ast.Subscript) and isinstance(e.value, ast.Name) and e.value.id == seq and isinstance(e.slice, ast.Slice):
            lo = e.slice.lower
            from0 = lo is None or const_value(lo) == 0
            return T.from_ast(e.slice.upper, env), from0
        raise T.Unknown('piece %s' % norm(e))

    for name, body in (('many-repeats', branches[0].body), ('one-repeat', branches[0].orelse)):
        construct = 'get_extended_ZF:' + name
        ctx.instance('C18.e', construct)
        total = T.Term.const(0)
        from0_all = True
        joined = False
        try:
            lists = {}
            counts: Dict = {}
            named = {}            # local -> (length, from0) of a named piece: tail = seq[0:k]
            alloc = {}            # local -> length term of a pre-allocated result (np.empty(n)), filled by slice stores
            for s_ in body:
                if isinstance(s_, ast.Assign) and isinstance(s_.targets[0], ast.Name) and isinstance(s_.value, ast.Subscript) \
                        and isinstance(s_.value.value, ast.Name) and s_.value.value.id == seq:
                    named[s_.targets[0].id] = piece_len(s_.value)
                    continue
                if isinstance(s_, ast.Assign) and isinstance(s_.targets[0], ast.Name) and isinstance(s_.value, ast.Call) \
                        and norm(s_.value.func) in ('np.empty', 'np.zeros') and s_.value.args:
                    ln = T.from_ast(s_.value.args[0], env)
                    ln = T.substitute(ln, {k_ + '.size': v_[0] for k_, v_ in named.items()})
                    alloc[s_.targets[0].id] = [ln, 0]
                    continue
                if isinstance(s_, ast.Assign) and len(s_.targets) == 1 and isinstance(s_.targets[0], ast.Subscript):
                    root = s_.targets[0]
                    while isinstance(root, (ast.Subscript, ast.Call, ast.Attribute)):
                        root = root.value if not isinstance(root, ast.Call) else root.func
                    if isinstance(root, ast.Name) and root.id in alloc:
                        v_ = s_.value
                        if isinstance(v_, ast.Name) and v_.id in named:
                            from0_all = from0_all and named[v_.id][1]
                        elif isinstance(v_, ast.Name) and v_.id == seq:
                            pass
                        else:
                            from0_all = from0_all and piece_len(v_)[1]
                        alloc[root.id][1] += 1
                        continue
                if isinstance(s_, ast.Assign) and isinstance(s_.targets[0], ast.Name) and isinstance(s_.value, ast.List):
                    lists[s_.targets[0].id] = [piece_len(e) for e in s_.value.elts]
                elif isinstance(s_, ast.For) and isinstance(s_.iter, ast.Call) and norm(s_.iter.func) == 'range' and len(s_.iter.args) == 1 \
                        and not s_.orelse and all(isinstance(b, ast.Expr) and isinstance(b.value, ast.Call) and isinstance(b.value.func, ast.Attribute)
                                                  and b.value.func.attr == 'append' and isinstance(b.value.func.value, ast.Name)
                                                  and b.value.func.value.id in lists for b in s_.body):
                    # `for _ in range(k): lst.append(piece)`: k copies of each appended piece
                    k = T.from_ast(s_.iter.args[0], env)
                    for b in s_.body:
                        l, f0 = piece_len(b.value.args[0])
                        lists[b.value.func.value.id].append((l * k, f0))
                        counts[b.value.func.value.id] = counts.get(b.value.func.value.id, T.Term.const(0)) + k
                elif isinstance(s_, ast.Assign) and isinstance(s_.targets[0], ast.Name) and any(
                        isinstance(x, ast.Call) and norm(x.func) == 'len' and x.args and isinstance(x.args[0], ast.Name) and x.args[0].id in lists
                        for x in ast.walk(s_.value)):
                    # a size computed from the number of pieces collected so far
                    class _L(ast.NodeTransformer):
                        def visit_Call(self, c):
                            self.generic_visit(c)
                            if norm(c.func) == 'len' and c.args and isinstance(c.args[0], ast.Name) and c.args[0].id in lists:
                                return ast.Name(id='__len_' + c.args[0].id, ctx=ast.Load())
                            return c
                    import copy as _copy
                    v2 = ast.fix_missing_locations(_L().visit(_copy.deepcopy(s_.value)))
                    for ln_, cnt_ in counts.items():
                        env.vars['__len_' + ln_] = cnt_
                    for ln_ in lists:
                        env.vars.setdefault('__len_' + ln_, T.Term.const(len(lists[ln_])) if ln_ not in counts else counts[ln_])
                    env.vars[s_.targets[0].id] = T.from_ast(v2, env)
                elif isinstance(s_, ast.AugAssign) and isinstance(s_.op, ast.Mult) and isinstance(s_.target, ast.Name) and s_.target.id in lists:
                    k = T.from_ast(s_.value, env)
                    lists[s_.target.id] = [(l * k, f0) for l, f0 in lists[s_.target.id]]
                elif isinstance(s_, ast.Expr) and isinstance(s_.value, ast.Call) and isinstance(s_.value.func, ast.Attribute) \
                        and s_.value.func.attr == 'append' and isinstance(s_.value.func.value, ast.Name) and s_.value.func.value.id in lists:
                    lists[s_.value.func.value.id].append(piece_len(s_.value.args[0]))
                elif isinstance(s_, ast.Assign) and isinstance(s_.value, ast.Call) and norm(s_.value.func) in ('np.hstack', 'np.concatenate'):
                    a = s_.value.args[0]
                    pieces = lists[a.id] if isinstance(a, ast.Name) and a.id in lists else [piece_len(e) for e in a.elts]
                    joined = True
                    for l, f0 in pieces:
                        total = total + l
                        from0_all = from0_all and f0
            for an, (ln, nst) in alloc.items():
                if nst >= 2 and not joined:
                    joined = True
                    total = ln
        except (T.Unknown, AttributeError, KeyError) as e:
            ctx.error('C18.e: extension branch %s not recognised (%s)' % (name, e))
        if not joined:
            ctx.error('C18.e: extension branch %s joins its pieces neither with hstack / concatenate nor by slice stores into a '
                      'pre-allocated array (cannot tell)' % name)
        # size // RS * RS stays symbolic: substitute the floor division atom consistently (it cancels in the sum)
        ok = total == want and from0_all
        ctx.obligation('C18.e', construct, ok, {'total_length': total.pretty(), 'expected': want.pretty(), 'prefix_from_index_0': from0_all})
        if not ok:
            ctx.violation('C18.e', 'get_extended_ZF', 'branch %s builds a sequence of length `%s` (prefix from index 0: %s), not a cyclic '
                          'extension of length `%s`' % (name, total.pretty(), from0_all, want.pretty()), fn.path, fn.lineno, operand=name)


def _check_ls_identity(ctx: Ctx) -> None:
    """C18.h: the least-squares pilot estimator returns the channel for every full-rank pilot matrix (matrix terms, every path)."""
    from .. import matterms as X
    M = ctx.model
    ctx.rule('C18.h', 'compute_ls_estimation(H s, s) = H on EVERY path of its two-dimensional case (matrix terms: Y_p = H s with s s^H '
                      'invertible; data-dependent tests are followed both ways, so a shortcut for a special shape must return H too)', floor=1)
    fn = M.func('pyphysim/channel_estimation/estimators.py', 'compute_ls_estimation')
    cx = X.Ctx()
    H, s_ = X.MT.sym('H'), X.MT.sym('s')
    paths = X.explore_paths(M, fn, [X.Val('mat', X.mul(H, s_, cx)), X.Val('mat', s_)], cx)
    if not paths:
        ctx.error('C18.h: no path of compute_ls_estimation could be evaluated (cannot tell)')
    for dec, tests, v in paths:
        construct = 'compute_ls_estimation:path[%s]' % ','.join('%s=%s' % (t[:30], d) for t, d in zip(tests, dec))
        ctx.instance('C18.h', construct)
        if isinstance(v, Exception):
            ctx.error('C18.h: a path of compute_ls_estimation (%s) is not a matrix expression the term engine understands (%s): cannot tell'
                      % (construct, v))
        if v.kind != 'mat':
            ctx.error('C18.h: a path of compute_ls_estimation returns a %s, not a matrix (cannot tell)' % v.kind)
        res = X.proves(v.v, H, cx)
        ok = bool(res[0]) if isinstance(res, tuple) else bool(res)
        ctx.obligation('C18.h', construct, ok, {'returned': v.v.pretty()[:120], 'tests_decided': list(zip(tests, dec))})
        if not ok and 'elem[' in v.v.pretty():
            # single elements stand for the whole matrix only when the path pins the matrix to 1 x 1
            joined = ' '.join(t.replace(' ', '') for t, d in zip(tests, dec) if d)
            if ('shape[0]==1' in joined and 'shape[1]==1' in joined) or 'size==1' in joined or 'shape==(1,1)' in joined:
                ctx.error('C18.h: a path of compute_ls_estimation for 1 x 1 pilots works on single elements (%s): cannot tell' % v.v.pretty()[:80])
        if not ok:
            ctx.violation('C18.h', 'compute_ls_estimation', 'on the path where %s the estimator returns `%s` for the noise-free observation H s, which '
                          'is not H for a general pilot matrix' % (' and '.join('`%s` is %s' % (t, d) for t, d in zip(tests, dec)) or 'no test is met',
                                                                    v.v.pretty()[:90]), fn.path, fn.lineno, operand='ls-identity')


def _check_inputs_untouched(ctx: Ctx) -> None:
    from .. import effects
    M = ctx.model
    ctx.rule('C18.d', 'the estimators never modify the observation they are given (it is shared between the users multiplexed on it)', floor=3)
    CE_ = 'pyphysim/reference_signals/channel_estimation.py'
    targets = [(CE_, 'CazacBasedChannelEstimator.estimate_channel_freq_domain', 'received_signal'),
               (CE_, 'CazacBasedWithOCCChannelEstimator.estimate_channel_freq_domain', 'received_signal'),
               ('pyphysim/channel_estimation/estimators.py', 'compute_ls_estimation', None)]
    for path, q, operand in targets:
        fn = M.func(path, q)
        ops = [operand] if operand else [p for p in fn.params if p != 'self']
        for op in ops:
            if op not in fn.params:
                ctx.error('C18.d: parameter %s of %s vanished' % (op, q))
            construct = '%s(%s)' % (q, op)
            ctx.instance('C18.d', construct)
            muts = [e for e in effects.analyse_operand(M, fn, op, check_capture=False) if e.kind == 'mutation']
            ctx.obligation('C18.d', construct, not muts, {'operand': op, 'mutation_events': [e.what for e in muts]})
            for e in muts:
                ctx.violation('C18.d', q, 'the input `%s` is modified in place: %s; the same observation estimated for a second user (or '
                              'twice) then gives a wrong channel' % (op, e.what), e.fn.path, e.line, operand=op)


def synthetic():
    t = [2, 3, 5, 7, 11, 13, 17, 19, 23, 27, 29]
    ref = sieve(29)
    return [('composite-in-prime-table', t != ref), ('sieve-self-check', sieve(30) == [2, 3, 5, 7, 11, 13, 17, 19, 23, 29])]


class _TableMutant(Mutant):
    """Edits the module-level table (not a function): op = ('table', old_text, new_text)."""

    def apply(self, overlay):
        from ..overlay import MutantNotApplicable
        src = overlay.src(self.path)
        for op in self.ops:
            import re
            new, n = re.subn(op[1], op[2], src, count=1)
            if n == 0:
                raise MutantNotApplicable('pattern %r not found' % op[1])
            src = new
        return overlay.with_file(self.path, src, 'mutant:' + self.name)


MUTANTS = [
    Mutant('single-antenna-ls-shortcut-on-one-pilot-element', 'pyphysim/channel_estimation/estimators.py', 'compute_ls_estimation',
           [('regex', r'(        assert s\.ndim == 2\n)', r'\1        if s.shape[0] == 1:\n            return Y_p @ s.T.conj() / (np.abs(s[0, 0]) ** 2 * s.shape[1])\n')],
           r'C18\.h:compute_ls_estimation:ls-identity'),
    Mutant('normalize-flag-tested-by-truthiness-in-the-sequence', SRS, 'UeSequence.__init__',
           [('replace', 'if normalize is True:', 'if normalize:')], r'C18\.g:UeSequence\.__init__:flag:'),
    _TableMutant('revert-fix-table-stops-at-1009', RS, '_SMALL_PRIME_LIST', [('table', r'1009,\s*1013,[\s\d,]*?1201\n', '1009\n')],
                 r'C18\.a:_SMALL_PRIME_LIST:reach'),
    _TableMutant('drop-997', RS, '_SMALL_PRIME_LIST', [('table', r' 997,', '')], r'C18\.a:_SMALL_PRIME_LIST:exact'),
    _TableMutant('swap-neighbours', RS, '_SMALL_PRIME_LIST', [('table', r'991, 997,', '997, 991,')], r'C18\.a:_SMALL_PRIME_LIST:exact'),
    _TableMutant('composite-entry', RS, '_SMALL_PRIME_LIST', [('table', r' 1117,', ' 1117, 1119,')], r'C18\.a:_SMALL_PRIME_LIST:exact'),
    _TableMutant('benign-reformat-table', RS, '_SMALL_PRIME_LIST', [('table', r' 997, 1009,', ' 997,\n    1009,')], None, benign=True),
    _TableMutant('root-table-bad-phase', RS, 'ROOT_TABLE1', [('table', r"'0': np\.array\(\[-1, 1, 3,", "'0': np.array([-1, 1, 5,")],
                 r'C18\.b:ROOT_TABLE1'),
    Mutant('occ-applied-in-place-on-view', 'pyphysim/reference_signals/channel_estimation.py',
           'CazacBasedWithOCCChannelEstimator.estimate_channel_freq_domain',
           [('replace', 'r_mean = np.mean(r * self.cover_code[:, np.newaxis], axis=0)', 'r *= self.cover_code[:, np.newaxis]\n        r_mean = np.mean(r, axis=0)')],
           r'C18\.d:CazacBasedWithOCCChannelEstimator\.estimate_channel_freq_domain'),
    Mutant('extension-tail-one-short', ZC, 'get_extended_ZF',
           [('replace', 'root_seq[0:size - current_size]', 'root_seq[0:size - current_size - 1]')], r'C18\.e:get_extended_ZF:many-repeats'),
    Mutant('extension-tail-from-index-1', ZC, 'get_extended_ZF',
           [('replace', 'root_seq[0:size - root_seq_size]', 'root_seq[1:size - root_seq_size]')], r'C18\.e:get_extended_ZF:one-repeat'),
    Mutant('lookup-strict-less', RS, 'RootSequence._get_largest_prime_lower_than_number',
           [('replace', '_SMALL_PRIME_LIST <= seq_size', '_SMALL_PRIME_LIST < seq_size')], r'C18\.a:.*lookup'),
    Mutant('srs-uses-12-shifts', SRS, 'get_srs_seq', [('replace', 'n_cs, 8)', 'n_cs, 12)')], r'C18\.b:get_srs_seq'),
    Mutant('shift-guard-le', ZC, 'get_shifted_root_seq', [('replace', 'abs(n_cs) < denominator', 'abs(n_cs) <= denominator')],
           r'C18\.b:get_shifted_root_seq'),
    Mutant('phase-ramp-without-2', ZC, 'get_shifted_root_seq', [('replace', '2 * np.pi * n_cs / denominator', 'np.pi * n_cs / denominator')],
           r'C18\.b:get_shifted_root_seq'),
]

ENGINES = ['model', 'tables', 'terms']
TECHNIQUE = 'static analysis: literal table evaluation against the checker\'s own sieve (exhaustive over sizes 25..1200), idiom and constant rules'
