"""C12 - water-filling: the symbol energy weights every use of a gain; results return in the caller's order."""
from __future__ import annotations

import ast
from typing import Dict, List, Set

from ..astutil import names_in
from ..model import FuncInfo, norm, walk_no_nested
from ..report import Ctx
from ..selftest import Mutant

WF = 'pyphysim/comm/waterfilling.py'

EXPLANATION = (
    'Decides two structural clauses of C12. C12.a (taint): inside doWF every quotient whose numerator is '
    'noise-derived and whose divisor is gain-derived also carries the symbol energy Es in the divisor - the '
    'allocation AND the returned water level must be expressed in the same noise/(Es*gain) floor, otherwise the '
    'returned level does not satisfy P = max(0, mu - N/(Es g)) for Es != 1. C12.b: the allocation is scattered '
    'back with the very index vector produced by the argsort that sorted the gains (restricted to the kept '
    'prefix), so permuting the channels permutes the allocation. Not decided: optimality, sum == total power, '
    'non-negativity (numeric).')


def _derived(fn: FuncInfo, seeds: Set[str]) -> Set[str]:
    out = set(seeds)
    changed = True
    while changed:
        changed = False
        for n in walk_no_nested(fn.node):
            if isinstance(n, ast.Assign) and len(n.targets) == 1 and isinstance(n.targets[0], ast.Name):
                if names_in(n.value) & out and n.targets[0].id not in out:
                    # index vectors (argsort results, sizes) are not gains
                    if isinstance(n.value, ast.Subscript) or (isinstance(n.value, ast.BinOp)):
                        out.add(n.targets[0].id)
                        changed = True
    return out


def check(ctx: Ctx) -> None:
    M = ctx.model
    fn = M.func(WF, 'doWF')
    for p in ('vtChannels', 'noiseVar', 'Es'):
        if p not in fn.params:
            ctx.error('C12: parameter %s of doWF vanished' % p)
    ctx.rule('C12.a', 'Es weights every noise/gain quotient in doWF', floor=5)
    gains = {'vtChannels'}
    for n in walk_no_nested(fn.node):
        if isinstance(n, ast.Assign) and len(n.targets) == 1 and isinstance(n.targets[0], ast.Name) \
                and isinstance(n.value, ast.Subscript) and names_in(n.value.value) & gains:
            gains.add(n.targets[0].id)
    i = 0
    for n in walk_no_nested(fn.node):
        if isinstance(n, ast.BinOp) and isinstance(n.op, ast.Div):
            num, den = names_in(n.left), names_in(n.right)
            if 'noiseVar' in num and den & gains:
                i += 1
                stmt = _enclosing_target(fn, n)
                construct = 'doWF:%s#%d' % (stmt, i)
                ctx.instance('C12.a', construct)
                ok = 'Es' in den
                ctx.obligation('C12.a', construct, ok, {'quotient': norm(n)[:90]})
                if not ok:
                    ctx.violation('C12.a', 'doWF', 'the quotient `%s` (defining `%s`) divides the noise by a channel gain without '
                                  'the symbol energy Es: for Es != 1 this quantity is inconsistent with the allocation, which uses '
                                  'noise/(Es*gain)' % (norm(n)[:80], stmt), fn.path, n.lineno, operand=stmt)
    # ------------------------------------------------------------------ C12.b
    ctx.rule('C12.b', 'the allocation is scattered back with the argsort index that sorted the gains', floor=1)
    ctx.instance('C12.b', 'doWF:unsort')
    sort_idx = None
    for n in walk_no_nested(fn.node):
        if isinstance(n, ast.Assign) and isinstance(n.targets[0], ast.Name) and 'argsort' in norm(n.value) \
                and 'vtChannels' in names_in(n.value):
            sort_idx = n.targets[0].id
    sorted_by = None
    for n in walk_no_nested(fn.node):
        if isinstance(n, ast.Assign) and isinstance(n.targets[0], ast.Name) and isinstance(n.value, ast.Subscript) \
                and norm(n.value.value) == 'vtChannels' and norm(n.value.slice) == sort_idx:
            sorted_by = n.targets[0].id
    scat = [n for n in walk_no_nested(fn.node) if isinstance(n, ast.Assign) and isinstance(n.targets[0], ast.Subscript)
            and isinstance(n.targets[0].slice, ast.Subscript)]
    rets = [n for n in walk_no_nested(fn.node) if isinstance(n, ast.Return)]
    ok = False
    detail: Dict = {'argsort_index': sort_idx, 'sorted_gains': sorted_by}
    if sort_idx and sorted_by and len(scat) == 1 and len(rets) == 1 and isinstance(rets[0].value, ast.Tuple):
        t = scat[0].targets[0]
        out_name = norm(t.value)
        idx = t.slice
        detail.update({'scatter': norm(scat[0])[:100], 'returned': norm(rets[0].value)})
        n_argsort = sum(1 for n in ast.walk(fn.node) if isinstance(n, ast.Call) and 'argsort' in norm(n.func))
        ok = norm(idx.value) == sort_idx and norm(rets[0].value.elts[0]) == out_name and n_argsort == 1
    ctx.obligation('C12.b', 'doWF:unsort', ok, detail)
    if not ok:
        ctx.violation('C12.b', 'doWF', 'the returned allocation is not scattered back through the argsort index that sorted the '
                      'gains (%s): the powers come back in the wrong channel order' % detail, fn.path, fn.lineno, operand='unsort')


def _enclosing_target(fn: FuncInfo, node: ast.AST) -> str:
    for s in walk_no_nested(fn.node):
        if isinstance(s, ast.Assign) and any(x is node for x in ast.walk(s.value)):
            return norm(s.targets[0])
    return '?'


def synthetic():
    from ..overlay import Overlay
    from ..model import Model
    return []


MUTANTS = [
    Mutant('revert-fix-mu-without-Es', WF, 'doWF', [('regex', r'mu = vtOptPaux\[0\] \+ float\(noiseVar\) / \(Es \* vtChannelsSorted\[0\]\)',
                                                      'mu = vtOptPaux[0] + float(noiseVar) / vtChannelsSorted[0]')], r'C12\.a:doWF:mu'),
    Mutant('first-minMu-without-Es', WF, 'doWF', [('regex', r'minMu = float\(noiseVar\) / \(Es \* (vtChannelsSorted\[dNChannels - dRemoveChannels - 1\])\)',
                                                   r'minMu = float(noiseVar) / \1')], r'C12\.a:doWF:minMu'),
    Mutant('scatter-with-fresh-argsort', WF, 'doWF', [('replace', 'vtOptP[vtChannelsSortIndexes[', 'vtOptP[np.argsort(vtChannels)[')],
           r'C12\.b:doWF:unsort'),
    Mutant('benign-precompute-floor', WF, 'doWF',
           [('regex', r'mu = vtOptPaux\[0\] \+ float\(noiseVar\) / \(Es \* vtChannelsSorted\[0\]\)',
             'floor0 = float(noiseVar) / (Es * vtChannelsSorted[0])\n    mu = vtOptPaux[0] + floor0')], None, benign=True),
]

ENGINES = ['model', 'tables']
TECHNIQUE = 'static analysis: parameter taint over quotients (every gain use weighted by Es), index def-use rule'
