"""C12 - water-filling: the symbol energy weights every use of a gain; results return in the caller's order."""
from __future__ import annotations

import ast
from typing import Dict, List, Set

from ..astutil import names_in
from ..model import FuncInfo, norm, walk_no_nested
from ..report import Ctx
from ..selftest import Mutant

WF = 'pyphysim/comm/waterfilling.py'

EXPLANATION = (
    'Decides two structural clauses of C12. C12.a (taint): inside doWF every quotient whose numerator is '
    'noise-derived and whose divisor is gain-derived also carries the symbol energy Es in the divisor - the '
    'allocation AND the returned water level must be expressed in the same noise/(Es*gain) floor, otherwise the '
    'returned level does not satisfy P = max(0, mu - N/(Es g)) for Es != 1. C12.b: the allocation is scattered '
    'back with the very index vector produced by the argsort that sorted the gains (restricted to the kept '
    'prefix), so permuting the channels permutes the allocation. Not decided: optimality, sum == total power, '
    'non-negativity (numeric).')


def _derived(fn: FuncInfo, seeds: Set[str]) -> Set[str]:
    out = set(seeds)
    changed = True
    while changed:
        changed = False
        for n in walk_no_nested(fn.node):
            if isinstance(n, ast.Assign) and len(n.targets) == 1 and isinstance(n.targets[0], ast.Name):
                if names_in(n.value) & out and n.targets[0].id not in out:
                    # index vectors (argsort results, sizes) are not gains
                    if isinstance(n.value, ast.Subscript) or (isinstance(n.value, ast.BinOp)):
                        out.add(n.targets[0].id)
                        changed = True
    return out


def check(ctx: Ctx) -> None:
    M = ctx.model
    fn = M.func(WF, 'doWF')
    for p in ('vtChannels', 'noiseVar', 'Es'):
        if p not in fn.params:
            ctx.error('C12: parameter %s of doWF vanished' % p)
    from ..idioms import check_input_immutability
    check_input_immutability(ctx, 'C12.d', [fn], floor=1)
    ctx.rule('C12.a', 'every noise/gain quotient of doWF is noiseVar / (Es * gain): Es enters exactly once (term normal forms)', floor=3)
    from .. import terms as T
    gains = {'vtChannels'}
    for n in walk_no_nested(fn.node):
        if isinstance(n, ast.Assign) and len(n.targets) == 1 and isinstance(n.targets[0], ast.Name) \
                and isinstance(n.value, ast.Subscript) and names_in(n.value.value) & gains:
            gains.add(n.targets[0].id)
    env = T.Env(M, fn)
    env.vars.update({k: v for k, v in T.local_terms(M, fn).items() if k not in gains})

    def is_gain(a) -> bool:
        return a[0] == 'sym' and a[1].split('[')[0] in gains

    i = 0
    for n in walk_no_nested(fn.node):
        if not (isinstance(n, ast.BinOp) and isinstance(n.op, ast.Div)):
            continue
        try:
            t = T.from_ast(n, env)
        except T.Unknown:
            continue
        for m, c in t.terms:
            exps = {}
            for a, e in m:
                if a == ('sym', 'noiseVar'):
                    exps['noise'] = exps.get('noise', 0) + e
                elif a == ('sym', 'Es'):
                    exps['Es'] = exps.get('Es', 0) + e
                elif is_gain(a):
                    exps['gain'] = exps.get('gain', 0) + e
            if exps.get('noise', 0) > 0 and exps.get('gain', 0) < 0:
                i += 1
                stmt = _enclosing_target(fn, n)
                construct = 'doWF:%s#%d' % (stmt, i)
                ctx.instance('C12.a', construct)
                ok = exps.get('noise') == 1 and exps.get('gain') == -1 and exps.get('Es', 0) == -1
                ctx.obligation('C12.a', construct, ok, {'quotient': norm(n)[:80], 'normal_form': t.pretty()[:120],
                                                        'exponents': {k: str(v) for k, v in exps.items()}})
                if not ok:
                    ctx.violation('C12.a', 'doWF', 'the quotient `%s` (defining `%s`) normalises to `%s`: the symbol energy enters with '
                                  'exponent %s instead of -1, so this quantity is inconsistent with noise/(Es*gain)'
                                  % (norm(n)[:70], stmt, t.pretty()[:90], exps.get('Es', 0)), fn.path, n.lineno, operand=stmt)
    _check_level(ctx, fn)
    # ------------------------------------------------------------------ C12.b
    ctx.rule('C12.b', 'the allocation is scattered back with the argsort index that sorted the gains', floor=1)
    ctx.instance('C12.b', 'doWF:unsort')
    sort_idx = None
    for n in walk_no_nested(fn.node):
        if isinstance(n, ast.Assign) and isinstance(n.targets[0], ast.Name) and 'argsort' in norm(n.value) \
                and 'vtChannels' in names_in(n.value):
            sort_idx = n.targets[0].id
    sorted_by = None
    for n in walk_no_nested(fn.node):
        if isinstance(n, ast.Assign) and isinstance(n.targets[0], ast.Name) and isinstance(n.value, ast.Subscript) \
                and norm(n.value.value) == 'vtChannels' and norm(n.value.slice) == sort_idx:
            sorted_by = n.targets[0].id
    scat = [n for n in walk_no_nested(fn.node) if isinstance(n, ast.Assign) and isinstance(n.targets[0], ast.Subscript)
            and isinstance(n.targets[0].slice, ast.Subscript)]
    rets = [n for n in walk_no_nested(fn.node) if isinstance(n, ast.Return)]
    ok = False
    detail: Dict = {'argsort_index': sort_idx, 'sorted_gains': sorted_by}
    if sort_idx and sorted_by and len(scat) == 1 and len(rets) == 1 and isinstance(rets[0].value, ast.Tuple):
        t = scat[0].targets[0]
        out_name = norm(t.value)
        idx = t.slice
        detail.update({'scatter': norm(scat[0])[:100], 'returned': norm(rets[0].value)})
        n_argsort = sum(1 for n in ast.walk(fn.node) if isinstance(n, ast.Call) and 'argsort' in norm(n.func))
        ok = norm(idx.value) == sort_idx and norm(rets[0].value.elts[0]) == out_name and n_argsort == 1
    ctx.obligation('C12.b', 'doWF:unsort', ok, detail)
    if not ok:
        ctx.violation('C12.b', 'doWF', 'the returned allocation is not scattered back through the argsort index that sorted the '
                      'gains (%s): the powers come back in the wrong channel order' % detail, fn.path, fn.lineno, operand='unsort')


def _check_level(ctx: Ctx, fn: FuncInfo) -> None:
    ctx.rule('C12.c', 'the returned water level is computed from the strongest channel (index 0 of the descending-sorted vectors)', floor=1)
    ctx.instance('C12.c', 'doWF:mu')
    rets = [n for n in walk_no_nested(fn.node) if isinstance(n, ast.Return) and isinstance(n.value, ast.Tuple) and len(n.value.elts) == 2]
    if len(rets) != 1 or not isinstance(rets[0].value.elts[1], ast.Name):
        ctx.error('C12.c: doWF no longer returns (allocation, level) as two locals')
    out_name, mu = norm(rets[0].value.elts[0]), rets[0].value.elts[1].id
    defs = [n for n in walk_no_nested(fn.node) if isinstance(n, ast.Assign) and any(isinstance(t, ast.Name) and t.id == mu for t in n.targets)]
    if len(defs) != 1:
        ctx.error('C12.c: the level %s is defined %d times' % (mu, len(defs)))
    sorted_gain = None
    idxname = None
    for n in walk_no_nested(fn.node):
        if isinstance(n, ast.Assign) and isinstance(n.targets[0], ast.Name) and 'argsort' in norm(n.value) and norm(n.value).endswith('[::-1]'):
            idxname = n.targets[0].id
    for n in walk_no_nested(fn.node):
        if isinstance(n, ast.Assign) and isinstance(n.targets[0], ast.Name) and isinstance(n.value, ast.Subscript) \
                and norm(n.value.value) == 'vtChannels' and norm(n.value.slice) == idxname:
            sorted_gain = n.targets[0].id
    # expand single-assignment locals used in the definition (e.g. a precomputed noise floor)
    loc1 = {}
    for n in walk_no_nested(fn.node):
        if isinstance(n, ast.Assign) and len(n.targets) == 1 and isinstance(n.targets[0], ast.Name):
            loc1.setdefault(n.targets[0].id, []).append(n.value)
    exprs = [defs[0].value]
    for x in ast.walk(defs[0].value):
        if isinstance(x, ast.Name) and len(loc1.get(x.id, [])) == 1 and x.id not in (sorted_gain, idxname):
            exprs.append(loc1[x.id][0])
    subs = [(norm(x.value), norm(x.slice)) for e_ in exprs for x in ast.walk(e_) if isinstance(x, ast.Subscript)]
    caller_order = [s_ for s_ in subs if s_[0] in ('vtChannels', out_name)]
    strongest = [s_ for s_ in subs if s_[0] == sorted_gain and s_[1] == '0']
    if caller_order:
        ok = False
        why = 'it indexes the caller-order vectors %s: that channel may be switched off (zero power), in which case the formula ' \
              'P + N/(Es g) is not the water level' % [s_[0] + '[' + s_[1] + ']' for s_ in caller_order]
    elif strongest and all(s_[1] == '0' for s_ in subs):
        ok, why = True, ''
    else:
        ctx.error('C12.c: the level is computed from %s (cannot tell whether that channel is always active)' % subs)
    ctx.obligation('C12.c', 'doWF:mu', ok, {'definition': norm(defs[0])[:100], 'subscripts': subs})
    if not ok:
        ctx.violation('C12.c', 'doWF', 'the returned water level `%s`: %s' % (norm(defs[0])[:80], why), fn.path, defs[0].lineno, operand='level')


def _enclosing_target(fn: FuncInfo, node: ast.AST) -> str:
    for s in walk_no_nested(fn.node):
        if isinstance(s, ast.Assign) and any(x is node for x in ast.walk(s.value)):
            return norm(s.targets[0])
    return '?'


def synthetic():
    from ..overlay import Overlay
    from ..model import Model
    return []


MUTANTS = [
    Mutant('revert-fix-mu-without-Es', WF, 'doWF', [('regex', r'mu = vtOptPaux\[0\] \+ float\(noiseVar\) / \(Es \* vtChannelsSorted\[0\]\)',
                                                      'mu = vtOptPaux[0] + float(noiseVar) / vtChannelsSorted[0]')], r'C12\.a:doWF:mu'),
    Mutant('first-minMu-without-Es', WF, 'doWF', [('regex', r'minMu = float\(noiseVar\) / \(Es \* (vtChannelsSorted\[dNChannels - dRemoveChannels - 1\])\)',
                                                   r'minMu = float(noiseVar) / \1')], r'C12\.a:doWF:minMu'),
    Mutant('scatter-with-fresh-argsort', WF, 'doWF', [('replace', 'vtOptP[vtChannelsSortIndexes[', 'vtOptP[np.argsort(vtChannels)[')],
           r'C12\.b:doWF:unsort'),
    Mutant('Es-applied-twice-in-loop', WF, 'doWF',
           [('regex', r'(    minMu = float\(noiseVar\) / \(Es \* vtChannelsSorted\[dNChannels - dRemoveChannels - 1\]\)\n)', r'    dNoise = float(noiseVar) / Es\n\1'),
            ('regex', r'(while .*?Ps = minMu - )float\(noiseVar\)( / \(Es \* vtChannelsSorted)', r'\1dNoise\2')], r'C12\.a:doWF:Ps'),
    Mutant('level-from-caller-order-channel-0', WF, 'doWF',
           [('regex', r'mu = vtOptPaux\[0\] \+ float\(noiseVar\) / \(Es \* vtChannelsSorted\[0\]\)', 'mu = vtOptP[0] + float(noiseVar) / (Es * vtChannels[0])')],
           r'C12\.c:doWF:level'),
    Mutant('benign-hoist-noise-over-Es', WF, 'doWF',
           [('regex', r'mu = vtOptPaux\[0\] \+ float\(noiseVar\) / \(Es \* vtChannelsSorted\[0\]\)',
             'nz = float(noiseVar) / Es\n    mu = vtOptPaux[0] + nz / vtChannelsSorted[0]')], None, benign=True),
    Mutant('benign-precompute-floor', WF, 'doWF',
           [('regex', r'mu = vtOptPaux\[0\] \+ float\(noiseVar\) / \(Es \* vtChannelsSorted\[0\]\)',
             'floor0 = float(noiseVar) / (Es * vtChannelsSorted[0])\n    mu = vtOptPaux[0] + floor0')], None, benign=True),
]

ENGINES = ['model', 'tables']
TECHNIQUE = 'static analysis: parameter taint over quotients (every gain use weighted by Es), index def-use rule'
