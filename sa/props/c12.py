"""C12 - water-filling: the symbol energy weights every use of a gain; results return in the caller's order."""
from __future__ import annotations

import ast
from typing import Dict, List, Set

from .. import terms as T
from ..astutil import names_in
from ..model import FuncInfo, norm, walk_no_nested
from ..report import Ctx
from ..selftest import Mutant

WF = 'pyphysim/comm/waterfilling.py'

EXPLANATION = (
    'Decides two structural clauses of C12. C12.a (taint): inside doWF every quotient whose numerator is '
    'noise-derived and whose divisor is gain-derived also carries the symbol energy Es in the divisor - the '
    'allocation AND the returned water level must be expressed in the same noise/(Es*gain) floor, otherwise the '
    'returned level does not satisfy P = max(0, mu - N/(Es g)) for Es != 1. C12.b: the allocation is scattered '
    'back with the very index vector produced by the argsort that sorted the gains (restricted to the kept '
    'prefix), so permuting the channels permutes the allocation. Not decided: optimality, sum == total power, '
    'non-negativity (numeric).'
    ' General rules also applied here (see DESIGN 10.5): input immutability (no in-place modification of an array argument, alias- and view-aware). C12.f: the result container is not typed by the caller\'s array (np.*_like without dtype).')


def _derived(fn: FuncInfo, seeds: Set[str]) -> Set[str]:
    out = set(seeds)
    changed = True
    while changed:
        changed = False
        for n in walk_no_nested(fn.node):
            if isinstance(n, ast.Assign) and len(n.targets) == 1 and isinstance(n.targets[0], ast.Name):
                if names_in(n.value) & out and n.targets[0].id not in out:
                    # index vectors (argsort results, sizes) are not gains
                    if isinstance(n.value, ast.Subscript) or (isinstance(n.value, ast.BinOp)):
                        out.add(n.targets[0].id)
                        changed = True
    return out


def check(ctx: Ctx) -> None:
    M = ctx.model
    fn = M.func(WF, 'doWF')
    for p in ('vtChannels', 'noiseVar', 'Es'):
        if p not in fn.params:
            ctx.error('C12: parameter %s of doWF vanished' % p)
    from ..idioms import check_input_immutability
    check_input_immutability(ctx, 'C12.d', [fn], floor=1)
    from ..idioms import check_input_typed_containers
    check_input_typed_containers(ctx, 'C12.f', [fn], floor=1)
    from ..idioms import check_accumulators_initialised
    check_accumulators_initialised(ctx, 'C12.g', [WF], floor=1)
    from ..idioms import check_no_tolerance_fast_paths
    check_no_tolerance_fast_paths(ctx, 'C12.h', [WF], floor=1)
    ctx.rule('C12.a', 'every noise/gain quotient of doWF is noiseVar / (Es * gain): Es enters exactly once (term normal forms)', floor=3)
    from .. import terms as T
    gains = {'vtChannels'}
    for n in walk_no_nested(fn.node):
        if isinstance(n, ast.Assign) and len(n.targets) == 1 and isinstance(n.targets[0], ast.Name) \
                and isinstance(n.value, ast.Subscript) and names_in(n.value.value) & gains:
            gains.add(n.targets[0].id)
    env = T.Env(M, fn)
    env.vars.update({k: v for k, v in T.local_terms(M, fn).items() if k not in gains})

    def is_gain(a) -> bool:
        return a[0] == 'sym' and a[1].split('[')[0] in gains

    i = 0
    for n in walk_no_nested(fn.node):
        if not (isinstance(n, ast.BinOp) and isinstance(n.op, ast.Div)):
            continue
        try:
            t = T.from_ast(n, env)
        except T.Unknown:
            continue
        for m, c in t.terms:
            exps = {}
            for a, e in m:
                if a == ('sym', 'noiseVar'):
                    exps['noise'] = exps.get('noise', 0) + e
                elif a == ('sym', 'Es'):
                    exps['Es'] = exps.get('Es', 0) + e
                elif is_gain(a):
                    exps['gain'] = exps.get('gain', 0) + e
            if exps.get('noise', 0) > 0 and exps.get('gain', 0) < 0:
                i += 1
                stmt = _enclosing_target(fn, n)
                construct = 'doWF:%s#%d' % (stmt, i)
                ctx.instance('C12.a', construct)
                ok = exps.get('noise') == 1 and exps.get('gain') == -1 and exps.get('Es', 0) == -1
                ctx.obligation('C12.a', construct, ok, {'quotient': norm(n)[:80], 'normal_form': t.pretty()[:120],
                                                        'exponents': {k: str(v) for k, v in exps.items()}})
                if not ok:
                    ctx.violation('C12.a', 'doWF', 'the quotient `%s` (defining `%s`) normalises to `%s`: the symbol energy enters with '
                                  'exponent %s instead of -1, so this quantity is inconsistent with noise/(Es*gain)'
                                  % (norm(n)[:70], stmt, t.pretty()[:90], exps.get('Es', 0)), fn.path, n.lineno, operand=stmt)
    _check_level(ctx, fn)
    # ------------------------------------------------------------------ C12.b
    ctx.rule('C12.b', 'the allocation is scattered back with the argsort index that sorted the gains', floor=1)
    ctx.instance('C12.b', 'doWF:unsort')
    sort_idx = None
    for n in walk_no_nested(fn.node):
        if isinstance(n, ast.Assign) and isinstance(n.targets[0], ast.Name) and 'argsort' in norm(n.value) \
                and 'vtChannels' in names_in(n.value):
            sort_idx = n.targets[0].id
    sorted_by = None
    for n in walk_no_nested(fn.node):
        if isinstance(n, ast.Assign) and isinstance(n.targets[0], ast.Name) and isinstance(n.value, ast.Subscript) \
                and norm(n.value.value) == 'vtChannels' and norm(n.value.slice) == sort_idx:
            sorted_by = n.targets[0].id
    from ..astutil import expand, single_locals, mutated_names, same_def_locals
    _defs = dict(single_locals(fn))
    _defs.update(same_def_locals(fn))            # `idx = sort[...]` before the loop and again inside it
    ex = lambda e: expand(e, _defs, mutated_names(fn) | {sort_idx or ''})
    rets = [n for n in walk_no_nested(fn.node) if isinstance(n, ast.Return)]
    if not (sort_idx and sorted_by and len(rets) == 1 and isinstance(rets[0].value, ast.Tuple)):
        ctx.error('C12.b: doWF no longer sorts the gains with one named argsort index / returns one tuple (argsort index %s, sorted gains %s): '
                  'cannot tell' % (sort_idx, sorted_by))
    out_name = norm(rets[0].value.elts[0])
    scat = [n for n in walk_no_nested(fn.node) if isinstance(n, ast.Assign) and isinstance(n.targets[0], ast.Subscript)
            and norm(n.targets[0].value) == out_name]
    detail: Dict = {'argsort_index': sort_idx, 'sorted_gains': sorted_by, 'returned': norm(rets[0].value)}
    if not scat:
        # recognisably wrong: the sorted-order allocation is GATHERED through the argsort index (out = sorted_alloc[idx]); that applies the
        # sorting permutation a second time instead of inverting it (right only when the permutation is an involution)
        gath = [n for n in walk_no_nested(fn.node) if isinstance(n, ast.Assign) and len(n.targets) == 1 and norm(n.targets[0]) == out_name
                and isinstance(n.value, ast.Subscript) and norm(n.value.slice) == sort_idx]
        if gath:
            ctx.obligation('C12.b', 'doWF:unsort', False, dict(detail, gather=norm(gath[0])[:80]))
            ctx.violation('C12.b', 'doWF', 'the returned allocation is GATHERED through the argsort index (`%s`): that applies the sorting permutation '
                          'again instead of inverting it, so the powers come back in the wrong channel order whenever the sort is not an '
                          'involution (three or more channels in cyclic order)' % norm(gath[0])[:70], fn.path, gath[0].lineno, operand='unsort')
            _check_budget(ctx, fn)
            return
    if len(scat) != 1:
        ctx.error('C12.b: the returned allocation `%s` is not filled by exactly one scatter statement (%d): cannot tell' % (out_name, len(scat)))
    idx = ex(scat[0].targets[0].slice)
    detail['scatter'] = norm(scat[0])[:100]
    detail['scatter_index'] = norm(idx)[:80]
    names = {x.id for x in ast.walk(idx) if isinstance(x, ast.Name)}
    # through the argsort index: at a subset of the sorted positions, or at all of them (the whole permutation)
    through_sort = (isinstance(idx, ast.Subscript) and norm(idx.value) == sort_idx) or norm(idx) == sort_idx
    fresh = any(isinstance(x, ast.Call) and 'argsort' in norm(x.func) for x in ast.walk(idx))
    if not through_sort and sort_idx in names and not fresh:
        ctx.error('C12.b: the scatter index `%s` uses the argsort index in a form that is not `%s[<positions>]`: cannot tell' % (norm(idx)[:60], sort_idx))
    assigned = {x.id for x in ast.walk(fn.node) if isinstance(x, ast.Name) and isinstance(x.ctx, ast.Store)}
    opaque_locals = sorted(n for n in names if n in assigned and n not in _defs and n != sort_idx)
    if not through_sort and not fresh and opaque_locals and any(isinstance(x, ast.Subscript) for x in ast.walk(idx)) is False:
        ctx.error('C12.b: the scatter index `%s` is a local (%s) whose definition cannot be followed (bound several times to different '
                  'expressions): cannot tell' % (norm(idx)[:50], opaque_locals))
    ok = through_sort
    ctx.obligation('C12.b', 'doWF:unsort', ok, detail)
    if not ok:
        ctx.violation('C12.b', 'doWF', 'the returned allocation is filled at the positions `%s`, not through the argsort index `%s` that sorted the '
                      'gains: the powers come back in the wrong channel order' % (norm(idx)[:60], sort_idx), fn.path, fn.lineno, operand='unsort')
    # last: its unrecognised shapes answer "cannot tell", which must not hide the definite rules above
    _check_budget(ctx, fn)


def _check_level(ctx: Ctx, fn: FuncInfo) -> None:
    ctx.rule('C12.c', 'the returned water level is computed from the strongest channel (index 0 of the descending-sorted vectors)', floor=1)
    ctx.instance('C12.c', 'doWF:mu')
    rets = [n for n in walk_no_nested(fn.node) if isinstance(n, ast.Return) and isinstance(n.value, ast.Tuple) and len(n.value.elts) == 2]
    if len(rets) != 1 or not isinstance(rets[0].value.elts[1], ast.Name):
        ctx.error('C12.c: doWF no longer returns (allocation, level) as two locals')
    out_name, mu = norm(rets[0].value.elts[0]), rets[0].value.elts[1].id
    defs = [n for n in walk_no_nested(fn.node) if isinstance(n, ast.Assign) and any(isinstance(t, ast.Name) and t.id == mu for t in n.targets)]
    if len(defs) != 1:
        ctx.error('C12.c: the level %s is defined %d times' % (mu, len(defs)))
    sorted_gain = None
    idxname = None
    for n in walk_no_nested(fn.node):
        if isinstance(n, ast.Assign) and isinstance(n.targets[0], ast.Name) and 'argsort' in norm(n.value) and norm(n.value).endswith('[::-1]'):
            idxname = n.targets[0].id
    for n in walk_no_nested(fn.node):
        if isinstance(n, ast.Assign) and isinstance(n.targets[0], ast.Name) and isinstance(n.value, ast.Subscript) \
                and norm(n.value.value) == 'vtChannels' and norm(n.value.slice) == idxname:
            sorted_gain = n.targets[0].id
    # expand single-assignment locals used in the definition (e.g. a precomputed noise floor)
    loc1 = {}
    for n in walk_no_nested(fn.node):
        if isinstance(n, ast.Assign) and len(n.targets) == 1 and isinstance(n.targets[0], ast.Name):
            loc1.setdefault(n.targets[0].id, []).append(n.value)
    exprs = [defs[0].value]
    for x in ast.walk(defs[0].value):
        if isinstance(x, ast.Name) and len(loc1.get(x.id, [])) == 1 and x.id not in (sorted_gain, idxname):
            exprs.append(loc1[x.id][0])
    subs = [(norm(x.value), norm(x.slice)) for e_ in exprs for x in ast.walk(e_) if isinstance(x, ast.Subscript)]
    caller_order = [s_ for s_ in subs if s_[0] in ('vtChannels', out_name)]
    strongest = [s_ for s_ in subs if s_[0] == sorted_gain and s_[1] == '0']
    if caller_order:
        ok = False
        why = 'it indexes the caller-order vectors %s: that channel may be switched off (zero power), in which case the formula ' \
              'P + N/(Es g) is not the water level' % [s_[0] + '[' + s_[1] + ']' for s_ in caller_order]
    elif strongest and all(s_[1] == '0' for s_ in subs):
        ok, why = True, ''
    else:
        ctx.error('C12.c: the level is computed from %s (cannot tell whether that channel is always active)' % subs)
    ctx.obligation('C12.c', 'doWF:mu', ok, {'definition': norm(defs[0])[:100], 'subscripts': subs})
    if not ok:
        ctx.violation('C12.c', 'doWF', 'the returned water level `%s`: %s' % (norm(defs[0])[:80], why), fn.path, defs[0].lineno, operand='level')


def _check_budget(ctx: Ctx, fn: FuncInfo) -> None:
    """C12.e: the allocation of the channels that stay on sums to the budget BY CONSTRUCTION, and the drop loop runs while
    the tentative allocation is unaffordable."""
    M = ctx.model
    ctx.rule('C12.e', 'the remainder dPt - sum(Ps) is spread evenly over exactly the channels that stay on (so the allocation sums to the total '
                      'power as an algebraic identity), and channels are dropped while sum(Ps) > dPt', floor=2)
    loc = T.local_terms(M, fn, opaque=set())
    # the tentative allocation of the channels that stay on: the vector that is scattered back
    rets = [n for n in walk_no_nested(fn.node) if isinstance(n, ast.Return) and isinstance(n.value, ast.Tuple)]
    scat = [n for n in walk_no_nested(fn.node) if isinstance(n, ast.Assign) and isinstance(n.targets[0], ast.Subscript)
            and isinstance(n.value, ast.Name) and rets and norm(n.targets[0].value) == norm(rets[0].value.elts[0])]
    aux_name = scat[0].value.id if len(scat) == 1 else None
    if aux_name is not None and aux_name not in loc:
        # the scattered vector may be the allocation of the channels that stay on PADDED WITH ZEROS for the dropped ones
        # (`np.concatenate([aux, np.zeros(k)])`): the padding adds nothing to the sum
        dfs = [n for n in walk_no_nested(fn.node) if isinstance(n, ast.Assign) and len(n.targets) == 1 and isinstance(n.targets[0], ast.Name)
               and n.targets[0].id == aux_name]
        if len(dfs) == 1 and isinstance(dfs[0].value, ast.Call) and norm(dfs[0].value.func) in ('np.concatenate', 'np.hstack') \
                and dfs[0].value.args and isinstance(dfs[0].value.args[0], (ast.List, ast.Tuple)):
            pieces = dfs[0].value.args[0].elts
            nonzero = [e for e in pieces if not (isinstance(e, ast.Call) and norm(e.func) in ('np.zeros', 'np.zeros_like'))]
            if len(nonzero) == 1 and isinstance(nonzero[0], ast.Name) and nonzero[0].id in loc:
                aux_name = nonzero[0].id
    if aux_name is None or aux_name not in loc:
        ctx.error('C12.e: the scattered allocation vector is not a single-assignment formula (cannot tell)')
    aux = loc[aux_name]
    # Ps = the tentative allocation (re-assigned in the loop): a symbol of the term
    syms = {a[1] for a in T.atoms_of(aux) if a[0] == 'sym'}
    sums = [a for a in T.atoms_of(aux) if a[0] == 'call' and a[1].split('.')[-1] == 'sum']
    ctx.instance('C12.e', 'doWF:spread')
    assigned_locals = {x.id for x in ast.walk(fn.node) if isinstance(x, ast.Name) and isinstance(x.ctx, ast.Store)}
    unresolved = sorted(a[1] for a in T.atoms_of(aux) if a[0] == 'sym' and a[1] in assigned_locals and a[1] not in loc and a[1] not in fn.params)
    if not sums and len(unresolved) > 1:
        ctx.error('C12.e: the allocation `%s` is built from locals whose definitions cannot be followed (%s): cannot tell' % (aux.pretty()[:60], unresolved))
    if not sums:
        ctx.obligation('C12.e', 'doWF:spread', False, {'allocation': aux.pretty()})
        ctx.violation('C12.e', 'doWF', 'the allocation `%s` does not add any share of the remaining power (no sum over the tentative powers): it '
                      'does not sum to the total power' % aux.pretty()[:80], fn.path, scat[0].lineno, operand='spread')
        return
    if len(sums) != 1:
        ctx.error('C12.e: the allocation `%s` does not contain exactly one sum over the tentative powers (cannot tell)' % aux.pretty())
    ps = T._t(sums[0][2][0])
    S = T.Term.atom(sums[0])
    # number of channels that stay on = length of the index range the tentative powers are computed over
    ps_name = ps.single()[0][0][0][1] if ps.single() and len(ps.single()[0]) == 1 and ps.single()[0][0][0][0] == 'sym' else None
    # over how many channels: the length of every vector index (arange / slice) used in the function - one value
    counts = set()
    env = T.Env(M, fn, opaque=set())
    env.vars.update(loc)

    def count_of(ix: ast.AST):
        if isinstance(ix, ast.Name) and ix.id in loc:
            for a in T.atoms_of(loc[ix.id]):
                if a[0] == 'call' and a[1].split('.')[-1] == 'arange':
                    args = [T._t(k) for k in a[2]]
                    return args[1] - args[0] if len(args) > 1 else args[0]
            return None
        try:
            if isinstance(ix, ast.Call) and norm(ix.func) in ('np.arange', 'range') and ix.args:
                a0 = T.from_ast(ix.args[0], env)
                return (T.from_ast(ix.args[1], env) - a0) if len(ix.args) > 1 else a0
            if isinstance(ix, ast.Slice) and ix.upper is not None and ix.step is None:
                up = T.from_ast(ix.upper, env)
                return up - T.from_ast(ix.lower, env) if ix.lower is not None else up
        except T.Unknown:
            return None
        return None
    for n in walk_no_nested(fn.node):
        if isinstance(n, ast.Subscript):
            c = count_of(n.slice)
            if c is not None:
                counts.add(c)
    if len(counts) != 1:
        ctx.error('C12.e: cannot determine over how many channels the tentative powers are computed (%s): cannot tell'
                  % [c.pretty() for c in counts])
    n_on = counts.pop()
    budget = [p for p in fn.params][1]
    want = ps + (T.Term.sym(budget) - S) * T.t_pow(n_on, T.Term.const(-1))
    ok = T.rat_equal(aux, want)
    ctx.obligation('C12.e', 'doWF:spread', ok, {'allocation': aux.pretty(), 'expected': want.pretty(), 'channels_on': n_on.pretty()})
    if not ok:
        ctx.violation('C12.e', 'doWF', 'the allocation `%s` is not Ps + (%s - sum(Ps)) / (number of channels that stay on = %s): it does not sum '
                      'to the total power' % (aux.pretty(), budget, n_on.pretty()), fn.path, scat[0].lineno, operand='spread')
    # the drop loop
    ctx.instance('C12.e', 'doWF:drop-while-unaffordable')
    whiles = [n for n in walk_no_nested(fn.node) if isinstance(n, ast.While) or
              (isinstance(n, ast.For) and any(isinstance(x, ast.Break) for x in ast.walk(n)))]
    if len(whiles) != 1:
        ctx.error('C12.e: doWF has %d drop loops (one expected; cannot tell)' % len(whiles))
    test = whiles[0].test if isinstance(whiles[0], ast.While) else ast.Constant(value=True)
    if isinstance(test, ast.Constant) and test.value is True:
        # do-while / counted form: the loop goes on while the exit test `if <T>: break` is false
        brk = [n for n in ast.walk(whiles[0]) if isinstance(n, ast.If) and any(isinstance(x, ast.Break) for x in n.body)]
        if len(brk) != 1:
            ctx.error('C12.e: the drop loop has %d `if ...: break` exits (one expected; cannot tell)' % len(brk))
        from ..astutil import negate
        test = negate(brk[0].test)
    from ..paths import conjuncts
    over = False
    seen_cmp = []
    for cj in conjuncts(test):
        if isinstance(cj, ast.Compare) and len(cj.ops) == 1 and isinstance(cj.ops[0], (ast.Gt, ast.Lt)):
            big, small = (cj.left, cj.comparators[0]) if isinstance(cj.ops[0], ast.Gt) else (cj.comparators[0], cj.left)
            try:
                tb, ts = T.from_ast(big, env), T.from_ast(small, env)
            except T.Unknown:
                continue
            seen_cmp.append('%s > %s' % (tb.pretty()[:50], ts.pretty()[:30]))
            if tb == S and ts == T.Term.sym(budget):
                over = True
    # a conjunct that bounds the number of channels still on, `remaining > t` as terms: dropping may go on as long as one channel
    # remains (t = 0); a larger t keeps unaffordable channels on (negative powers), a smaller one lets the loop drop the last channel
    bound_problem = None
    for cj in conjuncts(test):
        if isinstance(cj, ast.Compare) and len(cj.ops) == 1 and isinstance(cj.ops[0], (ast.Gt, ast.Lt, ast.GtE, ast.LtE)):
            big, small = (cj.left, cj.comparators[0]) if isinstance(cj.ops[0], (ast.Gt, ast.GtE)) else (cj.comparators[0], cj.left)
            try:
                dterm = T.from_ast(big, env) - T.from_ast(small, env) - n_on
            except T.Unknown:
                continue
            if dterm.is_const():
                c_ = -dterm.const_value()                       # big - small = remaining - c
                t_ = c_ if isinstance(cj.ops[0], (ast.Gt, ast.Lt)) else c_ - 1
                if t_ != 0:
                    bound_problem = (norm(cj), t_)
    if bound_problem is not None:
        ctx.obligation('C12.e', 'doWF:drop-while-unaffordable', False, {'loop_test': norm(test), 'bound': bound_problem[0], 'continues_while_remaining_above': str(bound_problem[1])})
        ctx.violation('C12.e', 'doWF', 'the drop loop goes on only while more than %s channel(s) remain (`%s`): %s' % (
            bound_problem[1], bound_problem[0][:60],
            'an unaffordable allocation of the last %s channels is kept, the weaker of them gets negative power' % (bound_problem[1] + 1)
            if bound_problem[1] > 0 else 'it can switch off the last channel'), fn.path, whiles[0].lineno, operand='drop-bound')
        return
    imp = seen_cmp
    ok2 = over
    ctx.obligation('C12.e', 'doWF:drop-while-unaffordable', ok2, {'loop_test': norm(test), 'implied': sorted(imp)})
    if not ok2:
        ctx.violation('C12.e', 'doWF', 'the drop loop `%s` does not run while sum(tentative powers) > %s: an unaffordable allocation is kept (negative powers '
                      'after the remainder is spread) or affordable channels are dropped' % (norm(test)[:70], budget),
                      fn.path, whiles[0].lineno, operand='drop-loop')


def _enclosing_target(fn: FuncInfo, node: ast.AST) -> str:
    for s in walk_no_nested(fn.node):
        if isinstance(s, ast.Assign) and any(x is node for x in ast.walk(s.value)):
            return norm(s.targets[0])
    return '?'


def synthetic():
    from ..overlay import Overlay
    from ..model import Model
    return []


MUTANTS = [
    Mutant('allocation-container-typed-by-the-gains', WF, 'doWF',
           [('regex', r'vtOptP = np\.zeros\(\[vtChannels\.size\]\)', 'vtOptP = np.zeros_like(vtChannels)')], r'C12\.f:doWF:like:vtOptP'),
    Mutant('benign-allocation-container-like-with-dtype', WF, 'doWF',
           [('regex', r'vtOptP = np\.zeros\(\[vtChannels\.size\]\)', 'vtOptP = np.zeros_like(vtChannels, dtype=float)')], None, benign=True),
    Mutant('remainder-spread-over-all-channels', WF, 'doWF', [('replace', 'dPdiff / (dNChannels - dRemoveChannels) + Ps', 'dPdiff / dNChannels + Ps')],
           r'C12\.e:doWF:spread'),
    Mutant('remainder-not-spread', WF, 'doWF', [('replace', 'dPdiff / (dNChannels - dRemoveChannels) + Ps', 'Ps')], r'C12\.e:doWF'),
    Mutant('drop-loop-reversed-comparison', WF, 'doWF', [('replace', 'sum(Ps) > dPt', 'sum(Ps) < dPt')], r'C12\.e:doWF:drop-loop'),
    Mutant('benign-remainder-first', WF, 'doWF', [('replace', 'dPdiff / (dNChannels - dRemoveChannels) + Ps', 'Ps + dPdiff / (dNChannels - dRemoveChannels)')],
           None, benign=True),
    Mutant('revert-fix-mu-without-Es', WF, 'doWF', [('regex', r'mu = vtOptPaux\[0\] \+ float\(noiseVar\) / \(Es \* vtChannelsSorted\[0\]\)',
                                                      'mu = vtOptPaux[0] + float(noiseVar) / vtChannelsSorted[0]')], r'C12\.a:doWF:mu'),
    Mutant('first-minMu-without-Es', WF, 'doWF', [('regex', r'minMu = float\(noiseVar\) / \(Es \* (vtChannelsSorted\[dNChannels - dRemoveChannels - 1\])\)',
                                                   r'minMu = float(noiseVar) / \1')], r'C12\.a:doWF:minMu'),
    Mutant('scatter-with-fresh-argsort', WF, 'doWF', [('replace', 'vtOptP[vtChannelsSortIndexes[', 'vtOptP[np.argsort(vtChannels)[')],
           r'C12\.b:doWF:unsort'),
    Mutant('Es-applied-twice-in-loop', WF, 'doWF',
           [('regex', r'(    minMu = float\(noiseVar\) / \(Es \* vtChannelsSorted\[dNChannels - dRemoveChannels - 1\]\)\n)', r'    dNoise = float(noiseVar) / Es\n\1'),
            ('regex', r'(while .*?Ps = minMu - )float\(noiseVar\)( / \(Es \* vtChannelsSorted)', r'\1dNoise\2')], r'C12\.a:doWF:Ps'),
    Mutant('level-from-caller-order-channel-0', WF, 'doWF',
           [('regex', r'mu = vtOptPaux\[0\] \+ float\(noiseVar\) / \(Es \* vtChannelsSorted\[0\]\)', 'mu = vtOptP[0] + float(noiseVar) / (Es * vtChannels[0])')],
           r'C12\.c:doWF:level'),
    Mutant('benign-hoist-noise-over-Es', WF, 'doWF',
           [('regex', r'mu = vtOptPaux\[0\] \+ float\(noiseVar\) / \(Es \* vtChannelsSorted\[0\]\)',
             'nz = float(noiseVar) / Es\n    mu = vtOptPaux[0] + nz / vtChannelsSorted[0]')], None, benign=True),
    Mutant('benign-precompute-floor', WF, 'doWF',
           [('regex', r'mu = vtOptPaux\[0\] \+ float\(noiseVar\) / \(Es \* vtChannelsSorted\[0\]\)',
             'floor0 = float(noiseVar) / (Es * vtChannelsSorted[0])\n    mu = vtOptPaux[0] + floor0')], None, benign=True),
]

ENGINES = ['model', 'tables']
TECHNIQUE = 'static analysis: parameter taint over quotients (every gain use weighted by Es), index def-use rule'
