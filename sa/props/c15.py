"""C15 - constellations are Gray labelled and Gray conversion is a bijection (structural clauses)."""
from __future__ import annotations

import ast
from typing import Dict, List, Optional, Set, Tuple

from ..astutil import const_value
from ..model import ClassInfo, FuncInfo, Model, is_self_attr, norm, walk_no_nested
from ..report import Ctx
from ..selftest import Mutant

FUND = 'pyphysim/modulators/fundamental.py'
CONV = 'pyphysim/util/conversion.py'
MISC = 'pyphysim/util/misc.py'
WIDTH = 64            # "all non-negative integers representable in the integer type used" (int64; quantifier: [0, 2^62))

EXPLANATION = (
    'Decides three structural clauses of C15. C15.a (taint): every table PSK/QAM hand to setConstellation - at '
    'construction or after changing the phase offset - is ordered through an index produced by '
    'binary2gray/gray2binary (def-use chains, interprocedural through the helper that builds the QAM index); a '
    'natural-order table reaching setConstellation is a violation. C15.b: the Gray->binary prefix-xor is a shift '
    'cascade x ^= x >> s whose shift set is {1,2,4,...} up to at least half the 64-bit integer width (or a loop '
    'that shifts until the mask is zero) - the cascade {8,4,2,1} is only correct below 2^16. C15.c: binary->Gray is '
    'n ^ (n >> 1); bit errors are counted as the sum of the popcount of the xor of the two arguments; popcount is '
    'the shift-and-test loop. Not decided: adjacency of nearest neighbours as geometry, values of the conversions.'
    ' General rules also applied here (see DESIGN 10.5): input immutability (no in-place modification of an array argument, alias- and view-aware). C15.b also understands guarded cascade steps (the shift-s step must run whenever the largest input is >= 2**s).')

GRAY_FUNCS = {'binary2gray', 'gray2binary'}


def _tainted_expr(M: Model, fn: FuncInfo, e: ast.AST, seen: Set[int], depth: int = 0) -> bool:
    """Does the value of e depend on a Gray conversion (through locals and repo helpers)?"""
    for n in ast.walk(e):
        if isinstance(n, ast.Call):
            name = norm(n.func).split('.')[-1]
            if name in GRAY_FUNCS:
                return True
            callee = None
            if isinstance(n.func, ast.Attribute) and fn.cls is not None and \
                    (is_self_attr(n.func, fn.self_name or 'self') or norm(n.func.value) in M.classes):
                c = fn.cls if is_self_attr(n.func, fn.self_name or 'self') else M.classes[norm(n.func.value)]
                callee = M.lookup_method(c, n.func.attr)
            elif isinstance(n.func, ast.Name):
                callee = M.resolve_function(fn.module, n.func)
            if callee is not None and depth < 4 and id(callee.node) not in seen:
                if _returns_tainted(M, callee, seen | {id(callee.node)}, depth + 1):
                    return True
        if isinstance(n, ast.Name) and isinstance(n.ctx, ast.Load):
            if _tainted_name(M, fn, n.id, seen, depth):
                return True
    return False


def _tainted_name(M: Model, fn: FuncInfo, name: str, seen: Set[int], depth: int) -> bool:
    key = hash((id(fn.node), name))
    if key in seen or depth > 6:
        return False
    seen = seen | {key}
    for n in walk_no_nested(fn.node):
        if isinstance(n, ast.Assign) and any(isinstance(t, ast.Name) and t.id == name for t in n.targets):
            # `symbols = symbols[idx]`: the re-ordering index decides
            v = n.value
            if isinstance(v, ast.Subscript):
                if _tainted_expr(M, fn, v.slice, seen, depth + 1):
                    return True
                continue
            if _tainted_expr(M, fn, v, seen, depth + 1):
                return True
    return False


def _returns_tainted(M: Model, fn: FuncInfo, seen: Set[int], depth: int) -> bool:
    rets = [n for n in walk_no_nested(fn.node) if isinstance(n, ast.Return) and n.value is not None]
    return bool(rets) and all(_tainted_expr(M, fn, r.value, seen, depth) for r in rets)


def conversion_kinds(M: Model, fn: FuncInfo, e: ast.AST, seen=None, depth: int = 0) -> Set[str]:
    """Which Gray conversions (binary2gray / gray2binary) the value of e is computed with (locals and repo helpers followed)."""
    seen = seen or set()
    out: Set[str] = set()
    if depth > 6:
        return out
    for n in ast.walk(e):
        if isinstance(n, ast.Call):
            name = norm(n.func).split('.')[-1]
            if name in GRAY_FUNCS:
                out.add(name)
                continue
            callee = None
            if isinstance(n.func, ast.Attribute) and fn.cls is not None and \
                    (is_self_attr(n.func, fn.self_name or 'self') or norm(n.func.value) in M.classes):
                c = fn.cls if is_self_attr(n.func, fn.self_name or 'self') else M.classes[norm(n.func.value)]
                callee = M.lookup_method(c, n.func.attr)
            elif isinstance(n.func, ast.Name):
                callee = M.resolve_function(fn.module, n.func)
            if callee is not None and id(callee.node) not in seen:
                for r in walk_no_nested(callee.node):
                    if isinstance(r, ast.Return) and r.value is not None:
                        out |= conversion_kinds(M, callee, r.value, seen | {id(callee.node)}, depth + 1)
        if isinstance(n, ast.Name) and isinstance(n.ctx, ast.Load):
            key = (id(fn.node), n.id)
            if key in seen:
                continue
            for a in walk_no_nested(fn.node):
                if isinstance(a, ast.Assign) and any(isinstance(t, ast.Name) and t.id == n.id for t in a.targets):
                    v = a.value
                    out |= conversion_kinds(M, fn, v.slice if isinstance(v, ast.Subscript) and False else v, seen | {key}, depth + 1)
    return out


def gather_index(fn: FuncInfo, arg: ast.AST) -> Optional[ast.AST]:
    """The index expression idx of the gather `natural[idx]` that produces the table passed to setConstellation."""
    if isinstance(arg, ast.Subscript):
        return arg.slice
    if isinstance(arg, ast.Name):
        assigns = sorted((n for n in walk_no_nested(fn.node) if isinstance(n, ast.Assign)
                          and any(isinstance(t, ast.Name) and t.id == arg.id for t in n.targets)), key=lambda n: n.lineno)
        if assigns and isinstance(assigns[-1].value, ast.Subscript):
            return assigns[-1].value.slice
    return None


def gray_ordered_argument(M: Model, fn: FuncInfo, arg: ast.AST) -> bool:
    """The table passed to setConstellation is `X[idx]` / a local last assigned `X[idx]` with a Gray-derived idx."""
    if isinstance(arg, ast.Subscript):
        return _tainted_expr(M, fn, arg.slice, set())
    if isinstance(arg, ast.Name):
        assigns = sorted((n for n in walk_no_nested(fn.node) if isinstance(n, ast.Assign)
                          and any(isinstance(t, ast.Name) and t.id == arg.id for t in n.targets)), key=lambda n: n.lineno)
        if not assigns:
            return False
        last = assigns[-1].value
        return isinstance(last, ast.Subscript) and _tainted_expr(M, fn, last.slice, set())
    return False


def check(ctx: Ctx) -> None:
    M = ctx.model
    ctx.assume('the index returned by binary2gray/gray2binary is a Gray permutation (C15.b/c decide their shape); the '
               'natural-order tables built by _createConstellation are in angular / raster order')
    ctx.rule('C15.a', 'every table handed to setConstellation by PSK/QAM is gathered through an index derived from gray2binary (Gray order, right direction)', floor=5)
    for cname in ('PSK', 'QAM'):
        cls = M.cls(cname)
        for c in [cls] + M.subclasses(cls):
            for fn in c.methods.values():
                sn = fn.self_name
                if sn is None:
                    continue
                for n in walk_no_nested(fn.node):
                    if isinstance(n, ast.Call) and is_self_attr(n.func, sn) == 'setConstellation' and n.args:
                        construct = fn.qualname
                        ctx.instance('C15.a', construct)
                        ok = gray_ordered_argument(M, fn, n.args[0])
                        ctx.obligation('C15.a', construct, ok, {'argument': norm(n.args[0])[:80]})
                        if ok:
                            # direction: the table is GATHERED as natural[idx]; label l must sit at position gray2binary(l)
                            # (so that the position p carries the label binary2gray(p)); binary2gray is the wrong direction and
                            # coincides with it only while the code is an involution (at most 2 bits per axis)
                            idx = gather_index(fn, n.args[0])
                            kinds = conversion_kinds(M, fn, idx) if idx is not None else set()
                            dconstruct = construct + ':direction'
                            ctx.instance('C15.a', dconstruct)
                            okd = kinds == {'gray2binary'}
                            ctx.obligation('C15.a', dconstruct, okd, {'gather_index': norm(idx)[:60] if idx is not None else None,
                                                                      'conversions_reaching_the_index': sorted(kinds)})
                            if not okd:
                                ctx.violation('C15.a', construct, 'the natural-order table is gathered with an index built from %s: a gather '
                                              'needs the inverse map gray2binary (label l at position gray2binary(l)); binary2gray agrees with '
                                              'it only up to 2 bits per axis, so QAM-64/256 are not Gray labelled (16 of 112 / 96 of 480 '
                                              'nearest-neighbour pairs differ in more than one bit)' % sorted(kinds), fn.path, n.lineno,
                                              operand='direction')
                        if not ok:
                            ctx.violation('C15.a', construct, 'installs the table `%s` which is not re-ordered through a '
                                          'binary2gray/gray2binary index: nearest neighbours then differ in more than one bit '
                                          '(e.g. PSK(8) label distances [1,2,1,3,1,2,1,3])' % norm(n.args[0])[:70],
                                          fn.path, n.lineno, operand='natural-order')
    # cheap definite rules first: a later cannot-tell must not hide them
    from ..idioms import check_no_memory_order_flatten
    check_no_memory_order_flatten(ctx, 'C15.e', [CONV, MISC, FUND], floor=60)
    _check_gray2binary(ctx)
    _check_shapes(ctx)
    from ..idioms import check_input_immutability, public_api
    fns = public_api(ctx.model, [CONV], include={'gray2binary', 'binary2gray'}) + public_api(ctx.model, [MISC], include={'xor', 'count_bit_errors'})
    check_input_immutability(ctx, 'C15.d', fns, floor=4)


def xor_operands(e: ast.AST) -> Optional[Tuple[ast.AST, ast.AST]]:
    if isinstance(e, ast.BinOp) and isinstance(e.op, ast.BitXor):
        return e.left, e.right
    if isinstance(e, ast.Call) and norm(e.func).split('.')[-1] in ('xor', 'bitwise_xor', '__xor__') and len(e.args) == 2:
        return e.args[0], e.args[1]
    return None


def shift_of(e: ast.AST) -> Optional[Tuple[str, int]]:
    if isinstance(e, ast.BinOp) and isinstance(e.op, ast.RShift):
        k = const_value(e.right)
        if isinstance(k, int):
            return norm(e.left), k
    if isinstance(e, ast.BinOp) and isinstance(e.op, ast.FloorDiv):
        k = const_value(e.right)
        if isinstance(k, int) and k > 0 and k & (k - 1) == 0:
            return norm(e.left), k.bit_length() - 1
    return None


def _int_const(e: ast.AST) -> Optional[int]:
    v = const_value(e)
    if isinstance(v, int) and not isinstance(v, bool):
        return v
    if isinstance(e, ast.BinOp):
        a, b = _int_const(e.left), _int_const(e.right)
        if a is None or b is None:
            return None
        if isinstance(e.op, ast.Pow) and 0 <= b <= 128:
            return a ** b
        if isinstance(e.op, ast.LShift) and 0 <= b <= 128:
            return a << b
        if isinstance(e.op, ast.Mult):
            return a * b
        if isinstance(e.op, ast.Add):
            return a + b
        if isinstance(e.op, ast.Sub):
            return a - b
    return None


def cascade_shifts(fn: FuncInfo, guards: Optional[list] = None) -> Optional[List[int]]:
    """Shift amounts of a prefix-xor cascade `t = xor(x, x >> s)`; None if the body is not such a cascade.

    A step may be guarded by a test on the largest input value (`if largest >= 2**s: t = xor(t, t >> s)`); each such
    guard is appended to `guards` as (shift, smallest value for which the step runs or None when the test is not understood, node)."""
    shifts: List[int] = []
    bounds = set()                                    # names holding max(num)
    params = {p for p in fn.params}

    def step(s) -> Optional[int]:
        if isinstance(s, ast.AugAssign) and isinstance(s.op, ast.BitXor):
            sh = shift_of(s.value)
            if sh is None or sh[0] != norm(s.target):
                return None
            return sh[1]
        if not isinstance(s, ast.Assign):
            return None
        ops = xor_operands(s.value)
        if ops is None:
            return None
        a, b = ops
        sa, sb = shift_of(a), shift_of(b)
        if sa is not None and sa[0] == norm(b):
            return sa[1]
        if sb is not None and sb[0] == norm(a):
            return sb[1]
        return None

    for s in fn.node.body:
        if isinstance(s, ast.Expr) and isinstance(s.value, ast.Constant):
            continue
        if isinstance(s, ast.Return):
            continue
        if isinstance(s, ast.Assign) and len(s.targets) == 1 and isinstance(s.targets[0], ast.Name):
            v = s.value
            if isinstance(v, ast.Name) and v.id in params:
                continue                                                   # temp = num
            if isinstance(v, ast.Call) and norm(v.func) in ('np.max', 'np.amax', 'max', 'numpy.max') and v.args \
                    and isinstance(v.args[0], ast.Name) and v.args[0].id in params:
                bounds.add(s.targets[0].id)
                continue
        if isinstance(s, ast.If) and not s.orelse and len(s.body) == 1 and guards is not None:
            k = step(s.body[0])
            if k is None:
                return None
            t = s.test
            runs_from = None
            if isinstance(t, ast.Compare) and len(t.ops) == 1 and isinstance(t.left, ast.Name) and t.left.id in bounds:
                thr = _int_const(t.comparators[0])
                if thr is not None and isinstance(t.ops[0], ast.GtE):
                    runs_from = thr
                elif thr is not None and isinstance(t.ops[0], ast.Gt):
                    runs_from = thr + 1
            elif isinstance(t, ast.BinOp) and isinstance(t.op, ast.RShift) and isinstance(t.left, ast.Name) and t.left.id in bounds \
                    and _int_const(t.right) is not None:
                runs_from = 1 << _int_const(t.right)
            guards.append((k, runs_from, s))
            shifts.append(k)
            continue
        k = step(s)
        if k is None:
            return None
        shifts.append(k)
    return shifts


def _halving_loop(fn: FuncInfo):
    """(smallest possible initial shift, explanation) for `while s > 0: x = xor(x, x >> s); s //= 2` loops, else None."""
    whiles = [n for n in walk_no_nested(fn.node) if isinstance(n, ast.While)]
    if len(whiles) != 1:
        return None
    w = whiles[0]
    var = None
    for n in ast.walk(w):
        if isinstance(n, ast.AugAssign) and isinstance(n.target, ast.Name) and \
                ((isinstance(n.op, ast.FloorDiv) and const_value(n.value) == 2) or (isinstance(n.op, ast.RShift) and const_value(n.value) == 1)):
            var = n.target.id
    if var is None or not any(isinstance(n, ast.BinOp) and isinstance(n.op, ast.RShift) and norm(n.right) == var for n in ast.walk(w)):
        return None
    if not any(xor_operands(n) is not None for n in ast.walk(w)):
        return None
    loc = {}
    for n in walk_no_nested(fn.node):
        if isinstance(n, ast.Assign) and len(n.targets) == 1 and isinstance(n.targets[0], ast.Name) and n.lineno < w.lineno:
            loc[n.targets[0].id] = n.value

    def lo(e, depth=0):
        """smallest value the expression can take (None = unknown)"""
        v = const_value(e)
        if isinstance(v, int):
            return v, 'constant %d' % v
        if isinstance(e, ast.Name) and e.id in loc and depth < 5:
            return lo(loc[e.id], depth + 1)
        if isinstance(e, ast.BinOp) and isinstance(e.op, ast.Mult):
            a, b = lo(e.left, depth + 1), lo(e.right, depth + 1)
            if a[0] is not None and b[0] is not None:
                return a[0] * b[0], '%s * %s' % (a[1], b[1])
        if isinstance(e, ast.Call) and norm(e.func) == 'getattr' and len(e.args) == 3:
            d = const_value(e.args[2])
            if isinstance(d, int):
                return d, 'getattr default %d when the argument has no %s' % (d, norm(e.args[1]))
        return None, 'unbounded expression `%s`' % norm(e)[:40]
    if var not in loc:
        return None, 'initial shift not assigned before the loop'
    got = lo(loc[var])
    if got[0] is not None:
        return got
    # dtype-aware start: evaluate the initial shift for every integer width numpy has (itemsize 1, 2, 4, 8 bytes) and for the plain
    # Python-int alternative of a try/except; each candidate is (initial shift, bits the value can have)
    alld: Dict[str, List[ast.AST]] = {}
    for n in ast.walk(fn.node):
        if isinstance(n, ast.Assign) and len(n.targets) == 1 and isinstance(n.targets[0], ast.Name) and n.lineno < w.lineno:
            alld.setdefault(n.targets[0].id, []).append(n.value)

    def vals(e, depth=0):
        """[(value, width in bits or None)]; None when not understood"""
        if depth > 6:
            return None
        v = const_value(e)
        if isinstance(v, int) and not isinstance(v, bool):
            return [(v, None)]
        if isinstance(e, ast.Attribute) and e.attr == 'itemsize':
            return [(b, 8 * b) for b in (1, 2, 4, 8)]
        if isinstance(e, ast.Call) and norm(e.func) == 'getattr' and len(e.args) == 3 and isinstance(e.args[1], ast.Constant) \
                and e.args[1].value in ('itemsize', 'bits'):
            d = const_value(e.args[2])
            if isinstance(d, int):
                k = 1 if e.args[1].value == 'itemsize' else 8
                return [(k * b, 8 * b) for b in (1, 2, 4, 8)] + [(d, None)]
            return None
        if isinstance(e, ast.Attribute) and e.attr == 'bits':
            return [(8 * b, 8 * b) for b in (1, 2, 4, 8)]
        if isinstance(e, ast.Name) and e.id in alld:
            out = []
            for d in alld[e.id]:
                r = vals(d, depth + 1)
                if r is None:
                    return None
                out += r
            return out
        if isinstance(e, ast.BinOp) and isinstance(e.op, (ast.FloorDiv, ast.Mult, ast.Add, ast.Sub, ast.RShift, ast.LShift)):
            l, r = vals(e.left, depth + 1), vals(e.right, depth + 1)
            if l is None or r is None:
                return None
            out = []
            for a, wa in l:
                for b, wb in r:
                    if wa is not None and wb is not None and wa != wb:
                        continue
                    op = e.op
                    if isinstance(op, (ast.FloorDiv,)) and b == 0:
                        return None
                    val = a // b if isinstance(op, ast.FloorDiv) else a * b if isinstance(op, ast.Mult) else a + b if isinstance(op, ast.Add) \
                        else a - b if isinstance(op, ast.Sub) else a >> b if isinstance(op, ast.RShift) else a << b
                    out.append((val, wa if wa is not None else wb))
            return out
        return None
    cands = vals(loc[var])
    if cands is None:
        return got
    worst = None
    for v_, w_ in cands:
        need = (w_ or WIDTH) // 2
        if v_ < need and (worst is None or v_ < worst[0]):
            worst = (v_, w_)
    if worst is None:
        return WIDTH // 2, 'every integer width starts at half its bit width (%s)' % sorted(set(cands))[:6]
    return worst[0], 'for %s the loop starts at shift %d' % ('a %d-bit integer dtype' % worst[1] if worst[1] else 'plain Python ints', worst[0])


def _check_gray2binary(ctx: Ctx) -> None:
    M = ctx.model
    ctx.rule('C15.b', 'Gray->binary prefix-xor covers the 64-bit integer width', floor=1)
    fn = M.func(CONV, 'gray2binary')
    ctx.instance('C15.b', 'gray2binary')
    loops = [n for n in walk_no_nested(fn.node) if isinstance(n, (ast.While, ast.For))]
    if loops:
        # loop form: `for s in (32,16,...)` over literal shifts, or `while mask: x ^= mask; mask >>= 1`
        shifts = None
        for l in loops:
            if isinstance(l, ast.For) and isinstance(l.iter, (ast.Tuple, ast.List)):
                vals = [const_value(e) for e in l.iter.elts]
                if all(isinstance(v, int) for v in vals):
                    shifts = vals
        if shifts is None:
            hl = _halving_loop(fn)
            if hl is not None:
                start, why = hl
                ok = start is not None and start >= WIDTH // 2
                ctx.obligation('C15.b', 'gray2binary', ok, {'form': 'halving-shift loop', 'smallest_initial_shift': start, 'how': why})
                if start is None:
                    ctx.error('C15.b: halving-shift loop whose initial shift cannot be bounded (%s)' % why)
                if not ok:
                    ctx.violation('C15.b', 'gray2binary', 'the halving-shift loop can start at shift %d (%s): values are then only inverted below 2^%d, '
                                  'fewer bits than the integer can hold' % (start, why, 2 * start), fn.path, fn.lineno, operand='width')
                return
            whiles = [l for l in loops if isinstance(l, ast.While)]
            ok = bool(whiles) and any(isinstance(n, ast.AugAssign) and isinstance(n.op, ast.RShift) for n in ast.walk(whiles[0])) \
                and any(isinstance(n, (ast.AugAssign, ast.BinOp)) and isinstance(n.op, ast.BitXor) for n in ast.walk(whiles[0]))
            ctx.obligation('C15.b', 'gray2binary', ok, {'form': 'shift-until-zero loop'})
            if not ok:
                ctx.error('C15.b: gray2binary loop form not recognised')
            return
    else:
        guards: list = []
        shifts = cascade_shifts(fn, guards)
        for k, runs_from, node in (guards if shifts is not None else []):
            if runs_from is None:
                ctx.error('C15.b: the shift-%d step of gray2binary is guarded by `%s`, a test that is not a comparison of the largest input '
                          'with a constant (cannot tell)' % (k, norm(node.test)[:60]))
            ok = runs_from <= (1 << k)
            ctx.obligation('C15.b', 'gray2binary', ok, {'guarded_step': k, 'runs_for_largest_value_from': runs_from, 'needed_from': 1 << k})
            if not ok:
                ctx.violation('C15.b', 'gray2binary', 'the shift-%d step is skipped unless the largest value is at least %d, but every value from '
                              '2^%d = %d on needs it: gray2binary(%d) is decoded without its top bit being propagated' % (k, runs_from, k, 1 << k, 1 << k),
                              fn.path, node.lineno, operand='guard:%d' % k)
    if shifts is None:
        ctx.error('C15.b: gray2binary is neither a shift cascade nor a recognised loop (idiom unknown)')
    sset = sorted(set(shifts))
    pow2 = all(s > 0 and s & (s - 1) == 0 for s in sset)
    contiguous = pow2 and sset == [1 << i for i in range(len(sset))]
    covered = (2 * max(sset)) if sset else 0
    ok = contiguous and covered >= WIDTH
    ctx.obligation('C15.b', 'gray2binary', ok, {'shifts': shifts, 'bits_covered': covered, 'needed': WIDTH})
    if not ok:
        ctx.violation('C15.b', 'gray2binary', 'the prefix-xor cascade uses shifts %s and therefore inverts binary2gray only '
                      'below 2^%d (needed: %d bits; e.g. gray2binary(binary2gray(70000)) != 70000)'
                      % (shifts, covered, WIDTH), fn.path, fn.lineno, operand='width')


def _check_shapes(ctx: Ctx) -> None:
    M = ctx.model
    ctx.rule('C15.c', 'binary->Gray is n ^ (n >> 1); bit errors = sum(popcount(xor(a, b))); popcount loop', floor=3)
    fn = M.func(CONV, 'binary2gray')
    ctx.instance('C15.c', 'binary2gray')
    from ..astutil import expander
    ex = expander(fn)
    rets = [n for n in walk_no_nested(fn.node) if isinstance(n, ast.Return)]
    ok = False
    recognised = False
    if len(rets) == 1 and rets[0].value is not None:
        ops = xor_operands(ex(rets[0].value))
        if ops is not None:
            p = fn.params[0]
            for a, b in (ops, ops[::-1]):
                sh = shift_of(a)
                if sh is not None:
                    recognised = True
                    if sh == (p, 1) and norm(b) == p:
                        ok = True
    if not ok and not recognised:
        ctx.error('C15.c: binary2gray does not return an xor with a right shift (cannot tell): %s' % [norm(r.value) for r in rets])
    ctx.obligation('C15.c', 'binary2gray', ok, {'returns': [norm(ex(r.value)) for r in rets]})
    if not ok:
        ctx.violation('C15.c', 'binary2gray', 'is not n ^ (n >> 1): `%s`' % [norm(ex(r.value)) for r in rets], fn.path, fn.lineno,
                      operand='shape')
    fn = M.func(MISC, 'count_bit_errors')
    ctx.instance('C15.c', 'count_bit_errors')
    p1, p2 = fn.params[0], fn.params[1]
    assigns: Dict[str, List[ast.AST]] = {}
    for n in walk_no_nested(fn.node):
        if isinstance(n, ast.Assign) and len(n.targets) == 1 and isinstance(n.targets[0], ast.Name):
            assigns.setdefault(n.targets[0].id, []).append(n.value)
    VIEW = {'ravel', 'flatten', 'reshape', 'view', 'squeeze', 'copy', 'astype'}

    def xor_roots(e: ast.AST, depth: int = 0) -> Optional[List[Tuple[str, str]]]:
        """operand pairs of the xor call(s) the value e is a piece / view of; None when it cannot be traced."""
        if depth > 8:
            return None
        ops = xor_operands(e)
        if ops is not None:
            return [(norm(ops[0]), norm(ops[1]))]
        if isinstance(e, ast.Subscript):
            return xor_roots(e.value, depth + 1)
        if isinstance(e, ast.Call) and isinstance(e.func, ast.Attribute) and e.func.attr in VIEW:
            return xor_roots(e.func.value, depth + 1)
        if isinstance(e, ast.Call) and norm(e.func) in ('np.ravel', 'np.asarray', 'np.array', 'np.atleast_1d') and e.args:
            return xor_roots(e.args[0], depth + 1)
        if isinstance(e, ast.Name) and e.id in assigns:
            out: List[Tuple[str, str]] = []
            for v in assigns[e.id]:
                r = xor_roots(v, depth + 1)
                if r is None:
                    return None
                out += r
            return out
        return None

    counts = [c for c in walk_no_nested(fn.node) if isinstance(c, ast.Call) and norm(c.func).split('.')[-1] == 'count_bits' and c.args]
    rets = [n for n in walk_no_nested(fn.node) if isinstance(n, ast.Return)]
    if not counts:
        ctx.error('C15.c: count_bit_errors no longer counts bits through count_bits (cannot tell)')
    wrong = []
    for c in counts:
        roots = xor_roots(c.args[0])
        if roots is None:
            ctx.error('C15.c: the argument `%s` of count_bits in count_bit_errors cannot be traced to an xor of the two operands (cannot tell)'
                      % norm(c.args[0])[:50])
        wrong += [r for r in roots if set(r) != {p1, p2}]

    def sum_form(e: ast.AST, name: Optional[str] = None) -> bool:
        """np.sum(<..count_bits..>[, axis]) | <name> + sum_form | sum_form + sum_form"""
        if isinstance(e, ast.Call) and norm(e.func) in ('np.sum', 'sum', 'numpy.sum') and e.args:
            return any(x in counts for x in ast.walk(e.args[0]))
        if isinstance(e, ast.Call) and isinstance(e.func, ast.Attribute) and e.func.attr == 'sum':
            return any(x in counts for x in ast.walk(e.func.value))
        if isinstance(e, ast.BinOp) and isinstance(e.op, ast.Add):
            l_ok = (isinstance(e.left, ast.Name) and e.left.id == name) or sum_form(e.left, name)
            r_ok = (isinstance(e.right, ast.Name) and e.right.id == name) or sum_form(e.right, name)
            return l_ok and r_ok
        return False
    for r in rets:
        v = r.value
        good = sum_form(v) or (isinstance(v, ast.Name) and v.id in assigns and all(sum_form(a, v.id) for a in assigns[v.id]))
        if not good:
            ctx.error('C15.c: count_bit_errors returns `%s`, which is not a sum of count_bits(...) terms (cannot tell)' % norm(v)[:60])
    ok = not wrong
    ctx.obligation('C15.c', 'count_bit_errors', ok, {'returns': [norm(r.value)[:60] for r in rets], 'count_bits_calls': len(counts),
                                                     'xor_operands_other_than_the_two_arguments': wrong})
    if not ok:
        ctx.violation('C15.c', 'count_bit_errors', 'is not sum(count_bits(xor(first, second))): the counted bits come from xor%s' % (wrong[0],),
                      fn.path, fn.lineno, operand='shape')
    fn = M.func(MISC, 'count_bits')
    ctx.instance('C15.c', 'count_bits')
    whiles = [n for n in walk_no_nested(fn.node) if isinstance(n, ast.While)]
    ok = False
    if len(whiles) == 1:
        w = whiles[0]
        p = fn.params[0]
        test_ok = norm(w.test).replace(' ', '') in ('%s>0' % p, p, '%s!=0' % p)
        shift_ok = any(isinstance(n, ast.AugAssign) and isinstance(n.op, ast.RShift) and norm(n.target) == p
                       and const_value(n.value) == 1 for n in ast.walk(w))
        lsb_ok = any(isinstance(n, ast.BinOp) and isinstance(n.op, ast.BitAnd) and {norm(n.left), norm(n.right)} == {p, '1'}
                     for n in ast.walk(w))
        inc_ok = any(isinstance(n, ast.AugAssign) and isinstance(n.op, ast.Add) for n in ast.walk(w))
        ok = test_ok and shift_ok and lsb_ok and inc_ok
    ctx.obligation('C15.c', 'count_bits', ok, None)
    if not ok:
        ctx.violation('C15.c', 'count_bits', 'is not the shift-and-test popcount loop', fn.path, fn.lineno, operand='shape')


def synthetic():
    from ..overlay import Overlay
    src = 'def g(x):\n    t = x ^ (x >> 4)\n    t = t ^ (t >> 2)\n    t = t ^ (t >> 1)\n    return t\n'
    m = Model(Overlay({'pyphysim/syn.py': src}, '<syn>'))
    sh = cascade_shifts(m.func('pyphysim/syn.py', 'g'))
    return [('8-bit-cascade-recognised', sh == [4, 2, 1] and 2 * max(sh) < WIDTH)]


MUTANTS = [
    Mutant('halving-loop-starts-at-half-the-itemsize', CONV, 'gray2binary',
           [('regex', r'    temp = xor\(num, num >> 32\)\n.*?    temp = xor\(temp, temp >> 1\)\n', '    nbits = getattr(getattr(num, "dtype", None), "itemsize", 64)\n    temp = num\n    shift = nbits // 2\n    while shift > 0:\n        temp = xor(temp, temp >> shift)\n        shift //= 2\n')],
           r'C15\.b:gray2binary:width'),
    Mutant('guarded-cascade-step-off-by-one', CONV, 'gray2binary',
           [('replace', 'temp = xor(num, num >> 32)', 'largest = np.max(num)\n    temp = xor(num, num >> 32)'),
            ('replace', 'temp = xor(temp, temp >> 16)', 'if largest > 2 ** 16:\n        temp = xor(temp, temp >> 16)')], r'C15\.b:gray2binary:guard:16'),
    Mutant('benign-guarded-cascade-step', CONV, 'gray2binary',
           [('replace', 'temp = xor(num, num >> 32)', 'largest = np.max(num)\n    temp = xor(num, num >> 32)'),
            ('replace', 'temp = xor(temp, temp >> 16)', 'if largest >= 2 ** 16:\n        temp = xor(temp, temp >> 16)')], None, benign=True),
    Mutant('qam-installs-natural-order', FUND, 'QAM.__init__',
           [('delete', r'symbols = symbols\[grayMappingIndexes\]')], r'C15\.a:QAM\.__init__'),
    Mutant('psk-init-natural-order', FUND, 'PSK.__init__',
           [('delete', r'symbols = symbols\[gray2binary')], r'C15\.a:PSK\.__init__'),
    Mutant('qam-index-helper-without-gray', FUND, 'QAM._calculateGrayMappingIndexQAM',
           [('replace', 'binary2gray(np.arange(0, L, dtype=int))', 'np.arange(0, L, dtype=int)')], r'C15\.a:QAM\.__init__'),
    Mutant('revert-fix-gray2binary-16-bit', CONV, 'gray2binary',
           [('regex', r'    temp = xor\(num, num >> 32\)\n    temp = xor\(temp, temp >> 16\)\n    temp = xor\(temp, temp >> 8\)',
             '    temp = xor(num, num >> 8)')], r'C15\.b:gray2binary'),
    Mutant('halving-loop-default-itemsize-4', CONV, 'gray2binary',
           [('regex', r'    temp = xor\(num, num >> 32\)\n.*    temp = xor\(temp, temp >> 1\)\n',
             "    itemsize = getattr(getattr(num, 'dtype', None), 'itemsize', 4)\n    shift = 4 * itemsize\n    temp = num\n    while shift > 0:\n        temp = xor(temp, temp >> shift)\n        shift //= 2\n")],
           r'C15\.b:gray2binary'),
    Mutant('benign-halving-loop-from-32', CONV, 'gray2binary',
           [('regex', r'    temp = xor\(num, num >> 32\)\n.*    temp = xor\(temp, temp >> 1\)\n',
             "    shift = 32\n    temp = num\n    while shift > 0:\n        temp = xor(temp, temp >> shift)\n        shift //= 2\n")],
           None, benign=True),
    Mutant('binary2gray-shift-2', CONV, 'binary2gray', [('replace', 'num >> 1', 'num >> 2')], r'C15\.c:binary2gray'),
    Mutant('bit-errors-of-first-only', MISC, 'count_bit_errors', [('replace', 'xor(first, second)', 'xor(first, first)')],
           r'C15\.c:count_bit_errors'),
    Mutant('benign-rename-gray-index', FUND, 'QAM.__init__',
           [('regex_all', r'grayMappingIndexes', 'gidx')], None, benign=True),
    Mutant('benign-gray2binary-operator-form', CONV, 'gray2binary',
           [('regex_all', r'xor\((\w+), (\w+ >> \d+)\)', r'\1 ^ (\2)')], None, benign=True),
]

ENGINES = ['model', 'tables']
TECHNIQUE = 'static analysis: interprocedural def-use taint (Gray-derived ordering), shift-cascade width rule, shape rules'
